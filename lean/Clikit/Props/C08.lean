import Clikit.Lemmas.Tokenizer
import Clikit.Model.Lines
import Clikit.Props.C05
/-!
# C08 - splitting a command string never fails and inverts shell-style quoting

Theorems about `Clikit.Tokenizer` (the model of `TokenParser`, `StringArgs`, `ArgvArgs`),
for **all** strings / token lists, not only the bounded scopes of the correspondence run.

* `tokenize_total`, `tokenize_never_fails`, `tokenize_fuel_independent` - termination and
  totality: with the entry fuel `|s| + 1` the scanner never runs out of fuel and never
  returns another error; more fuel never changes the answer.
* `object_model_eq`, `cursor_refinement` - the scanner written method by method on
  `TokenParser`'s object state (what the correspondence run executes) is the scanner on the
  remaining text that the other theorems speak about.
* `quote_roundtrip` - every list of tokens written down in single quotes, double quotes
  (token `expressible`) or bare (token non-empty, no whitespace/quote/backslash), separated
  by arbitrary non-empty whitespace, with optional leading and trailing whitespace,
  tokenises back to exactly that list.  The empty token is covered: `''` and `""` read
  back as `""` (the real tokenizer keeps empty quoted tokens); only the *bare* style cannot
  write it.  `expressible` is necessary, not an artefact of the proof:
  `quote_roundtrip_iff` shows that a quoted token reads back as itself *iff* it is expressible.
* `unquoted_split` - text without quotes and backslashes splits into its maximal
  non-whitespace runs.
* `option_tokens_*`, `string_argv_same` - option tokens are the tokens before the first
  `--`, for both raw-args kinds; a command string and the argv list of its tokens give the
  same `tokens` and `option_tokens`.
-/
namespace Clikit.Props.C08
open Clikit Clikit.Tokenizer
open Clikit.Gen.C08 (isSpace optionsEnd)

/-! ## termination and totality -/

/-- For every string the tokenizer returns a token list: the fuel `|s| + 1` is never used
up (every loop of `TokenParser` terminates) and no other error is possible. -/
theorem tokenize_total (s : Str) : ∃ ts, tokenize s = .ok ts :=
  toks_total (s.length + 1) s (Nat.le_refl _)

/-- The same, read as "no error value is ever returned" - in particular neither
`outOfFuel` nor a `TypeError` (D8 before its repair). -/
theorem tokenize_never_fails (s : Str) (e : Err) : tokenize s ≠ .error e := by
  obtain ⟨ts, h⟩ := tokenize_total s
  rw [h]; intro h'; cases h'

/-- The answer does not depend on the fuel once it is at least `|s| + 1`. -/
theorem tokenize_fuel_independent (s : Str) (n : Nat) (h : s.length + 1 ≤ n) :
    toks n s = tokenize s := by
  obtain ⟨ts, hts⟩ := toks_total n s h
  rw [hts, tokenize_of_toks hts]

/-- `StringArgs(s)` can be constructed for every string. -/
theorem stringArgs_total (s : Str) : ∃ a, stringArgs s = .ok a := by
  obtain ⟨ts, h⟩ := tokenize_total s
  exact ⟨⟨none, ts, optionTokens ts⟩, by simp only [stringArgs_eq, h]⟩

/-! ## the look-ahead state of the Python object and the remaining text -/

/-- `TokenParser.parse` establishes the invariant `_current = _string[_cursor]`,
`_next_ = _string[_cursor+1]`; `_next()` preserves it and acts on the remaining text
`_string[_cursor:]` as "drop one character"; `_is_valid()` says that text remains.  This is
the abstraction under which `pq`/`ptok`/`toks` mirror the methods of the class; the one
method that reads the look-ahead, `_parse_escape_sequence`, is `esc` on the remaining text. -/
theorem cursor_refinement (s : Str) :
    (Cursor.init s).WF ∧ (Cursor.init s).rest = s ∧
    ∀ c : Cursor, c.WF →
      c.next.WF ∧ c.next.rest = c.rest.drop 1 ∧ c.isValid = !c.rest.isEmpty ∧
      c.current = c.rest.head? ∧ c.next_ = (c.rest.drop 1).head? ∧
      c.escape.1 = (esc (c.rest.drop 1)).1 ∧ c.escape.2.rest = (esc (c.rest.drop 1)).2 ∧
      c.escape.2.WF :=
  ⟨Cursor.init_wf s, Cursor.init_rest s, fun _ h =>
    ⟨Cursor.next_wf h, Cursor.rest_next h, Cursor.isValid_iff h, (Cursor.current_eq h).1,
      (Cursor.current_eq h).2, Cursor.escape_eq h⟩⟩

/-- The scanner written method by method on the object state (`tokenizeC`, what the
correspondence run executes against the real `TokenParser`) and the scanner on the remaining
text (`tokenize`, what the theorems below speak about) are the same function. -/
theorem object_model_eq (s : Str) : tokenizeC s = tokenize s := tokenizeC_eq s

/-- Hence termination and totality for the method-by-method model as well. -/
theorem object_model_total (s : Str) : ∃ ts, tokenizeC s = .ok ts := by
  rw [tokenizeC_eq]; exact tokenize_total s

/-! ## quoting round trip -/

/-- **Round trip.**  `ps` is any list of tokens, each with the whitespace written before it
and its style (single quotes, double quotes, bare); `wfPieces true ps` says: separators are
whitespace, non-empty except possibly the first; quoted tokens are `expressible`, bare ones
non-empty and plain.  Whatever trailing whitespace follows, tokenising the rendered string
returns exactly the tokens. -/
theorem quote_roundtrip (ps : List Piece) (trail : Str)
    (hwf : wfPieces true ps = true) (htrail : trail.all isSpace = true) :
    tokenize (render ps ++ trail) = .ok (ps.map (·.tok)) := by
  obtain ⟨n, h⟩ := toks_render ps true trail hwf htrail
  exact tokenize_of_toks h

/-- One quoted token, either quote kind, including the empty token. -/
theorem quote_roundtrip_single (q : Char) (hq : isQ q = true) (t : Str)
    (ht : expressible t = true) : tokenize (q :: (escq t ++ [q])) = .ok [t] := by
  rcases isQ_iff.1 hq with h | h <;> subst h
  · have := quote_roundtrip [⟨[], .single, t⟩] [] (by simp [wfPieces, Style.admits, ht]) rfl
    simpa [render, Style.render] using this
  · have := quote_roundtrip [⟨[], .double, t⟩] [] (by simp [wfPieces, Style.admits, ht]) rfl
    simpa [render, Style.render] using this

/-- `expressible` is *exactly* what quoting can express: a quoted token reads back as itself
if and only if it is expressible (so the hypothesis of `quote_roundtrip` cannot be weakened
for quoted tokens). -/
theorem quote_roundtrip_iff (q : Char) (hq : isQ q = true) (t : Str) :
    tokenize (q :: (escq t ++ [q])) = .ok [t] ↔ expressible t = true := by
  constructor
  · intro h
    cases he : expressible t with
    | true => rfl
    | false => exact absurd h (tokenize_quoted_inexpressible q hq t he)
  · exact quote_roundtrip_single q hq t

/-- The string form and the argv form of the same tokens are the same raw args (up to the
script name, which only `ArgvArgs` has): same `tokens`, same `option_tokens`. -/
theorem string_argv_same (s : Str) (script : Str) (ts : List Str) (h : tokenize s = .ok ts) :
    ∃ a b, stringArgs s = .ok a ∧ argvArgs (script :: ts) = .ok b ∧
      a.tokens = ts ∧ b.tokens = ts ∧ a.optionTokens = b.optionTokens :=
  ⟨⟨none, ts, optionTokens ts⟩, ⟨some script, ts, optionTokens ts⟩,
    by simp only [stringArgs_eq, h], rfl, rfl, rfl, rfl⟩

/-- Round trip at the level of raw args: the rendered command string and the argv list of
the tokens are indistinguishable by `tokens` and `option_tokens`. -/
theorem quoted_string_is_argv (ps : List Piece) (trail script : Str)
    (hwf : wfPieces true ps = true) (htrail : trail.all isSpace = true) :
    ∃ a b, stringArgs (render ps ++ trail) = .ok a ∧
      argvArgs (script :: ps.map (·.tok)) = .ok b ∧
      a.tokens = b.tokens ∧ a.optionTokens = b.optionTokens := by
  obtain ⟨a, b, h1, h2, h3, h4, h5⟩ :=
    string_argv_same _ script _ (quote_roundtrip ps trail hwf htrail)
  exact ⟨a, b, h1, h2, h3.trans h4.symm, h5⟩

/-! ## unquoted text -/

/-- Text without quotes and backslashes tokenises to its maximal non-whitespace runs. -/
theorem unquoted_split (s : Str) (h : unquoted s = true) : tokenize s = .ok (runs s) :=
  toks_runs (s.length + 1) s h (Nat.le_refl _)

/-- The runs are what "maximal non-whitespace runs" means: each is non-empty and free of
whitespace. -/
theorem runs_nonempty_nospace : ∀ (s : Str) (t : Str), t ∈ runs s →
    t ≠ [] ∧ t.all (fun c => !isSpace c) = true := by
  intro s
  induction s using runs.induct with
  | case1 => intro t h; simp [runs] at h
  | case2 c r hc ih => intro t h; rw [runs.eq_def] at h; simp only [hc, if_true] at h; exact ih t h
  | case3 c r hc ih =>
    intro t h
    rw [runs.eq_def] at h
    simp only [hc, Bool.false_eq_true, if_false, List.mem_cons] at h
    rcases h with h | h
    · subst h
      refine ⟨by simp, ?_⟩
      simp only [List.all_cons, Bool.and_eq_true, List.all_eq_true]
      refine ⟨by simpa using hc, ?_⟩
      intro x hx
      exact List.all_eq_true.1 (List.all_takeWhile (p := fun x => !isSpace x) (l := r)) x hx
    · exact ih t h

/-! ## option tokens -/

/-- Option tokens are the tokens before the first `--` (for `StringArgs` and `ArgvArgs`:
both are built with `optionTokens`, see `stringArgs`/`argvArgs`). -/
theorem option_tokens_takeWhile (ts : List Str) :
    optionTokens ts = ts.takeWhile (fun t => t != ['-', '-']) := rfl

theorem option_tokens_raw (s script : Str) (argv : List Str) :
    (∀ a, stringArgs s = .ok a → a.optionTokens = a.tokens.takeWhile (fun t => t != ['-', '-'])) ∧
    (∀ b, argvArgs (script :: argv) = .ok b →
      b.tokens = argv ∧ b.optionTokens = argv.takeWhile (fun t => t != ['-', '-'])) := by
  constructor
  · intro a h
    simp only [stringArgs_eq] at h
    split at h
    · cases h
    · cases h; rfl
  · intro b h; cases h; exact ⟨rfl, rfl⟩

/-- Everything from the first `--` on never counts as an option token. -/
theorem option_tokens_cut (pre post : List Str) (h : ['-', '-'] ∉ pre) :
    optionTokens (pre ++ ['-', '-'] :: post) = pre := by
  induction pre with
  | nil => simp [optionTokens, optionsEnd]
  | cons t pre ih =>
    simp only [List.mem_cons, not_or] at h
    have ht : (t != ['-', '-']) = true := by
      simp only [bne_iff_ne, ne_eq]; exact fun e => h.1 e.symm
    have := ih h.2
    simp only [optionTokens, optionsEnd] at this ⊢
    simp only [List.cons_append, List.takeWhile_cons, ht, if_true, this]

/-- Without a `--` every token is an option token. -/
theorem option_tokens_all (ts : List Str) (h : ['-', '-'] ∉ ts) : optionTokens ts = ts := by
  induction ts with
  | nil => rfl
  | cons t ts ih =>
    simp only [List.mem_cons, not_or] at h
    have ht : (t != ['-', '-']) = true := by
      simp only [bne_iff_ne, ne_eq]; exact fun e => h.1 e.symm
    have := ih h.2
    simp only [optionTokens, optionsEnd] at this ⊢
    simp only [List.takeWhile_cons, ht, if_true, this]

/-- `--` itself is never an option token, and option tokens are a prefix of the tokens. -/
theorem option_tokens_prefix (ts : List Str) :
    ['-', '-'] ∉ optionTokens ts ∧ optionTokens ts <+: ts := by
  constructor
  · intro h
    have := List.all_eq_true.1 (List.all_takeWhile (p := fun t => t != optionsEnd) (l := ts)) _ h
    simp [optionsEnd] at this
  · exact List.takeWhile_prefix _

/-- `has_option_token(t)` is false for every token that occurs only after the first `--`. -/
theorem option_token_after_dashes (pre post : List Str) (t : Str)
    (h : ['-', '-'] ∉ pre) (ht : t ∉ pre) :
    t ∉ optionTokens (pre ++ ['-', '-'] :: post) := by
  rw [option_tokens_cut pre post h]; exact ht

/-! ## hypothesis-free forms

`string_argv_same` assumes `tokenize s = .ok ts`, which `tokenize_total` proves; `option_tokens_cut`
/ `option_tokens_all` assume that `--` is not among `pre`, which holds for `pre = optionTokens ts` of
ANY token list (`option_tokens_prefix`), and every token list splits that way. -/

/-- `string_argv_same` with its hypothesis discharged by `tokenize_total`: for EVERY string the
string form and the argv form of its tokens are the same raw args. -/
theorem string_argv_same_total (s script : Str) :
    ∃ ts a b, tokenize s = .ok ts ∧ stringArgs s = .ok a ∧ argvArgs (script :: ts) = .ok b ∧
      a.tokens = ts ∧ b.tokens = ts ∧ a.optionTokens = b.optionTokens := by
  obtain ⟨ts, h⟩ := tokenize_total s
  obtain ⟨a, b, h1, h2, h3, h4, h5⟩ := string_argv_same s script ts h
  exact ⟨ts, a, b, h, h1, h2, h3, h4, h5⟩

/-- Every token list is its option tokens, followed - if there is a `--` at all - by the first
`--` and the rest. -/
theorem option_tokens_split (ts : List Str) :
    ts = optionTokens ts ∨ ∃ post, ts = optionTokens ts ++ ['-', '-'] :: post := by
  induction ts with
  | nil => left; rfl
  | cons t ts ih =>
    by_cases ht : t = ['-', '-']
    · right; subst ht; exact ⟨ts, by simp [optionTokens, optionsEnd]⟩
    · have hb : (t != optionsEnd) = true := by simp [optionsEnd, ht]
      have hc : optionTokens (t :: ts) = t :: optionTokens ts := by
        simp only [optionTokens, List.takeWhile_cons, hb, if_true]
      rw [hc]
      rcases ih with ih | ⟨post, ih⟩
      · left; exact congrArg (t :: ·) ih
      · right; exact ⟨post, by rw [List.cons_append]; exact congrArg (t :: ·) ih⟩

/-- taking option tokens twice changes nothing -/
theorem option_tokens_idem (ts : List Str) : optionTokens (optionTokens ts) = optionTokens ts :=
  option_tokens_all _ (option_tokens_prefix ts).1

/-- `option_tokens_cut` without a hypothesis: whatever follows the first `--` of ANY token list,
the option tokens are the same. -/
theorem option_tokens_tail_irrelevant (ts post : List Str) :
    optionTokens (optionTokens ts ++ ['-', '-'] :: post) = optionTokens ts :=
  option_tokens_cut _ post (option_tokens_prefix ts).1

/-! ## the two forms through ONE parser object

`Model/Lines.lean`: a sequence of command lines, each a command string or an argv list, issued to one
`DefaultArgsParser` object (`Config.set_args_parser` shares one object between all parses of a command).  The
parser reads the tokens only and decides where the options end anew for every line, so the form of a line and
everything the object parsed before - in particular a `--` in an earlier line - are invisible. -/

section Forms
open Clikit.Parser Clikit.Lines

/-- Every line yields raw args, except the argv list without a script name (`ArgvArgs([])`). -/
theorem line_raw_total (l : Line) (h : l ≠ .argv []) : ∃ a, l.raw = .ok a := by
  cases l with
  | str s =>
    obtain ⟨ts, hts⟩ := tokenize_total s
    exact ⟨⟨none, ts, optionTokens ts⟩, by simp only [Line.raw, stringArgs_eq, hts]⟩
  | argv a =>
    cases a with
    | nil => exact absurd rfl h
    | cons script ts => exact ⟨_, rfl⟩

/-- **String form = argv form for the parser, on any two parser objects**: the command string on an object that
holds `σ` and the argv list of its tokens on an object that holds `σ'` are parsed to the same result - the fresh
parse of the tokens. -/
theorem string_argv_same_parse (σ σ' : St) (cv : Conv) (f : Fmt) (lenient : Bool) (s script : Str) :
    ∃ ts a b, tokenize s = .ok ts ∧ Line.raw (.str s) = .ok a ∧ Line.raw (.argv (script :: ts)) = .ok b ∧
      (parseFrom σ cv f lenient a.tokens).1 = parse cv f lenient ts ∧
      (parseFrom σ' cv f lenient b.tokens).1 = parse cv f lenient ts := by
  obtain ⟨ts, a, b, h, h1, h2, h3, h4, _⟩ := string_argv_same_total s script
  refine ⟨ts, a, b, h, h1, h2, ?_, ?_⟩
  · rw [h3]; exact Props.C05.parseFrom_result _ _ _ _ _
  · rw [h4]; exact Props.C05.parseFrom_result _ _ _ _ _

/-- **Histories of lines on one parser object**: whatever the object holds and whatever lines - in either form,
with or without `--` - it parsed before, every line gets what a fresh parser gives for its tokens. -/
theorem line_history_fresh (σ : St) (rs : List LReq) : lineHistory σ rs = rs.map freshOut := by
  induction rs generalizing σ with
  | nil => rfl
  | cons r rs ih =>
    simp only [lineHistory, List.map_cons, freshOut]
    cases h : r.line.raw with
    | error e => simp only [ih]
    | ok a =>
      simp only [ih]
      rw [Props.C05.parseFrom_result]

/-- A line after any earlier lines (e.g. lines containing `--`) on the same object: its outcome is the fresh one. -/
theorem earlier_lines_inert (σ : St) (pre : List LReq) (r : LReq) :
    lineHistory σ (pre ++ [r]) = lineHistory σ pre ++ [freshOut r] := by
  simp only [line_history_fresh, List.map_append, List.map_cons, List.map_nil]

/-- Two histories whose lines stand for the same tokens (same tables, format and mode), in whatever forms, give
the same parses from any two start states: the form of a line is invisible to the parser. -/
theorem line_history_form_irrelevant (σ σ' : St) (rs rs' : List LReq)
    (h : rs.map freshOut = rs'.map freshOut) :
    lineHistory σ rs = lineHistory σ' rs' := by
  rw [line_history_fresh, line_history_fresh, h]

/-- the string form and the argv form of the same tokens are the same request -/
theorem freshOut_forms (cv : Conv) (f : Fmt) (lenient : Bool) (s script : Str) (ts : List Str)
    (h : tokenize s = .ok ts) :
    (freshOut ⟨cv, f, lenient, .str s⟩).2 = (freshOut ⟨cv, f, lenient, .argv (script :: ts)⟩).2 := by
  simp only [freshOut, Line.raw, stringArgs_eq, h, argvArgs]

end Forms

/-! ## non-vacuity -/

/-- `a 'b c'  "d\"e"` → `a`, `b c`, `d"e` (computed by the model) -/
example : tokenize ['a', ' ', '\'', 'b', ' ', 'c', '\'', ' ', '\t', '"', 'd', '\\', '"', 'e', '"']
    = .ok [['a'], ['b', ' ', 'c'], ['d', '"', 'e']] := by decide

/-- the same, obtained from `quote_roundtrip` (its hypotheses are satisfiable) -/
example : tokenize ['a', ' ', '\'', 'b', ' ', 'c', '\'', ' ', '\t', '"', 'd', '\\', '"', 'e', '"']
    = .ok [['a'], ['b', ' ', 'c'], ['d', '"', 'e']] :=
  quote_roundtrip [⟨[], .bare, ['a']⟩, ⟨[' '], .single, ['b', ' ', 'c']⟩,
    ⟨[' ', '\t'], .double, ['d', '"', 'e']⟩] [] (by decide) (by decide)

/-- the empty token is kept when quoted: `'' ""` → `""`, `""` -/
example : tokenize ['\'', '\'', ' ', '"', '"'] = .ok [[], []] :=
  quote_roundtrip [⟨[], .single, []⟩, ⟨[' '], .double, []⟩] [] (by decide) (by decide)

/-- `expressible` is needed: a token ending in a backslash does not survive quoting
(`'\'` reads back as `'`), nor does a backslash followed by a quote. -/
theorem roundtrip_needs_expressible :
    expressible ['\\'] = false ∧ tokenize ('\'' :: (escq ['\\'] ++ ['\''])) = .ok [['\'']] ∧
    expressible ['\\', '"'] = false ∧
    tokenize ('\'' :: (escq ['\\', '"'] ++ ['\''])) = .ok [['\\', '\\', '"', '\'', '\'', '"']] := by
  decide

/-- a trailing backslash is kept (D8 repaired), an unterminated quote is tolerated, a nested
quote of the other kind is re-emitted with its quotes -/
example : tokenize ['a', '\\'] = .ok [['a', '\\']] ∧ tokenize ['\'', 'a'] = .ok [['a']] ∧
    tokenize ['"', '\'', 'x', '\'', '"'] = .ok [['\'', 'x', '\'']] := by decide

/-- unquoted text: NBSP and IDEOGRAPHIC SPACE split, too (the table is `str.isspace`) -/
example : runs ['a', ' ', 'b', '　', ' ', 'c'] = [['a'], ['b'], ['c']] ∧
    tokenize ['a', ' ', 'b', '　', ' ', 'c'] = .ok [['a'], ['b'], ['c']] := by
  constructor
  · simp [runs, isSpace, Clikit.Gen.C08.spaceRanges]
  · decide

/-- option tokens stop at `--` even when an option-looking token follows it -/
example : optionTokens [['-', 'v'], ['-', '-'], ['-', 'q']] = [['-', 'v']] := by decide

/-! every theorem with hypotheses, applied to a concrete instance (all hypotheses discharged) -/

example : toks 100 ['a', ' ', '"', 'b', '"'] = tokenize ['a', ' ', '"', 'b', '"'] :=
  tokenize_fuel_independent _ 100 (by decide)

example : tokenize ('"' :: (escq ['i', 't', '\'', 's', ' ', '"'] ++ ['"'])) = .ok [['i', 't', '\'', 's', ' ', '"']] :=
  quote_roundtrip_single '"' (by decide) _ (by decide)

example : tokenize ('\'' :: (escq ['a', '\\', 'b'] ++ ['\''])) = .ok [['a', '\\', 'b']] :=
  (quote_roundtrip_iff '\'' (by decide) _).2 (by decide)

example : ∃ a b, stringArgs ['x', ' ', '-', '-', ' ', '-', 'v'] = .ok a ∧
    argvArgs (['p'] :: [['x'], ['-', '-'], ['-', 'v']]) = .ok b ∧ a.tokens = [['x'], ['-', '-'], ['-', 'v']] ∧
    b.tokens = [['x'], ['-', '-'], ['-', 'v']] ∧ a.optionTokens = b.optionTokens :=
  string_argv_same _ ['p'] _ (by decide)

example : ∃ a b, stringArgs (render [⟨[], .bare, ['x']⟩, ⟨[' '], .single, ['-', '-']⟩, ⟨['\t'], .double, ['a', ' ', 'b']⟩] ++ [' ']) = .ok a ∧
    argvArgs (['p'] :: [['x'], ['-', '-'], ['a', ' ', 'b']]) = .ok b ∧
    a.tokens = b.tokens ∧ a.optionTokens = b.optionTokens :=
  quoted_string_is_argv [⟨[], .bare, ['x']⟩, ⟨[' '], .single, ['-', '-']⟩, ⟨['\t'], .double, ['a', ' ', 'b']⟩]
    [' '] ['p'] (by decide) (by decide)

example : tokenize [' ', 'a', 'b', '\t', ' ', '-', 'c', ' '] = .ok (runs [' ', 'a', 'b', '\t', ' ', '-', 'c', ' ']) :=
  unquoted_split _ (by decide)

example : ['-', 'c'] ≠ [] ∧ ['-', 'c'].all (fun c => !isSpace c) = true :=
  runs_nonempty_nospace [' ', 'a', 'b', '\t', ' ', '-', 'c', ' '] ['-', 'c']
    (by simp [runs, isSpace, Clikit.Gen.C08.spaceRanges])

example : optionTokens ([['x'], ['-', 'q']] ++ ['-', '-'] :: [['-', 'v'], ['-', '-']]) = [['x'], ['-', 'q']] :=
  option_tokens_cut _ _ (by decide)

example : optionTokens [['x'], ['-', 'q'], ['-']] = [['x'], ['-', 'q'], ['-']] :=
  option_tokens_all _ (by decide)

example : ['-', 'v'] ∉ optionTokens ([['x'], ['-', 'q']] ++ ['-', '-'] :: [['-', 'v']]) :=
  option_token_after_dashes _ _ _ (by decide) (by decide)

/-! the two forms on one parser object: `-- --foo` (a command string; `--foo` is an argument there) and then the argv
list `p --foo` on the SAME object, which held other values before: the second line still sets the option -/
section
open Clikit.Parser Clikit.Lines Clikit.Props.C05

example : lineHistory dirty [⟨noConv, fooFmt, false, .str "-- --foo".toList⟩,
                             ⟨noConv, fooFmt, false, .argv ["p".toList, "--foo".toList]⟩]
    = [freshOut ⟨noConv, fooFmt, false, .str "-- --foo".toList⟩,
       freshOut ⟨noConv, fooFmt, false, .argv ["p".toList, "--foo".toList]⟩] :=
  line_history_fresh _ _

example : (freshOut ⟨noConv, fooFmt, false, .str "-- --foo".toList⟩).2
    = some (.ok { args := [("a".toList, .scalar (.str "--foo".toList))], opts := [] }) := by decide

example : (freshOut ⟨noConv, fooFmt, false, .argv ["p".toList, "--foo".toList]⟩).2
    = some (.ok { args := [], opts := [("foo".toList, .scalar (.bool true))] }) := by decide

example : (freshOut ⟨noConv, fooFmt, false, .str "'--foo'".toList⟩).2
    = (freshOut ⟨noConv, fooFmt, false, .argv ["p".toList, "--foo".toList]⟩).2 :=
  freshOut_forms _ _ _ _ _ _ (by decide)

example : ∃ a, Line.raw (.str "a 'b".toList) = .ok a := line_raw_total _ (by simp)
end

/-! ## Hypothesis audit of the theorems about the two forms (rounds 8-9) -/

section AuditR9
open Clikit Clikit.Tokenizer Clikit.Parser Clikit.Lines Clikit.Props.C05

/-- (hypothesis audit) The hypothesis of `line_history_form_irrelevant` compares whole outputs, raw args included, and
the raw args of a command string (no script name) never equal those of an argv list (a script name): it can only be
met by histories whose lines have pairwise the same form.  The statement about lines "in whatever forms" is this one,
on the PARSES alone: two histories whose lines have the same fresh parses - a command string here, the argv list of
its tokens there - get the same parses from any two parser objects. -/
theorem line_history_forms_same_parses (σ σ' : St) (rs rs' : List LReq)
    (h : rs.map (fun r => (freshOut r).2) = rs'.map (fun r => (freshOut r).2)) :
    (lineHistory σ rs).map (·.2) = (lineHistory σ' rs').map (·.2) := by
  rw [line_history_fresh, line_history_fresh, List.map_map, List.map_map]
  exact h

/-- applied with mixed forms: `'--foo' -- x` as a command string on an object that parsed before, and the argv list
`p --foo -- x` on a fresh object -/
example : (lineHistory dirty [⟨noConv, fooFmt, false, .str "'--foo' -- x".toList⟩]).map (·.2) =
    (lineHistory St.empty [⟨noConv, fooFmt, false, .argv ["p".toList, "--foo".toList, "--".toList, "x".toList]⟩]).map (·.2) :=
  line_history_forms_same_parses _ _ _ _ (by decide)

/-- the raw args of the two forms differ (script name), so `line_history_form_irrelevant` does not apply to them ... -/
example : (freshOut ⟨noConv, fooFmt, false, .str "'--foo'".toList⟩).1 ≠
    (freshOut ⟨noConv, fooFmt, false, .argv ["p".toList, "--foo".toList]⟩).1 := by decide

/-- ... it applies to the same lines on two parser objects -/
example : lineHistory dirty [⟨noConv, fooFmt, false, .str "-- --foo".toList⟩, ⟨noConv, fooFmt, true, .argv ["p".toList, "y".toList, "z".toList]⟩] =
    lineHistory St.empty [⟨noConv, fooFmt, false, .str "-- --foo".toList⟩, ⟨noConv, fooFmt, true, .argv ["p".toList, "y".toList, "z".toList]⟩] :=
  line_history_form_irrelevant _ _ _ _ rfl

end AuditR9

end Clikit.Props.C08
