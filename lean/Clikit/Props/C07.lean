import Clikit.Lemmas.Flags
import Clikit.Lemmas.FlagsConv
/-!
# C07 - option and argument flags are validated and normalised consistently

The flag logic the theorems are about (`Gen.optValidateFlags`, `Gen.optAddDefaultFlags`,
`Gen.argValidateFlags`, `Gen.argAddDefaultFlags`, `Gen.absValidateFlags`, `Gen.absAddDefaultFlags`,
the flag predicates and the bit constants) is regenerated from `/repo` on every run; the
constructors composing it are `Model/Flags.lean`.  Every statement holds for **all** natural-number
flag words (undefined bits included), all names over all of Unicode and every `str.isalpha` that is
"exactly the ASCII letters" on `[a-zA-Z0-9-]` (`AlphaOK`).
-/
namespace Clikit.Props.C07
open Clikit Clikit.Gen Clikit.Flags

variable {alpha : Char → Bool}

/-! ## The flag constants -/

/-- The flags are pairwise disjoint, non-empty bit masks (so every combination of named flags is a
distinct word and the predicates of a constructed object are independent observations). -/
theorem flag_constants_disjoint :
    ([AbsOptFlags.PREFER_LONG_NAME, AbsOptFlags.PREFER_SHORT_NAME, OptFlags.NO_VALUE,
      OptFlags.REQUIRED_VALUE, OptFlags.OPTIONAL_VALUE, OptFlags.MULTI_VALUED, OptFlags.STRING,
      OptFlags.BOOLEAN, OptFlags.INTEGER, OptFlags.FLOAT, OptFlags.NULLABLE].Pairwise
        (fun a b => a &&& b = 0 ∧ a ≠ 0 ∧ b ≠ 0)) ∧
    ([ArgFlags.REQUIRED, ArgFlags.OPTIONAL, ArgFlags.MULTI_VALUED, ArgFlags.STRING, ArgFlags.BOOLEAN,
      ArgFlags.INTEGER, ArgFlags.FLOAT, ArgFlags.NULLABLE].Pairwise
        (fun a b => a &&& b = 0 ∧ a ≠ 0 ∧ b ≠ 0)) := by
  decide

/-! ## Construction succeeds exactly when the combination is free of the documented contradictions -/

/-- `Option(long, short, flags, default=d)` can be constructed iff the flag word, the presence of a
short name and the kind of default are free of the documented contradictions and the names are
well-formed (after stripping `--` / `-`). -/
theorem option_ok_iff (hα : AlphaOK alpha) (long short : NameArg) (f : Nat) (d : DefVal) :
    (∃ o, mkOption alpha long short f d = .ok o) ↔
      (OptNoContradiction f (short != .none) d ∧ LongNameOK long ∧ ShortNameOK short) := by
  constructor
  · intro h
    obtain ⟨o, h⟩ := h
    have := (mkOption_spec hα long short f d o).1 h
    exact ⟨this.1, this.2.1, this.2.2.1⟩
  · intro h
    exact ⟨_, (mkOption_spec hα long short f d _).2 ⟨h.1, h.2.1, h.2.2, rfl⟩⟩

/-- ... and otherwise it raises `ValueError`, never anything else. -/
theorem option_raises_only_valueError (long short : NameArg) (f : Nat) (d : DefVal) (e : Err)
    (h : mkOption alpha long short f d = .error e) : e = .valueError :=
  mkOption_err alpha long short f d e h

/-- `Argument(name, flags, description, default=d)`. -/
theorem argument_ok_iff (hα : AlphaOK alpha) (name : NameArg) (f : Nat) (desc : NameArg) (d : DefVal) :
    (∃ a, mkArgument alpha name f desc d = .ok a) ↔
      (ArgNoContradiction f d ∧ ArgNameOK name ∧ DescOK desc) := by
  constructor
  · intro h
    obtain ⟨a, h⟩ := h
    have := (mkArgument_spec hα name f desc d a).1 h
    exact ⟨this.1, this.2.1, this.2.2.1⟩
  · intro h
    exact ⟨_, (mkArgument_spec hα name f desc d _).2 ⟨h.1, h.2.1, h.2.2, rfl⟩⟩

theorem argument_raises_only_valueError (name : NameArg) (f : Nat) (desc : NameArg) (d : DefVal) (e : Err)
    (h : mkArgument alpha name f desc d = .error e) : e = .valueError :=
  mkArgument_err alpha name f desc d e h

/-- `CommandOption(long, short, aliases, flags)`: one name preference at most, a short-name
preference needs a short name, every alias well-formed; the aliases are stored without their dash,
split into long and short ones, in the order given. -/
theorem command_option_ok_iff (hα : AlphaOK alpha) (long short : NameArg) (as : List Str) (f : Nat)
    (o : CommandOptionObj) :
    mkCommandOption alpha long short as f = .ok o ↔
      (CmdNoContradiction f (short != .none) ∧ LongNameOK long ∧ ShortNameOK short ∧
       (∀ a ∈ as, wfAlias a = true) ∧
       o = ⟨storedLong long, storedShort short, absAddDefaultFlags (storedShort short) f,
            longAliasesOf as, shortAliasesOf as⟩) :=
  mkCommandOption_spec hα long short as f o

theorem command_option_raises_only_valueError (long short : NameArg) (as : List Str) (f : Nat) (e : Err)
    (h : mkCommandOption alpha long short as f = .error e) : e = .valueError :=
  mkCommandOption_err alpha long short as f e h

/-- The outcome of the three constructors does not depend on which `str.isalpha` is used, as long
as it is exactly the ASCII letters on `[a-zA-Z0-9-]` (Python's also accepts e.g. 'é', which the
regular expression then rejects).  This is what lets the model driver run with the ASCII letters. -/
theorem ctor_alpha_irrelevant (hα : AlphaOK alpha) :
    (∀ long short f d, mkOption alpha long short f d = mkOption isAsciiLetter long short f d) ∧
    (∀ name f desc d, mkArgument alpha name f desc d = mkArgument isAsciiLetter name f desc d) ∧
    (∀ long short as f, mkCommandOption alpha long short as f =
        mkCommandOption isAsciiLetter long short as f) := by
  have key : ∀ {β : Type} (x y : Except Err β),
      (∀ e, x = .error e → e = .valueError) → (∀ e, y = .error e → e = .valueError) →
      (∀ b, x = .ok b ↔ y = .ok b) → x = y := by
    intro β x y hx hy hxy
    cases x with
    | error e1 =>
      cases y with
      | error e2 => rw [hx e1 rfl, hy e2 rfl]
      | ok b => have := (hxy b).2 rfl; cases this
    | ok b => exact ((hxy b).1 rfl).symm
  refine ⟨?_, ?_, ?_⟩
  · intro long short f d
    apply key _ _ (fun e => mkOption_err _ _ _ _ _ e) (fun e => mkOption_err _ _ _ _ _ e)
    intro o
    rw [mkOption_spec hα, mkOption_spec alphaOK_ascii]
  · intro name f desc d
    apply key _ _ (fun e => mkArgument_err _ _ _ _ _ e) (fun e => mkArgument_err _ _ _ _ _ e)
    intro a
    rw [mkArgument_spec hα, mkArgument_spec alphaOK_ascii]
  · intro long short as f
    apply key _ _ (fun e => mkCommandOption_err _ _ _ _ _ e) (fun e => mkCommandOption_err _ _ _ _ _ e)
    intro o
    rw [mkCommandOption_spec hα, mkCommandOption_spec alphaOK_ascii]

/-! ## Normal form of a constructed object -/

/-- The flag word and default of a constructed option, exactly: the stored names are the arguments
without their dash prefix, the word is the translated `_add_default_flags` of the input word, and
the default is a list for a multi-valued option and the given default otherwise.  Normalisation
only adds bits (`keeps`), and each bit of the result is determined as listed; bits other than the
five that can be added - undefined ones included - are untouched. -/
theorem option_flags_exact (hα : AlphaOK alpha) {long short : NameArg} {f : Nat} {d : DefVal}
    {o : OptionObj} (h : mkOption alpha long short f d = .ok o) :
    o.longName = storedLong long ∧ o.shortName = storedShort short ∧
    o.flags = optAddDefaultFlags o.shortName f ∧ keeps o.flags f ∧
    o.default = (if has f OptFlags.MULTI_VALUED = true then DefVal.list else d) ∧
    has o.flags OptFlags.NO_VALUE = !takesValue f ∧
    has o.flags OptFlags.REQUIRED_VALUE = (has f OptFlags.REQUIRED_VALUE || has f OptFlags.MULTI_VALUED) ∧
    has o.flags OptFlags.OPTIONAL_VALUE = has f OptFlags.OPTIONAL_VALUE ∧
    has o.flags OptFlags.MULTI_VALUED = has f OptFlags.MULTI_VALUED ∧
    has o.flags OptFlags.STRING = (has f OptFlags.STRING || noType f) ∧
    has o.flags OptFlags.BOOLEAN = has f OptFlags.BOOLEAN ∧
    has o.flags OptFlags.INTEGER = has f OptFlags.INTEGER ∧
    has o.flags OptFlags.FLOAT = has f OptFlags.FLOAT ∧
    has o.flags OptFlags.NULLABLE = has f OptFlags.NULLABLE ∧
    has o.flags AbsOptFlags.PREFER_LONG_NAME =
      (has f AbsOptFlags.PREFER_LONG_NAME || (noPref f && o.shortName.isNone)) ∧
    has o.flags AbsOptFlags.PREFER_SHORT_NAME =
      (has f AbsOptFlags.PREFER_SHORT_NAME || (noPref f && o.shortName.isSome)) ∧
    (∀ X, has AbsOptFlags.PREFER_LONG_NAME X = false → has AbsOptFlags.PREFER_SHORT_NAME X = false →
      has OptFlags.NO_VALUE X = false → has OptFlags.STRING X = false →
      has OptFlags.REQUIRED_VALUE X = false → has o.flags X = has f X) := by
  obtain ⟨hnc, _, hs, ho⟩ := (mkOption_spec hα long short f d o).1 h
  subst ho
  have hst : shortTruthy (storedShort short) = (storedShort short).isSome := by
    cases hs with
    | inl hs => subst hs; rfl
    | inr hs =>
      obtain ⟨ss, hss, hsw⟩ := hs
      subst hss
      simp only [storedShort, Option.isSome_some]
      exact wfShort_truthy hsw
  have hnv : (has f OptFlags.NO_VALUE || noMode f) = !takesValue f := by
    have := hnc.noValue_alone
    unfold noMode takesValue
    cases h1 : has f OptFlags.NO_VALUE
    · simp
    · have := this h1; simp [this.1, this.2.1, this.2.2]
  refine ⟨rfl, rfl, rfl, optAdd_keeps _ _, rfl, ?_, optAdd_required _ _, optAdd_optional_value _ _,
    optAdd_multi_valued _ _, optAdd_string _ _, optAdd_boolean _ _, optAdd_integer _ _,
    optAdd_float _ _, optAdd_nullable _ _, ?_, ?_, ?_⟩
  · show has (optAddDefaultFlags (storedShort short) f) OptFlags.NO_VALUE = _
    rw [optAdd_noValue, hnv]
  · show has (optAddDefaultFlags (storedShort short) f) AbsOptFlags.PREFER_LONG_NAME =
      (_ || (_ && (storedShort short).isNone))
    rw [optAdd_long, hst]
    cases storedShort short <;> simp
  · show has (optAddDefaultFlags (storedShort short) f) AbsOptFlags.PREFER_SHORT_NAME =
      (_ || (_ && (storedShort short).isSome))
    rw [optAdd_short, hst]
  · intro X h1 h2 h3 h4 h5
    exact optAdd_other _ _ _ h1 h2 h3 h4 h5

/-- A constructed option reports exactly one value type and exactly one name preference, and a
consistent value mode: `accepts_value()` is the negation of NO_VALUE; a value-less option takes no
value in any mode and has no default; an option that accepts a value is in some value mode; a
multi-valued option requires a value, is not value-optional and has a list default; any other
option has the default it was given. -/
theorem option_normal_form (hα : AlphaOK alpha) {long short : NameArg} {f : Nat} {d : DefVal}
    {o : OptionObj} (h : mkOption alpha long short f d = .ok o) :
    countFlags o.flags optTypeFlags = 1 ∧
    countFlags o.flags optPrefFlags = 1 ∧
    optAcceptsValue o.flags = !has o.flags OptFlags.NO_VALUE ∧
    (optAcceptsValue o.flags = false →
      o.default = .none ∧ optIsValueRequired o.flags = false ∧ optIsValueOptional o.flags = false ∧
        optIsMultiValued o.flags = false) ∧
    (optAcceptsValue o.flags = true →
      (optIsValueRequired o.flags || optIsValueOptional o.flags || optIsMultiValued o.flags) = true) ∧
    (optIsMultiValued o.flags = true →
      optIsValueRequired o.flags = true ∧ optIsValueOptional o.flags = false ∧ o.default = .list) ∧
    (optIsMultiValued o.flags = false → o.default = d) := by
  obtain ⟨hnc, _, _, _⟩ := (mkOption_spec hα long short f d o).1 h
  obtain ⟨_, _, _, _, hd, hnv, hrq, hop, hmu, hst, hbo, hin, hfl, _, hlo, hsh, _⟩ := option_flags_exact hα h
  have h2 := hnc.optional_not_multi
  have h3 := (count4_le_one f OptFlags.STRING OptFlags.BOOLEAN OptFlags.INTEGER OptFlags.FLOAT).1 hnc.one_type
  have h4 := (count2_le_one f AbsOptFlags.PREFER_LONG_NAME AbsOptFlags.PREFER_SHORT_NAME).1 hnc.one_pref
  have h5 := hnc.valueless_default
  have h6 := hnc.multi_default
  clear h hnc
  rw [optAcceptsValue_eq, optIsValueRequired_eq, optIsValueOptional_eq, optIsMultiValued_eq, hd, hnv, hrq,
    hop, hmu]
  unfold takesValue at h5 ⊢
  refine ⟨?_, ?_, rfl, ?_, ?_, ?_, ?_⟩
  · unfold optTypeFlags
    rw [count4_eq_one, count4_le_one, hst, hbo, hin, hfl]
    unfold noType
    revert h3
    generalize has f OptFlags.STRING = a
    generalize has f OptFlags.BOOLEAN = b
    generalize has f OptFlags.INTEGER = c
    generalize has f OptFlags.FLOAT = e
    cases a <;> cases b <;> cases c <;> cases e <;> simp
  · unfold optPrefFlags
    rw [count2_eq_one, hlo, hsh]
    unfold noPref
    revert h4
    generalize has f AbsOptFlags.PREFER_LONG_NAME = a
    generalize has f AbsOptFlags.PREFER_SHORT_NAME = b
    cases o.shortName <;> cases a <;> cases b <;> simp
  · revert h5
    generalize has f OptFlags.REQUIRED_VALUE = a
    generalize has f OptFlags.OPTIONAL_VALUE = b
    generalize has f OptFlags.MULTI_VALUED = c
    cases a <;> cases b <;> cases c <;> simp
  · generalize has f OptFlags.REQUIRED_VALUE = a
    generalize has f OptFlags.OPTIONAL_VALUE = b
    generalize has f OptFlags.MULTI_VALUED = c
    cases a <;> cases b <;> cases c <;> simp
  · revert h2
    generalize has f OptFlags.REQUIRED_VALUE = a
    generalize has f OptFlags.OPTIONAL_VALUE = b
    generalize has f OptFlags.MULTI_VALUED = c
    cases a <;> cases b <;> cases c <;> simp
  · intro hm; simp [hm]

/-- The flag word and default of a constructed argument, exactly. -/
theorem argument_flags_exact (hα : AlphaOK alpha) {name desc : NameArg} {f : Nat} {d : DefVal}
    {a : ArgumentObj} (h : mkArgument alpha name f desc d = .ok a) :
    a.name = storedArgName name ∧ a.flags = argAddDefaultFlags f ∧ keeps a.flags f ∧
    a.default = (if has f ArgFlags.MULTI_VALUED = true then DefVal.list else d) ∧
    has a.flags ArgFlags.REQUIRED = has f ArgFlags.REQUIRED ∧
    has a.flags ArgFlags.OPTIONAL = !has f ArgFlags.REQUIRED ∧
    has a.flags ArgFlags.MULTI_VALUED = has f ArgFlags.MULTI_VALUED ∧
    has a.flags ArgFlags.STRING = (has f ArgFlags.STRING || argNoType f) ∧
    has a.flags ArgFlags.BOOLEAN = has f ArgFlags.BOOLEAN ∧
    has a.flags ArgFlags.INTEGER = has f ArgFlags.INTEGER ∧
    has a.flags ArgFlags.FLOAT = has f ArgFlags.FLOAT ∧
    has a.flags ArgFlags.NULLABLE = has f ArgFlags.NULLABLE ∧
    (∀ X, has ArgFlags.OPTIONAL X = false → has ArgFlags.STRING X = false →
      has a.flags X = has f X) := by
  obtain ⟨hnc, _, _, ha⟩ := (mkArgument_spec hα name f desc d a).1 h
  subst ha
  refine ⟨rfl, rfl, argAdd_keeps _, rfl, argAdd_required _, ?_, argAdd_multi_valued _, argAdd_string _,
    argAdd_boolean _, argAdd_integer _, argAdd_float _, argAdd_nullable _, ?_⟩
  · show has (argAddDefaultFlags f) ArgFlags.OPTIONAL = _
    rw [argAdd_optional]
    have := hnc.required_not_optional
    unfold argNoReq
    revert this
    generalize has f ArgFlags.REQUIRED = a
    generalize has f ArgFlags.OPTIONAL = b
    cases a <;> cases b <;> simp
  · intro X h1 h2
    exact argAdd_other _ _ h1 h2

/-- A constructed argument reports exactly one value type, is exactly one of required / optional,
a required one has no default of its own (`[]` when it is also multi-valued), a multi-valued one has
a list default, any other one the default it was given. -/
theorem argument_normal_form (hα : AlphaOK alpha) {name desc : NameArg} {f : Nat} {d : DefVal}
    {a : ArgumentObj} (h : mkArgument alpha name f desc d = .ok a) :
    countFlags a.flags argTypeFlags = 1 ∧
    countFlags a.flags argReqFlags = 1 ∧
    argIsOptional a.flags = !argIsRequired a.flags ∧
    (argIsRequired a.flags = true → d = .none ∧
      a.default = (if argIsMultiValued a.flags = true then DefVal.list else DefVal.none)) ∧
    (argIsMultiValued a.flags = true → a.default = .list) ∧
    (argIsMultiValued a.flags = false → a.default = d) := by
  obtain ⟨hnc, _, _, _⟩ := (mkArgument_spec hα name f desc d a).1 h
  obtain ⟨_, _, _, hd, hrq, hop, hmu, hst, hbo, hin, hfl, _, _⟩ := argument_flags_exact hα h
  have h3 := (count4_le_one f ArgFlags.STRING ArgFlags.BOOLEAN ArgFlags.INTEGER ArgFlags.FLOAT).1 hnc.one_type
  have h5 := hnc.required_default
  clear h hnc
  rw [argIsOptional_eq, argIsRequired_eq, argIsMultiValued_eq, hd, hrq, hop, hmu]
  refine ⟨?_, ?_, rfl, ?_, ?_, ?_⟩
  · unfold argTypeFlags
    rw [count4_eq_one, count4_le_one, hst, hbo, hin, hfl]
    unfold argNoType
    revert h3
    generalize has f ArgFlags.STRING = a
    generalize has f ArgFlags.BOOLEAN = b
    generalize has f ArgFlags.INTEGER = c
    generalize has f ArgFlags.FLOAT = e
    cases a <;> cases b <;> cases c <;> cases e <;> simp
  · unfold argReqFlags
    rw [count2_eq_one, hrq, hop]
    cases has f ArgFlags.REQUIRED <;> simp
  · intro hr
    have := h5 hr
    subst this
    exact ⟨rfl, rfl⟩
  · intro hm; simp [hm]
  · intro hm; simp [hm]

/-! ## Names -/

/-- what the predicates `wfLong`, `wfShort`, `wfArgName` say, spelled out -/
theorem wf_spelled_out (s : Str) :
    (wfLong s = true ↔ (2 ≤ s.length ∧ (∃ c r, s = c :: r ∧ isAsciiLetter c = true) ∧
        ∀ c ∈ s, nameChar c = true)) ∧
    (wfShort s = true ↔ ∃ c, s = [c] ∧ isAsciiLetter c = true) ∧
    (wfArgName s = true ↔ ((∃ c r, s = c :: r ∧ isAsciiLetter c = true) ∧ ∀ c ∈ s, nameChar c = true)) := by
  have hh : headIsAlpha isAsciiLetter s = true ↔ ∃ c r, s = c :: r ∧ isAsciiLetter c = true := by
    cases s with
    | nil => simp [headIsAlpha]
    | cons c r => simp [headIsAlpha]
  refine ⟨?_, ?_, ?_⟩
  · simp only [wfLong, Bool.and_eq_true, decide_eq_true_eq, hh, List.all_eq_true, and_assoc]
  · cases s with
    | nil => simp [wfShort]
    | cons c r => cases r <;> simp [wfShort]
  · simp only [wfArgName, Bool.and_eq_true, hh, List.all_eq_true]

/-- Long and short option names and argument names are accepted exactly when well-formed; a long
name given with `--`, a short name given with `-`, is accepted exactly when the name after the
prefix is well-formed, and a well-formed name never starts with a dash (so it is accepted as it is
and stored unchanged).  Holds for the `\Z`-anchored expressions: `"ab\n"` and `"c\n"` are rejected. -/
theorem names_wf_iff (hα : AlphaOK alpha) (t : Str) :
    ((∃ o, mkOption alpha (.str t) .none 0 .none = .ok o) ↔ wfLong (stripDoubleDash t) = true) ∧
    ((∃ o, mkOption alpha (.str ('-' :: '-' :: t)) .none 0 .none = .ok o) ↔ wfLong t = true) ∧
    (wfLong t = true → stripDoubleDash t = t) ∧
    ((∃ o, mkOption alpha (.str ['a', 'b']) (.str t) 0 .none = .ok o) ↔ wfShort (stripDash t) = true) ∧
    ((∃ o, mkOption alpha (.str ['a', 'b']) (.str ('-' :: t)) 0 .none = .ok o) ↔ wfShort t = true) ∧
    (wfShort t = true → stripDash t = t) ∧
    ((∃ a, mkArgument alpha (.str t) 0 .none .none = .ok a) ↔ wfArgName t = true) ∧
    (wfArgName t = true → stripDash t = t) := by
  have hab : wfLong ['a', 'b'] = true := by decide
  have hdash : isAsciiLetter '-' = false := by decide
  have hhead : ∀ u : Str, headIsAlpha isAsciiLetter u = true → stripDash u = u ∧ stripDoubleDash u = u := by
    intro u hu
    cases u with
    | nil => simp [headIsAlpha] at hu
    | cons c r =>
      simp only [headIsAlpha] at hu
      have : c ≠ '-' := by intro hc; subst hc; rw [hdash] at hu; cases hu
      constructor
      · unfold stripDash; split
        · next r' he => injection he with he1 _; exact absurd he1 this
        · rfl
      · unfold stripDoubleDash; split
        · next r' he => injection he with he1 _; exact absurd he1 this
        · rfl
  refine ⟨?_, ?_, ?_, ?_, ?_, ?_, ?_, ?_⟩
  · rw [option_ok_iff hα]
    simp [noContradiction_zero, LongNameOK, ShortNameOK]
  · rw [option_ok_iff hα]
    simp [noContradiction_zero, LongNameOK, ShortNameOK, stripDoubleDash]
  · intro h
    simp only [wfLong, Bool.and_eq_true] at h
    exact (hhead t h.1.2).2
  · rw [option_ok_iff hα]
    simp [noContradiction_zero, LongNameOK, ShortNameOK, stripDoubleDash, hab]
  · rw [option_ok_iff hα]
    simp [noContradiction_zero, LongNameOK, ShortNameOK, stripDoubleDash, stripDash, hab]
  · intro h
    cases t with
    | nil => simp [wfShort] at h
    | cons c r =>
      cases r with
      | nil =>
        simp only [wfShort] at h
        exact (hhead [c] (by simpa [headIsAlpha] using h)).1
      | cons c2 r2 => simp [wfShort] at h
  · rw [argument_ok_iff hα]
    simp [argNoContradiction_zero, ArgNameOK, DescOK]
  · intro h
    simp only [wfArgName, Bool.and_eq_true] at h
    exact (hhead t h.1).1

/-- A `CommandOption` alias is accepted exactly when it is one ASCII letter or a well-formed long
name after ONE leading dash has been stripped. -/
theorem alias_wf_iff (hα : AlphaOK alpha) (a : Str) :
    (∃ o, mkCommandOption alpha (.str ['a', 'b']) .none [a] 0 = .ok o) ↔ wfAlias a = true := by
  have hab : wfLong ['a', 'b'] = true := by decide
  constructor
  · intro h
    obtain ⟨o, h⟩ := h
    exact ((command_option_ok_iff hα _ _ _ _ _).1 h).2.2.2.1 a (List.mem_singleton.2 rfl)
  · intro h
    refine ⟨_, (command_option_ok_iff hα _ _ _ _ _).2
      ⟨cmdNoContradiction_zero _, ⟨_, rfl, hab⟩, Or.inl rfl, ?_, rfl⟩⟩
    intro a' ha'
    rw [List.mem_singleton.1 ha']
    exact h

/-! ## Conversion by the declared type -/

/-- `parse_T(value, nullable)` returns a value of type `T`, `None` only when nullable, or raises
`ValueError` - never another exception (`parse_int(None, False)` needs the `TypeError` catch).
Excluded are only the number-to-number casts that belong to CPython's float engine
(`int(float)`, `float(int)`), which can raise `OverflowError`. -/
theorem conv_typed (eng : FloatEng) (c : Conv) (nullable : Bool) (v : PyVal)
    (h : engineFree c v = true) : ConvOutcomeOK c nullable (parseAs eng c nullable v) :=
  conv_typed_aux eng c nullable v h

/-- `None` comes back exactly when the conversion is nullable and the value is `None` or `"null"`. -/
theorem conv_none_iff (eng : FloatEng) (c : Conv) (nullable : Bool) (v : PyVal) :
    parseAs eng c nullable v = .ok .none ↔ (nullable = true ∧ isNullish v = true) :=
  conv_none_iff_aux eng c nullable v

/-- `Option.parse` of a constructed option converts by *the* type its flag word declares (there is
exactly one, by `option_normal_form`), nullable iff NULLABLE is set. -/
theorem parse_typed_by_declared_type (hα : AlphaOK alpha) {long short : NameArg} {f : Nat} {d : DefVal}
    {o : OptionObj} (h : mkOption alpha long short f d = .ok o) (eng : FloatEng) (c : Conv)
    (hc : has o.flags (optTypeFlag c) = true) (v : PyVal) :
    optParse eng o.flags v = parseAs eng c (has o.flags OptFlags.NULLABLE) v := by
  have h1 := (option_normal_form hα h).1
  unfold optTypeFlags at h1
  rw [count4_eq_one, count4_le_one] at h1
  unfold optParse optParseKind optParseNullable
  simp only [has_def]
  cases c <;> simp only [optTypeFlag] at hc <;> simp_all [Conv.ofCode]

/-- the same for `Argument.parse` -/
theorem argument_parse_typed_by_declared_type (hα : AlphaOK alpha) {name desc : NameArg} {f : Nat}
    {d : DefVal} {a : ArgumentObj} (h : mkArgument alpha name f desc d = .ok a) (eng : FloatEng)
    (c : Conv) (hc : has a.flags (argTypeFlag c) = true) (v : PyVal) :
    argParse eng a.flags v = parseAs eng c (has a.flags ArgFlags.NULLABLE) v := by
  have h1 := (argument_normal_form hα h).1
  unfold argTypeFlags at h1
  rw [count4_eq_one, count4_le_one] at h1
  unfold argParse argParseKind argParseNullable
  simp only [has_def]
  cases c <;> simp only [argTypeFlag] at hc <;> simp_all [Conv.ofCode]

/-- `parse_int` maps the text form of every integer back to it (induction over the decimal digits),
also through `parse_string`, whatever `nullable` is. -/
theorem parse_int_repr (eng : FloatEng) (nullable : Bool) (n : Int) :
    parseString eng nullable (.int n) = .ok (.str (intRepr n)) ∧
    parseInt eng nullable (.str (intRepr n)) = .ok (.int n) := by
  have hne : (intRepr n == nullText) = false := by
    simpa using intRepr_ne_null n
  have hp : pyInt (intRepr n) = some n := by
    have := pyInt_intRepr n [] [] rfl rfl
    simpa using this
  constructor
  · simp [parseString, isNullish]
  · simp [parseInt, isNullish, hne, intCall, hp, catchTypeValue]

/-- ... and tolerates what Python's `int()` tolerates around it: surrounding ASCII whitespace and an
explicit `+` sign. -/
theorem parse_int_text (eng : FloatEng) (nullable : Bool) (ws ws' : Str)
    (h : ws.all isWs = true) (h' : ws'.all isWs = true) :
    (∀ n : Int, parseInt eng nullable (.str (ws ++ (intRepr n ++ ws'))) = .ok (.int n)) ∧
    (∀ m : Nat, parseInt eng nullable (.str (ws ++ ('+' :: (natRepr m ++ ws')))) =
      .ok (.int (Int.ofNat m))) := by
  constructor
  · intro n; exact parseInt_of_pyInt eng nullable (pyInt_intRepr n ws ws' h h')
  · intro m; exact parseInt_of_pyInt eng nullable (pyInt_plus m ws ws' h h')

/-- `parse_boolean` on text: exactly the documented words, and the text form `parse_string` gives
a boolean is mapped back to it. -/
theorem parse_bool_text (eng : FloatEng) :
    (∀ (nullable : Bool) (s : Str), s ≠ nullText →
      (parseBoolean nullable (.str s) = .ok (.bool true) ↔ s ∈ trueWords) ∧
      (parseBoolean nullable (.str s) = .ok (.bool false) ↔ (s = [] ∨ s ∈ falseWords)) ∧
      (s ≠ [] → s ∉ trueWords → s ∉ falseWords → parseBoolean nullable (.str s) = .error .valueError)) ∧
    (∀ (nullable b : Bool), ∃ t, parseString eng nullable (.bool b) = .ok (.str t) ∧
      parseBoolean nullable (.str t) = .ok (.bool b)) := by
  constructor
  · intro nullable s hs
    have hn : (nullable && isNullish (.str s)) = false := by
      have : (s == nullText) = false := by simpa using hs
      simp [isNullish, this]
    simp only [parseBoolean, hn, Bool.false_eq_true, if_false]
    refine ⟨boolText_true_iff s, boolText_false_iff s, ?_⟩
    intro h0 h1 h2
    rcases boolText_cases s with h | h | h
    · exact absurd ((boolText_true_iff s).1 h) h1
    · cases (boolText_false_iff s).1 h with
      | inl h => exact absurd h h0
      | inr h => exact absurd h h2
    · exact h
  · intro nullable b
    cases b
    · refine ⟨"false".toList, ?_, ?_⟩
      · simp [parseString, isNullish]
      · cases nullable <;> rfl
    · refine ⟨"true".toList, ?_, ?_⟩
      · simp [parseString, isNullish]
      · cases nullable <;> rfl

/-- `parse_float` maps the text form of a float back to it, given CPython's guarantee
`float(repr(x)) == x` (and that no float prints as `null`): the float engine is a parameter. -/
theorem parse_float_repr (eng : FloatEng) (nullable : Bool) (x : PyFloat)
    (hrt : eng.ofStr (eng.repr x) = some x) (hnn : eng.repr x ≠ nullText) :
    parseString eng nullable (.float x) = .ok (.str (eng.repr x)) ∧
    parseFloat eng nullable (.str (eng.repr x)) = .ok (.float x) := by
  have hne : (eng.repr x == nullText) = false := by simpa using hnn
  constructor
  · simp [parseString, isNullish]
  · simp [parseFloat, isNullish, hne, floatCall, hrt, catchTypeValue]

/-! ## The hypotheses about CPython's engines, decided

`AlphaOK alpha` is a fact about CPython's `str.isalpha`; `hrt` / `hnn` of `parse_float_repr` are
facts about CPython's `float` / `repr`.  Both are decided by executable functions of the model
(`alphaTableOK`, `floatRtB`, `Model/Flags.lean`) on tables of what the running interpreter answers;
the driver evaluates them on every run (`c07.alpha_ok` on all 63 characters, `c07.float_rt` on every
generated float) and the correspondence compares the answers with `true`. -/

/-- `alphaTableOK` decides `AlphaOK` of every `isalpha` that answers as the table says on the 63
characters `[a-zA-Z0-9-]` -/
theorem alpha_table_decides (tbl : List (Char × Bool)) (alpha : Char → Bool)
    (hag : ∀ c ∈ nameCharList, tbl.lookup c = some (alpha c)) :
    alphaTableOK tbl = true ↔ AlphaOK alpha :=
  ⟨alphaOK_of_table tbl alpha hag, alphaTableOK_of_alphaOK tbl alpha hag⟩

/-- a passing table is itself an admissible `isalpha` -/
theorem alpha_table_ok (tbl : List (Char × Bool)) (h : alphaTableOK tbl = true) : AlphaOK (alphaOfTable tbl) :=
  alphaOK_of_table tbl _ (alphaOfTable_agrees tbl h) h

/-- `ctor_alpha_irrelevant` with its hypothesis decided: for every `isalpha` that answers on
`[a-zA-Z0-9-]` as a table that passes `alphaTableOK`, the three constructors behave exactly as with
the driver's ASCII letters - whatever that `isalpha` says elsewhere (e.g. `true` for 'é'). -/
theorem ctor_alpha_irrelevant_decided (tbl : List (Char × Bool))
    (hag : ∀ c ∈ nameCharList, tbl.lookup c = some (alpha c)) (h : alphaTableOK tbl = true) :
    (∀ long short f d, mkOption alpha long short f d = mkOption isAsciiLetter long short f d) ∧
    (∀ name f desc d, mkArgument alpha name f desc d = mkArgument isAsciiLetter name f desc d) ∧
    (∀ long short as f, mkCommandOption alpha long short as f =
        mkCommandOption isAsciiLetter long short as f) :=
  ctor_alpha_irrelevant (alphaOK_of_table tbl alpha hag h)

/-- `floatRtB` decides the two hypotheses of `parse_float_repr` -/
theorem float_rt_decides (eng : FloatEng) (x : PyFloat) :
    floatRtB eng x = true ↔ (eng.ofStr (eng.repr x) = some x ∧ eng.repr x ≠ nullText) :=
  floatRtB_iff eng x

/-- `parse_float_repr` with its hypotheses decided -/
theorem parse_float_repr_decided (eng : FloatEng) (nullable : Bool) (x : PyFloat)
    (h : floatRtB eng x = true) :
    parseString eng nullable (.float x) = .ok (.str (eng.repr x)) ∧
    parseFloat eng nullable (.str (eng.repr x)) = .ok (.float x) :=
  parse_float_repr eng nullable x ((floatRtB_iff eng x).1 h).1 ((floatRtB_iff eng x).1 h).2

/-! ## Non-vacuity and documented corner cases (concrete evaluations of the model) -/

/-- `--verbose -v`, MULTI_VALUED|INTEGER: constructed, REQUIRED_VALUE and PREFER_SHORT_NAME added,
list default. -/
example : mkOption isAsciiLetter (.str "--verbose".toList) (.str "-v".toList) (32 ||| 512) .none =
    .ok ⟨"verbose".toList, some "v".toList, 2 ||| 8 ||| 32 ||| 512, .list⟩ := by rfl

/-- the contradictions are really rejected -/
example : mkOption isAsciiLetter (.str "ab".toList) .none (4 ||| 8) .none = .error .valueError ∧
    mkOption isAsciiLetter (.str "ab".toList) .none (16 ||| 32) .none = .error .valueError ∧
    mkOption isAsciiLetter (.str "ab".toList) .none (128 ||| 1024) .none = .error .valueError ∧
    mkOption isAsciiLetter (.str "ab".toList) .none 2 .none = .error .valueError ∧
    mkOption isAsciiLetter (.str "ab".toList) .none 0 .scalar = .error .valueError ∧
    mkOption isAsciiLetter (.str "ab".toList) .none 32 .scalar = .error .valueError ∧
    mkArgument isAsciiLetter (.str "ab".toList) 3 .none .none = .error .valueError ∧
    mkArgument isAsciiLetter (.str "ab".toList) 1 .none .scalar = .error .valueError := by
  refine ⟨?_, ?_, ?_, ?_, ?_, ?_, ?_, ?_⟩ <;> rfl

/-- REQUIRED_VALUE|OPTIONAL_VALUE is *not* among the documented contradictions: the option is
constructed and reports both modes. -/
example : mkOption isAsciiLetter (.str "ab".toList) .none (8 ||| 16) .none =
    .ok ⟨"ab".toList, none, 1 ||| 8 ||| 16 ||| 128, .none⟩ := by rfl

/-- D7: a trailing newline is not part of a name -/
example : wfLong "ab\n".toList = false ∧ wfShort "c\n".toList = false ∧ wfArgName "ab\n".toList = false ∧
    wfLong "ab".toList = true ∧ wfShort "c".toList = true := by decide

/-- aliases: `-cd` is the long alias `cd`; `--cd` is rejected (only one dash is stripped) -/
example : wfAlias "-cd".toList = true ∧ wfAlias "--cd".toList = false ∧ wfAlias "-c".toList = true := by
  decide

/-- D3: `parse_int(None, nullable=False)` is a `ValueError`; and an engine whose `int(x)` raises
`OverflowError` (CPython for `inf`) lets that escape - why `conv_typed` excludes the casts. -/
example : let eng : FloatEng := ⟨fun _ => none, fun _ => .error (.other "OverflowError"),
      fun _ => .error (.other "OverflowError"), fun _ => []⟩
    parseInt eng false .none = .error .valueError ∧
    parseInt eng false (.float ⟨[]⟩) = .error (.other "OverflowError") := by
  exact ⟨rfl, rfl⟩

/-- `int()`: sign, surrounding whitespace, single underscores between digits - nothing else -/
example : pyInt [' ', '-', '1', '_', '0', ' '] = some (-10) ∧ pyInt ['1', '_', '_', '0'] = none := by
  simp [pyInt, pyIntAbs, intBody.eq_def, digitVal?, isWs, isAsciiDigit, List.dropWhile]

example : pyInt ['+', ' ', '1'] = none ∧ pyInt ['_', '1'] = none ∧ pyInt [] = none := by
  simp [pyInt, pyIntAbs, digitVal?, isWs, isAsciiDigit, List.dropWhile]

example : intRepr (-120) = "-120".toList := by
  show '-' :: natRepr 120 = _
  rw [natRepr_ge (by omega), natRepr_ge (by omega), natRepr_lt (by omega)]
  rfl

/-! ### every theorem with hypotheses, applied to a concrete instance (all hypotheses discharged) -/

section Applied

/-- an `isalpha` given as a table: the ASCII letters on the 63 name characters, and - like
CPython's - `true` for 'é'; it passes the decider and is NOT the driver's `isAsciiLetter` -/
def exTable : List (Char × Bool) := ('é', true) :: nameCharList.map (fun c => (c, isAsciiLetter c))

example : alphaTableOK exTable = true ∧ alphaOfTable exTable 'é' = true ∧ isAsciiLetter 'é' = false ∧
    nameCharList.length = 63 := by decide

/-- a table that answers wrongly for one character (or misses one) is rejected -/
example : alphaTableOK (('1', true) :: exTable) = false ∧ alphaTableOK (exTable.filter (·.1 != 'q')) = false := by
  decide

example : mkOption (alphaOfTable exTable) (.str "été".toList) .none 0 .none =
    mkOption isAsciiLetter (.str "été".toList) .none 0 .none :=
  (ctor_alpha_irrelevant_decided exTable (alphaOfTable_agrees exTable (by decide)) (by decide)).1 _ _ _ _

example : AlphaOK (alphaOfTable exTable) := alpha_table_ok exTable (by decide)

example : OptNoContradiction 8 true .scalar ∧ LongNameOK (.str "ab".toList) ∧ ShortNameOK (.str "c".toList) :=
  (option_ok_iff (alpha_table_ok exTable (by decide)) (.str "ab".toList) (.str "c".toList) 8 .scalar).1 ⟨_, rfl⟩

example : ArgNoContradiction 4 .list ∧ ArgNameOK (.str "a-1".toList) ∧ DescOK (.str "d".toList) :=
  (argument_ok_iff alphaOK_ascii (.str "a-1".toList) 4 (.str "d".toList) .list).1 ⟨_, rfl⟩

example := option_raises_only_valueError (alpha := isAsciiLetter) (.str "ab".toList) .none (4 ||| 8) .none _ rfl
example := argument_raises_only_valueError (alpha := isAsciiLetter) (.str "ab".toList) 3 .none .none _ rfl
example := command_option_raises_only_valueError (alpha := isAsciiLetter) (.str "ab".toList) .none ["--cd".toList] 0 _ rfl

example : CmdNoContradiction 0 true ∧ LongNameOK (.str "ab".toList) :=
  ⟨((command_option_ok_iff alphaOK_ascii (.str "ab".toList) (.str "-c".toList) ["-cd".toList, "e".toList] 0
      ⟨"ab".toList, some "c".toList, 2, ["cd".toList], ["e".toList]⟩).1 rfl).1,
   ((command_option_ok_iff alphaOK_ascii (.str "ab".toList) (.str "-c".toList) ["-cd".toList, "e".toList] 0
      ⟨"ab".toList, some "c".toList, 2, ["cd".toList], ["e".toList]⟩).1 rfl).2.1⟩

def exOpt : OptionObj := ⟨"verbose".toList, some "v".toList, 2 ||| 8 ||| 32 ||| 512, .list⟩
private theorem exOpt_built : mkOption isAsciiLetter (.str "--verbose".toList) (.str "-v".toList) (32 ||| 512) .none = .ok exOpt := rfl
def exArg : ArgumentObj := ⟨"n".toList, 2 ||| 128 ||| 256, .scalar⟩
private theorem exArg_built : mkArgument isAsciiLetter (.str "n".toList) (128 ||| 256) .none .scalar = .ok exArg := rfl

example : countFlags exOpt.flags optTypeFlags = 1 := (option_normal_form alphaOK_ascii exOpt_built).1
example : exOpt.flags = optAddDefaultFlags exOpt.shortName (32 ||| 512) := (option_flags_exact alphaOK_ascii exOpt_built).2.2.1
example : countFlags exArg.flags argReqFlags = 1 := (argument_normal_form alphaOK_ascii exArg_built).2.1
example : keeps exArg.flags (128 ||| 256) := (argument_flags_exact alphaOK_ascii exArg_built).2.2.1

example : wfLong "a-b".toList = true → stripDoubleDash "a-b".toList = "a-b".toList :=
  (names_wf_iff alphaOK_ascii "a-b".toList).2.2.1
example : ∃ o, mkCommandOption isAsciiLetter (.str ['a', 'b']) .none ["-cd".toList] 0 = .ok o :=
  (alias_wf_iff alphaOK_ascii "-cd".toList).2 (by decide)

/-- a float engine for the examples: tokens are the texts themselves -/
def exEng : FloatEng :=
  ⟨fun s => some ⟨s⟩, fun n => .ok ⟨intRepr n⟩, fun _ => .error (.other "OverflowError"), fun x => x.tok⟩

example : ConvOutcomeOK .int true (parseAs exEng .int true (.str " 12 ".toList)) :=
  conv_typed exEng .int true (.str " 12 ".toList) rfl
example : parseAs exEng .float true (.str "null".toList) = .ok .none :=
  (conv_none_iff exEng .float true (.str "null".toList)).2 ⟨rfl, rfl⟩

example (v : PyVal) : optParse exEng exOpt.flags v = parseAs exEng .int false v :=
  parse_typed_by_declared_type alphaOK_ascii exOpt_built exEng .int (by decide) v
example (v : PyVal) : argParse exEng exArg.flags v = parseAs exEng .float true v :=
  argument_parse_typed_by_declared_type alphaOK_ascii exArg_built exEng .float (by decide) v

example : parseInt exEng false (.str ([' ', '\t'] ++ (intRepr (-7) ++ ['\n']))) = .ok (.int (-7)) :=
  (parse_int_text exEng false [' ', '\t'] ['\n'] (by decide) (by decide)).1 (-7)

example : floatRtB exEng ⟨"1.5".toList⟩ = true ∧ floatRtB exEng ⟨"null".toList⟩ = false := by decide
example : parseFloat exEng false (.str "1.5".toList) = .ok (.float ⟨"1.5".toList⟩) :=
  (parse_float_repr_decided exEng false ⟨"1.5".toList⟩ (by decide)).2
example := parse_float_repr exEng true ⟨"-0.0".toList⟩ rfl (by decide)

end Applied

end Clikit.Props.C07
