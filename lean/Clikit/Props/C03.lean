import Clikit.Model.Resolver
import Clikit.Model.AliasCfg
import Clikit.Lemmas.Resolver
/-!
# C03 - the resolver selects the deepest command named by the leading tokens

Theorems about the model `Clikit.Resolver` of `DefaultResolver` / `CommandCollection`, for every
command tree (any depth and fan-out) and every token list.
-/
namespace Clikit.Props.C03
open Clikit Clikit.Parser Clikit.Resolver

/-! ## The leading tokens -/

/-- a token that can name a command: non-empty, not `--`, not starting with `-` -/
def nameLike (t : Str) : Bool := t != [] && t != ['-', '-'] && t.head? != some '-'

/-- The leading tokens are exactly the longest prefix of name-like tokens. -/
theorem lead_eq_takeWhile (toks : List Str) : lead toks = toks.takeWhile nameLike := by
  induction toks with
  | nil => rfl
  | cons t r ih =>
    by_cases h1 : t = []
    · subst h1
      simp [lead, List.takeWhile, nameLike]
    · by_cases h2 : t = ['-', '-']
      · subst h2
        simp [lead, List.takeWhile, nameLike]
      · by_cases h3 : t.head? = some '-'
        · have hn : nameLike t = false := by simp [nameLike, h3]
          simp [lead, List.takeWhile, hn, h1, h2, h3]
        · have hn : nameLike t = true := by simp [nameLike, h1, h2, h3]
          simp [lead, List.takeWhile, hn, h1, h2, h3, ih]

/-- **Tokens after `--` never take part in the selection**: whatever follows the separator,
the leading tokens are those before it. -/
theorem tail_never_names (pre tail : List Str) :
    lead (pre ++ ['-', '-'] :: tail) = lead pre := by
  induction pre with
  | nil => simp [lead]
  | cons t r ih =>
    simp only [List.cons_append, lead]
    split
    · rfl
    · split
      · rfl
      · split
        · rfl
        · rw [ih]

/-- **Options after the path never change it**: if the path consists of name-like tokens and
the next token starts with `-`, the leading tokens are exactly the path. -/
theorem options_after_path (path rest : List Str) (o : Str) (hp : ∀ p ∈ path, nameLike p = true)
    (ho : o.head? = some '-') : lead (path ++ o :: rest) = path := by
  rw [lead_eq_takeWhile]
  induction path with
  | nil =>
    have : nameLike o = false := by simp [nameLike, ho]
    simp [List.takeWhile, this]
  | cons p r ih =>
    have h1 := hp p List.mem_cons_self
    simp only [List.cons_append, List.takeWhile, h1]
    rw [ih (fun q hq => hp q (List.mem_cons_of_mem _ hq))]

/-- the same for an empty token or the end of the line -/
theorem lead_of_path (path : List Str) (hp : ∀ p ∈ path, nameLike p = true) : lead path = path := by
  rw [lead_eq_takeWhile]
  induction path with
  | nil => rfl
  | cons p r ih =>
    simp only [List.takeWhile, hp p List.mem_cons_self]
    rw [ih (fun q hq => hp q (List.mem_cons_of_mem _ hq))]

/-! ## The walk follows the longest prefix that names a path of commands -/

/-- `IsPath coll names c`: the (non-empty) list of names, looked up level by level starting in
`coll` - a name or alias of a non-anonymous command, then of one of ITS named sub-commands, … -
leads to `c`.  Written independently of `walk`. -/
inductive IsPath : Coll → List Str → Cmd → Prop
  | one {coll n c} : coll.get? n = some c → IsPath coll [n] c
  | cons {coll n c r c'} : coll.get? n = some c → IsPath (namedColl c.subs) r c' → IsPath coll (n :: r) c'

/-- a name list leads to at most one command -/
theorem IsPath.unique {coll : Coll} {names : List Str} {c c' : Cmd}
    (h : IsPath coll names c) (h' : IsPath coll names c') : c = c' := by
  induction h generalizing c' with
  | one hg =>
    cases h' with
    | one hg' => exact Option.some.inj (hg.symm.trans hg')
    | cons _ hr => cases hr
  | cons hg hr ih =>
    cases h' with
    | one _ => cases hr
    | cons hg' hr' =>
      have hcc := Option.some.inj (hg.symm.trans hg')
      subst hcc
      exact ih hr'

/-- continuing a walk that has already reached a command -/
theorem walk_from_some (coll : Coll) (c0 : Cmd) (p0 : List Str) (ls : List Str) :
    ∃ c p, walk coll (some (c0, p0)) ls = some (c, p) := by
  induction ls generalizing coll c0 p0 with
  | nil => exact ⟨c0, p0, rfl⟩
  | cons n r ih =>
    simp only [walk]
    split
    · exact ⟨c0, p0, rfl⟩
    · exact ih _ _ _

/-- The walk finds nothing exactly when there is no leading token or the first one names no
(top-level) command. -/
theorem walk_none_iff (coll : Coll) (ls : List Str) :
    walk coll none ls = none ↔ (ls = [] ∨ ∃ n r, ls = n :: r ∧ coll.get? n = none) := by
  cases ls with
  | nil => simp [walk]
  | cons n r =>
    simp only [walk]
    cases hg : coll.get? n with
    | none => simp [hg]
    | some c =>
      obtain ⟨c', p', h⟩ := walk_from_some (namedColl c.subs) c [c.name] r
      simp [h, hg]

/-- auxiliary: the walk from a reached command `c0` (sub-collection `coll`) -/
theorem walk_spec_aux : ∀ (ls : List Str) (coll : Coll) (c0 : Cmd) (p0 : List Str) (c : Cmd) (p : List Str),
    walk coll (some (c0, p0)) ls = some (c, p) →
    (c = c0 ∧ p = p0 ∧ (ls = [] ∨ ∃ n r, ls = n :: r ∧ coll.get? n = none)) ∨
    (∃ k, 1 ≤ k ∧ k ≤ ls.length ∧ IsPath coll (ls.take k) c ∧
      (k = ls.length ∨ ∃ n, ls[k]? = some n ∧ (namedColl c.subs).get? n = none)) := by
  intro ls
  induction ls with
  | nil => intro coll c0 p0 c p h; simp [walk] at h; exact Or.inl ⟨h.1.symm, h.2.symm, Or.inl rfl⟩
  | cons n r ih =>
    intro coll c0 p0 c p h
    simp only [walk] at h
    cases hg : coll.get? n with
    | none =>
      simp [hg] at h
      exact Or.inl ⟨h.1.symm, h.2.symm, Or.inr ⟨n, r, rfl, hg⟩⟩
    | some c1 =>
      simp only [hg] at h
      right
      rcases ih _ _ _ _ _ h with ⟨hc, _, hstop⟩ | ⟨k, hk1, hk2, hpath, hmax⟩
      · subst hc
        refine ⟨1, Nat.le_refl _, by simp, by simpa using IsPath.one hg, ?_⟩
        rcases hstop with hr | ⟨n', r', hr, hnone⟩
        · left; simp [hr]
        · right; exact ⟨n', by simp [hr], hnone⟩
      · refine ⟨k + 1, by omega, by simp; omega, ?_, ?_⟩
        · simpa using IsPath.cons hg hpath
        · rcases hmax with hm | ⟨n', hn', hnone⟩
          · left; simp [hm]
          · right; exact ⟨n', by simpa using hn', hnone⟩

/-- **Deepest command**: when the walk reaches a command `c`, some non-empty prefix of the
leading tokens is a path to `c`, and it is maximal: either all leading tokens were used or the
next one names no named sub-command of `c`. -/
theorem walk_deepest (coll : Coll) (ls : List Str) (c : Cmd) (p : List Str)
    (h : walk coll none ls = some (c, p)) :
    ∃ k, 1 ≤ k ∧ k ≤ ls.length ∧ IsPath coll (ls.take k) c ∧
      (k = ls.length ∨ ∃ n, ls[k]? = some n ∧ (namedColl c.subs).get? n = none) := by
  cases ls with
  | nil => simp [walk] at h
  | cons n r =>
    simp only [walk] at h
    cases hg : coll.get? n with
    | none => simp [hg] at h
    | some c1 =>
      simp only [hg] at h
      rcases walk_spec_aux _ _ _ _ _ _ h with ⟨hc, _, hstop⟩ | ⟨k, hk1, hk2, hpath, hmax⟩
      · subst hc
        refine ⟨1, Nat.le_refl _, by simp, by simpa using IsPath.one hg, ?_⟩
        rcases hstop with hr | ⟨n', r', hr, hnone⟩
        · left; simp [hr]
        · right; exact ⟨n', by simp [hr], hnone⟩
      · refine ⟨k + 1, by omega, by simp; omega, ?_, ?_⟩
        · simpa using IsPath.cons hg hpath
        · rcases hmax with hm | ⟨n', hn', hnone⟩
          · left; simp [hm]
          · right; exact ⟨n', by simpa using hn', hnone⟩

/-! ## Aliases -/

/-- two name lists that look up the same commands level by level -/
inductive SameLookups : Coll → List Str → List Str → Prop
  | nil {coll} : SameLookups coll [] []
  | stop {coll n n' r r'} : coll.get? n = none → coll.get? n' = none → SameLookups coll (n :: r) (n' :: r')
  | step {coll n n' r r' c} : coll.get? n = some c → coll.get? n' = some c →
      SameLookups (namedColl c.subs) r r' → SameLookups coll (n :: r) (n' :: r')

/-- **Replacing a name on the path by any alias that denotes the same command never changes the
selection** (and neither does any other respelling with the same lookups). -/
theorem alias_invariant {coll : Coll} {ls ls' : List Str} (h : SameLookups coll ls ls')
    (cur : Option (Cmd × List Str)) : walk coll cur ls = walk coll cur ls' := by
  induction h generalizing cur with
  | nil => rfl
  | stop h1 h2 => simp [walk, h1, h2]
  | step h1 h2 _ ih => simp only [walk, h1, h2]; exact ih _

/-- a collection maps a registered alias to the command registered under that name, unless a
command of that very name exists (names win over aliases) -/
theorem get?_alias (c : Coll) (a n : Str) (cmd : Cmd) (hn : dictGet? a c.cmds = none)
    (ha : dictGet? a c.aliasIdx = some n) (hc : dictGet? n c.cmds = some cmd) :
    c.get? a = some cmd ∧ (dictGet? n c.aliasIdx = none → c.get? n = some cmd) := by
  constructor
  · simp [Coll.get?, hn, ha, hc]
  · intro _; simp [Coll.get?, hc]

/-! ## `resolve` as a whole -/

/-- A first leading token that names no command is reported as an undefined command - whatever
the formats are, so without any parse. -/
theorem resolve_unknown_first (cv : Conv) (app : List Cmd) (toks : List Str) (n : Str) (r : List Str)
    (hl : lead toks = n :: r) (hn : (namedColl app).get? n = none) :
    resolve cv app toks = .error .cannotResolve := by
  have hw : walk (namedColl app) none (lead toks) = none :=
    (walk_none_iff _ _).mpr (Or.inr ⟨n, r, hl, hn⟩)
  rw [hl] at hw
  simp [resolve, hl, hw]

/-- `pickDefault` never returns a command that is not among the candidates, and prefers the
first one whose arguments parse. -/
theorem pickDefault_first_parsable (cv : Conv) (toks : List Str) (path : List Str) :
    ∀ (ds : List Cmd) (first : Option (List Str × Option Args)) (d : Cmd) (a : Args) (pre post : List Cmd),
    ds = pre ++ d :: post → (∀ x ∈ pre, tryParse cv x toks = .ok none) → tryParse cv d toks = .ok (some a) →
    pickDefault cv toks path ds first = .ok (some (path ++ [d.name], some a)) := by
  intro ds first d a pre
  induction pre generalizing ds first with
  | nil => intro post hds _ hd; subst hds; simp [pickDefault, hd]
  | cons x pre ih =>
    intro post hds hpre hd
    subst hds
    simp only [List.cons_append, pickDefault, hpre x List.mem_cons_self]
    exact ih _ _ post rfl (fun y hy => hpre y (List.mem_cons_of_mem _ hy)) hd

/-- when no default command parses, the first one is chosen (and its parse error reported) -/
theorem pickDefault_none_parsable (cv : Conv) (toks : List Str) (path : List Str) :
    ∀ (ds : List Cmd) (first : Option (List Str × Option Args)), (∀ x ∈ ds, tryParse cv x toks = .ok none) →
    pickDefault cv toks path ds first = .ok (match first with
      | some f => some f
      | none => ds.head?.map fun d => (path ++ [d.name], none)) := by
  intro ds
  induction ds with
  | nil => intro first _; cases first <;> rfl
  | cons d r ih =>
    intro first h
    simp only [pickDefault, h d List.mem_cons_self]
    rw [ih _ (fun y hy => h y (List.mem_cons_of_mem _ hy))]
    cases first <;> rfl

/-- With no leading token the application's default commands decide. -/
theorem resolve_no_lead (cv : Conv) (app : List Cmd) (toks : List Str) (hl : lead toks = []) :
    resolve cv app toks =
      match pickDefault cv toks [] (defaultColl app).values none with
      | .error e => .error e
      | .ok (some r) => created r
      | .ok none => .error .cannotResolve := by
  unfold resolve
  simp only [hl, walk, List.isEmpty_nil, Bool.not_true, Bool.false_eq_true, if_false]
  rfl

/-- With a leading path, the command reached by the walk decides: its default sub-commands
(one level) if it has any, else the command itself. -/
theorem resolve_deepest (cv : Conv) (app : List Cmd) (toks : List Str) (c : Cmd) (path : List Str)
    (hw : walk (namedColl app) none (lead toks) = some (c, path)) :
    resolve cv app toks =
      match pickDefault cv toks path (defaultColl c.subs).values none with
      | .error e => .error e
      | .ok (some r) => created r
      | .ok none =>
        match tryParse cv c toks with
        | .error e => .error e
        | .ok a => created (path, a) := by
  unfold resolve
  simp only [hw]
  rfl

/-! Non-vacuity: `server add` / alias `srv a`, a wrong second name, tokens after `--`. -/
def leaf (n : String) (al : List String) : Cmd :=
  Cmd.mk n.toList (al.map String.toList) false false { cmds := [], args := [], opts := [] } false []
def server : Cmd :=
  Cmd.mk "server".toList ["srv".toList] false false { cmds := [], args := [], opts := [] } false
    [leaf "add" ["a"], leaf "remove" []]

example : (walk (namedColl [server]) none ["server".toList, "add".toList]).map (·.2)
    = some ["server".toList, "add".toList] := by decide
example : (walk (namedColl [server]) none ["srv".toList, "a".toList]).map (·.2)
    = some ["server".toList, "add".toList] := by decide
example : (walk (namedColl [server]) none ["server".toList, "nope".toList, "add".toList]).map (·.2)
    = some ["server".toList] := by decide
example : lead ["server".toList, "--".toList, "add".toList] = ["server".toList] := by decide

/-! ## The hypothesis of `alias_invariant` is decided by the model on every real tree

`SameLookups coll ls ls'` is a fact about the command tree of the REAL application (which alias
denotes which command depends on names shadowing aliases and on the registration order of colliding
aliases).  `sameLookupsB` (Model/Resolver.lean) is an executable sufficient check; the driver evaluates
it on the tree read from the real application, for the leading tokens of every generated line against
their respellings (entry `c03.same`), and the harness compares the answer with what the real
`CommandCollection`s say. -/

/-- **The check is sound**: when it answers `true` the two name lists look up the same commands. -/
theorem sameLookupsB_sound : ∀ (ls ls' : List Str) (coll : Coll),
    sameLookupsB coll ls ls' = true → SameLookups coll ls ls' := by
  intro ls
  induction ls with
  | nil =>
    intro ls' coll h
    cases ls' with
    | nil => exact .nil
    | cons n' r' => simp [sameLookupsB] at h
  | cons n r ih =>
    intro ls' coll h
    cases ls' with
    | nil => simp [sameLookupsB] at h
    | cons n' r' =>
      simp only [sameLookupsB] at h
      cases hk : coll.key? n with
      | none =>
        cases hk' : coll.key? n' with
        | none => exact .stop (key?_none _ _ hk) (key?_none _ _ hk')
        | some k' => simp [hk, hk'] at h
      | some k =>
        cases hk' : coll.key? n' with
        | none => simp [hk, hk'] at h
        | some k' =>
          simp only [hk, hk', Bool.and_eq_true, beq_iff_eq] at h
          obtain ⟨hkk, hrest⟩ := h
          subst hkk
          obtain ⟨c, hc⟩ := key?_some _ _ _ hk
          simp only [hc] at hrest
          exact .step (key?_get _ _ _ _ hk hc) (key?_get _ _ _ _ hk' hc) (ih _ _ hrest)

/-- `alias_invariant` with the decided hypothesis -/
theorem alias_invariant_decided {coll : Coll} {ls ls' : List Str} (h : sameLookupsB coll ls ls' = true)
    (cur : Option (Cmd × List Str)) : walk coll cur ls = walk coll cur ls' :=
  alias_invariant (sameLookupsB_sound _ _ _ h) cur

/-! ## Non-vacuity of every theorem above that has hypotheses

The tree: `server` (alias `srv`) with the sub-commands `add` (alias `a`) and `remove`, and the
top-level default command `list`. -/
def noFmt : Fmt := { cmds := [], args := [], opts := [] }
def listC : Cmd := Cmd.mk "list".toList [] true false noFmt false []
def app1 : List Cmd := [server, listC]
def cvN : Conv := { intOf := fun _ => none, floatOf := fun _ => none }

/-- `options_after_path`, `lead_of_path`: all hypotheses hold for `server add --x y` -/
example : lead ["server".toList, "add".toList, "--x".toList, "y".toList] = ["server".toList, "add".toList] :=
  options_after_path ["server".toList, "add".toList] ["y".toList] "--x".toList (by decide) rfl
example : lead ["server".toList, "add".toList] = ["server".toList, "add".toList] :=
  lead_of_path _ (by decide)

/-- `walk_none_iff` (right to left) and `resolve_unknown_first`: `nope add` -/
example : walk (namedColl app1) none ["nope".toList, "add".toList] = none :=
  (walk_none_iff _ _).mpr (Or.inr ⟨_, _, rfl, by decide⟩)
example : resolve cvN app1 ["nope".toList, "add".toList, "--x".toList] = .error .cannotResolve :=
  resolve_unknown_first cvN app1 _ "nope".toList ["add".toList] (by decide) (by decide)

/-- `alias_invariant_decided` / `sameLookupsB_sound` / `alias_invariant`: `srv a` vs `server add` -/
theorem srv_a_same : sameLookupsB (namedColl app1) ["srv".toList, "a".toList] ["server".toList, "add".toList] = true := by
  decide
example : SameLookups (namedColl app1) ["srv".toList, "a".toList] ["server".toList, "add".toList] :=
  sameLookupsB_sound _ _ _ srv_a_same
example : walk (namedColl app1) none ["srv".toList, "a".toList] = walk (namedColl app1) none ["server".toList, "add".toList] :=
  alias_invariant_decided srv_a_same none
/-- the check is not constantly true: `srv` and `list` are different commands -/
example : sameLookupsB (namedColl app1) ["srv".toList] ["list".toList] = false := by decide

/-- `get?_alias` on the real shape of a collection: alias `srv`, name `server` -/
example : (namedColl app1).get? "srv".toList = some server :=
  (get?_alias (namedColl app1) "srv".toList "server".toList server (by decide) (by decide) rfl).1

/-- `walk_deepest`: the walk on `srv nope add` stops at `server`; the theorem's hypothesis holds and
its conclusion gives a maximal path -/
theorem walk_srv : walk (namedColl app1) none ["srv".toList, "nope".toList, "add".toList]
    = some (server, ["server".toList]) := rfl
example : ∃ k, 1 ≤ k ∧ k ≤ 3 ∧ IsPath (namedColl app1) (["srv".toList, "nope".toList, "add".toList].take k) server ∧
    (k = 3 ∨ ∃ n, ["srv".toList, "nope".toList, "add".toList][k]? = some n ∧ (namedColl server.subs).get? n = none) :=
  walk_deepest _ _ _ _ walk_srv

/-- `resolve_deepest` on the same line, `resolve_no_lead` on the empty line -/
example : resolve cvN app1 ["srv".toList, "nope".toList, "add".toList] =
    match pickDefault cvN ["srv".toList, "nope".toList, "add".toList] ["server".toList] (defaultColl server.subs).values none with
    | .error e => .error e
    | .ok (some r) => created r
    | .ok none =>
      match tryParse cvN server ["srv".toList, "nope".toList, "add".toList] with
      | .error e => .error e
      | .ok a => created (["server".toList], a) :=
  resolve_deepest cvN app1 _ server ["server".toList] walk_srv
example : resolve cvN app1 [] = .ok (["list".toList], { args := [], opts := [] }) := by
  rw [resolve_no_lead cvN app1 [] rfl]; rfl

/-- `pickDefault_first_parsable`: of the two default commands `strict` (one required argument) and
`listC`, the empty line selects the second (the first does not parse); `pickDefault_none_parsable`: the
line `x y` parses for neither of them (surplus positionals), so the first candidate is reported -/
def strictC : Cmd := Cmd.mk "strict".toList [] true false
  { cmds := [], opts := [], args := [{ name := "a".toList, required := true, multi := false, ty := .string,
                                        nullable := false, default := .scalar .none }] } false []
example : pickDefault cvN [] [] [strictC, listC] none = .ok (some (["list".toList], some { args := [], opts := [] })) :=
  pickDefault_first_parsable cvN [] [] [strictC, listC] none listC { args := [], opts := [] } [strictC] [] rfl
    (by intro x hx; simp at hx; subst hx; rfl) rfl
example : pickDefault cvN ["x".toList, "y".toList] [] [strictC, listC] none = .ok (some (["strict".toList], none)) :=
  pickDefault_none_parsable cvN ["x".toList, "y".toList] [] [strictC, listC] none
    (by intro x hx; simp at hx; rcases hx with hx | hx <;> subst hx <;> rfl)

/-! ## The aliases a command is configured with (`Model/AliasCfg.lean`)

The tree the resolver walks is the tree *as configured per command*.  The configuration calls
(`add_alias`, `add_aliases`, `set_aliases`) receive lists the caller owns and may share between
commands or change later; with the value semantics of the model none of that reaches a command
that was configured before. -/
section AliasCfg

/-- **A configuration call made on another command, or a change the caller makes to a list it
owns, never changes the aliases a command is configured with.** -/
theorem aliases_frame (s : AliasCfg.St) (op : AliasCfg.Op) (c : Nat) (h : op.target ≠ some c) :
    (AliasCfg.step s op).cmds c = s.cmds c := by
  cases op <;> simp [AliasCfg.Op.target] at h <;> simp [AliasCfg.step, AliasCfg.upd] <;> intro e <;> exact absurd e.symm h

theorem aliases_frame_run (ops : List AliasCfg.Op) (s : AliasCfg.St) (c : Nat) (h : ∀ op ∈ ops, op.target ≠ some c) :
    (AliasCfg.run s ops).cmds c = s.cmds c := by
  induction ops generalizing s with
  | nil => rfl
  | cons op r ih =>
    simp only [AliasCfg.run, List.foldl_cons]
    have := ih (AliasCfg.step s op) (fun o ho => h o (by simp [ho]))
    simp only [AliasCfg.run] at this
    rw [this, aliases_frame s op c (h op (by simp))]

/-- `set_aliases(list)` configures what the list holds when the call is made: whatever is done
afterwards to other commands (the same list handed to them, additions to them) or to the list
itself, the command keeps exactly that. -/
theorem set_list_keeps (s : AliasCfg.St) (c k : Nat) (later : List AliasCfg.Op) (h : ∀ op ∈ later, op.target ≠ some c) :
    (AliasCfg.run (AliasCfg.step s (.setList c k)) later).cmds c = s.lists k := by
  rw [aliases_frame_run later _ c h]; simp [AliasCfg.step, AliasCfg.upd]

/-- the same for `b.set_aliases(a.aliases)`, whatever is done to `a` afterwards -/
theorem set_from_keeps (s : AliasCfg.St) (c d : Nat) (later : List AliasCfg.Op) (h : ∀ op ∈ later, op.target ≠ some c) :
    (AliasCfg.run (AliasCfg.step s (.setFrom c d)) later).cmds c = s.cmds d := by
  rw [aliases_frame_run later _ c h]; simp [AliasCfg.step, AliasCfg.upd]

/-- Two commands given the same list object, then one more alias for one of them: the other one
does not get it. -/
theorem shared_list_siblings (s : AliasCfg.St) (a b k : Nat) (hab : a ≠ b) (x : Str) :
    (AliasCfg.run s [.setList a k, .setList b k, .add b x]).cmds a = s.lists k ∧
    (AliasCfg.run s [.setList a k, .setList b k, .add b x]).cmds b = s.lists k ++ [x] := by
  simp [AliasCfg.run, AliasCfg.step, AliasCfg.upd, hab]

end AliasCfg

/-! ## Non-vacuity of the theorems added in rounds 8-9 (hypothesis audit) -/

section AuditR9
open Clikit

/-! non-vacuity of the alias-configuration theorems: the caller makes the list `["ls", "dir"]`, hands it to the commands
0 and 1, adds an alias to command 1 and appends to its own list afterwards -/
private def sL : AliasCfg.St := AliasCfg.step AliasCfg.St.init (.newList 0 ["ls".toList, "dir".toList])
private def laterL : List AliasCfg.Op := [.setList 1 0, .add 1 "ll".toList, .appendList 0 "zz".toList]

example : (AliasCfg.step sL (.add 1 "ll".toList)).cmds 0 = sL.cmds 0 := aliases_frame sL _ 0 (by decide)
example : (AliasCfg.run sL laterL).cmds 0 = sL.cmds 0 := aliases_frame_run laterL sL 0 (by decide)
/-- command 0 keeps exactly what the list held when `set_aliases` was called ... -/
example : (AliasCfg.run (AliasCfg.step sL (.setList 0 0)) laterL).cmds 0 = ["ls".toList, "dir".toList] :=
  set_list_keeps sL 0 0 laterL (by decide)
/-- ... while command 1 (given the same list object, then one more alias) has three, and the caller's list four -/
example : (AliasCfg.run (AliasCfg.step sL (.setList 0 0)) laterL).cmds 1 = ["ls".toList, "dir".toList, "ll".toList] ∧
    (AliasCfg.run (AliasCfg.step sL (.setList 0 0)) laterL).lists 0 = ["ls".toList, "dir".toList, "zz".toList] := by
  decide
/-- `b.set_aliases(a.aliases)`, then `a.add_alias(..)`: `b` keeps what `a` had -/
example : (AliasCfg.run (AliasCfg.step (AliasCfg.step sL (.setList 0 0)) (.setFrom 2 0)) [.add 0 "x".toList]).cmds 2 =
    ["ls".toList, "dir".toList] :=
  set_from_keeps (AliasCfg.step sL (.setList 0 0)) 2 0 [.add 0 "x".toList] (by decide)
example : (AliasCfg.run sL [.setList 0 0, .setList 1 0, .add 1 "ll".toList]).cmds 0 = ["ls".toList, "dir".toList] :=
  (shared_list_siblings sL 0 1 0 (by decide) "ll".toList).1

end AuditR9

/-! ## Several resolves on one application (one cached resolver object)

`resolveHistory` (Model/Resolver.lean) is the sequence of answers of the calls made one after the other on one
resolver object.  Nothing a call reached is seen by a later call: every line is resolved as it would be alone. -/
section History

/-- **Every call of a history answers what the same line answers alone**, whatever the calls before it reached
(no hypothesis; any tree, any lines, any number of calls). -/
theorem history_each_alone (cv : Conv) (app : List Cmd) (lines : List (List Str)) :
    ∀ prev : Option (Cmd × List Str), resolveHistory cv app prev lines = lines.map (resolve cv app) := by
  induction lines with
  | nil => intro _; rfl
  | cons l r ih => intro _; simp only [resolveHistory, List.map_cons, ih]

/-- the `i`-th call of a history: the resolution of the `i`-th line on a fresh application -/
theorem history_nth_alone (cv : Conv) (app : List Cmd) (lines : List (List Str)) (i : Nat) :
    (resolveHistory cv app none lines)[i]? = (lines[i]?).map (resolve cv app) := by
  rw [history_each_alone]; exact List.getElem?_map

/-- a line with no leading tokens after ANY history selects among the application's default commands (never the
command an earlier call reached) -/
theorem history_no_lead (cv : Conv) (app : List Cmd) (before : List (List Str)) (toks : List Str)
    (hl : lead toks = []) :
    (resolveHistory cv app none (before ++ [toks]))[before.length]? = some
      (match pickDefault cv toks [] (defaultColl app).values none with
      | .error e => .error e
      | .ok (some r) => created r
      | .ok none => .error .cannotResolve) := by
  rw [history_nth_alone, ← resolve_no_lead cv app toks hl]; simp

/-- a first token naming no command is undefined after ANY history -/
theorem history_unknown_first (cv : Conv) (app : List Cmd) (before : List (List Str)) (toks : List Str) (n : Str)
    (r : List Str) (hl : lead toks = n :: r) (hn : (namedColl app).get? n = none) :
    (resolveHistory cv app none (before ++ [toks]))[before.length]? = some (.error .cannotResolve) := by
  rw [history_nth_alone, ← resolve_unknown_first cv app toks n r hl hn]; simp

/-- after `server add`, the empty line still selects the default command `list`, and `nope` is still undefined -/
example : (resolveHistory cvN app1 none [["server".toList, "add".toList], []])[1]? =
    some (.ok (["list".toList], { args := [], opts := [] })) := by
  exact (history_no_lead cvN app1 [["server".toList, "add".toList]] [] rfl).trans rfl
example : (resolveHistory cvN app1 none [["server".toList, "add".toList], ["nope".toList]])[1]? =
    some (.error .cannotResolve) :=
  history_unknown_first cvN app1 [["server".toList, "add".toList]] ["nope".toList] "nope".toList [] rfl (by decide)

end History

end Clikit.Props.C03
