import Clikit.Lemmas.Trace
import Clikit.Lemmas.TraceVerbatim
/-!
# C20 - error traces always render and show the real message and failing line

Theorems about `Clikit.Model.Trace` (the model of `ui/components/exception_trace.py`; style
strings and window sizes regenerated from the source).  The tokenizer, crashtest's frame
folding and the formatter (pastel) are external: token streams are inputs, `compactF` and
`fmt` are parameters, their contracts are explicit hypotheses.
-/
namespace Clikit.Props.C20
open Clikit Clikit.Trace Clikit.Gen

/-- The snippet is the window `[max(line − before − 1, 0), … + after + before + 1)` of the
numbered source: its lines are numbered consecutively from `offset + 1`, carry the
highlighted source line of that number, exactly the line whose number is the failing line
carries the marker (at most one line does), and the failing line is in the window whenever
the source has it. -/
theorem numbers_consecutive_marked (hl : List Str) (line before after : Nat) :
    let sn := codeSnippet hl line before after
    let off := line - before - 1
    snippetOffset line before = off ∧
    sn.length = min (after + before + 1) (hl.length - off) ∧
    (∀ (i : Nat) (l : SnipLine), sn[i]? = some l →
      l.number = off + 1 + i ∧ (l.marked = true ↔ l.number = line) ∧ hl[off + i]? = some l.body) ∧
    (∀ (i j : Nat) (li lj : SnipLine), sn[i]? = some li → sn[j]? = some lj → li.marked = true → lj.marked = true → i = j) ∧
    (1 ≤ line → line ≤ hl.length → ∃ (i : Nat) (l : SnipLine), sn[i]? = some l ∧ l.number = line ∧ l.marked = true) := by
  intro sn off
  have key : ∀ (i : Nat) (l : SnipLine), sn[i]? = some l →
      l.number = off + 1 + i ∧ (l.marked = true ↔ l.number = line) ∧ hl[off + i]? = some l.body := by
    intro i l h
    simp only [sn, codeSnippet_getElem?] at h
    split at h
    · obtain ⟨b, hb, rfl⟩ := Option.map_eq_some_iff.mp h
      refine ⟨rfl, ?_, hb⟩
      simp only [beq_iff_eq]
      exact ⟨fun h => h.symm, fun h => h.symm⟩
    · cases h
  refine ⟨snippetOffset_eq line before, codeSnippet_length hl line before after, key, ?_, ?_⟩
  · intro i j li lj hi hj mi mj
    have h1 := key i li hi
    have h2 := key j lj hj
    have a := h1.2.1.mp mi
    have b := h2.2.1.mp mj
    omega
  · intro h1 h2
    have hlt : line - 1 < hl.length := by omega
    refine ⟨line - 1 - off, ({ number := line, marked := true, body := hl[line - 1] } : SnipLine), ?_, rfl, rfl⟩
    simp only [sn, codeSnippet_getElem?]
    have hi : line - 1 - off < after + before + 1 := by omega
    have hidx : line - before - 1 + (line - 1 - off) = line - 1 := by omega
    have hnum : line - before - 1 + 1 + (line - 1 - off) = line := by omega
    simp [hi, hidx, hnum, hlt]

/-- In the string `line_numbers` builds, the marker is visible: a marked line starts with
the marker's style tag, an unmarked one with two blanks. -/
theorem marker_visible (u : Ui) (w : Nat) (l : SnipLine) :
    ((renderSnip u w l).head? = some '<' ↔ l.marked = true) ∧
    ((renderSnip u w l).take 2 = [' ', ' '] ↔ l.marked = false) := by
  cases h : l.marked <;> simp [renderSnip, wrap, h]

/-- The frame filter: a frame is handed on to the frame list iff it is a frame of the
exception and not (an ignore pattern is set, the frame's file matches it, verbosity is not
debug).  In particular a frame under the ignore pattern is listed iff verbosity is debug;
the order is kept and nothing is invented. -/
theorem frames_filtered (ignoreSet : Bool) (verbosity : Nat) (fs : List Frame) (f : Frame) :
    (f ∈ filterFrames ignoreSet (verbosity == IOFlags.DEBUG) fs ↔
      f ∈ fs ∧ (ignoreSet = true → f.ignored = true → verbosity = IOFlags.DEBUG)) ∧
    (f ∈ fs → f.ignored = true →
      (f ∈ filterFrames true (verbosity == IOFlags.DEBUG) fs ↔ verbosity = IOFlags.DEBUG)) ∧
    (f ∈ fs → f.ignored = false → f ∈ filterFrames ignoreSet (verbosity == IOFlags.DEBUG) fs) ∧
    (filterFrames ignoreSet (verbosity == IOFlags.DEBUG) fs).Sublist fs ∧
    filterFrames false (verbosity == IOFlags.DEBUG) fs = fs := by
  refine ⟨?_, ?_, ?_, List.filter_sublist, ?_⟩
  · cases ignoreSet <;> cases hi : f.ignored <;> simp [filterFrames, keepFrame, hi]
  · intro hf hi
    simp [filterFrames, keepFrame, hi, hf]
  · intro hf hi
    cases ignoreSet <;> simp [filterFrames, keepFrame, hi, hf]
  · simp [filterFrames, keepFrame]

/-- What the frame list is computed from is exactly the filtered frames (the folding of
recursive calls is crashtest's). -/
theorem trace_lists_filtered (env : Env) (compactF : List Frame → List Coll) (utf8 : Bool) (verbosity : Nat)
    (ignoreSet : Bool) (frames : List Frame) :
    renderTrace env (fun _ => []) utf8 verbosity ignoreSet frames =
      .ok (if verbosity ≥ IOFlags.VERBOSE ∧
              (((filterFrames ignoreSet (verbosity == IOFlags.DEBUG) frames).length : Int) - 1 ≠ 0)
           then renderLine 2 (wrap (lit "fg=yellow") (lit "Stack trace") ++ [':']) true else []) ∧
    (verbosity < IOFlags.VERBOSE → renderTrace env compactF utf8 verbosity ignoreSet frames = .ok []) := by
  constructor
  · unfold renderTrace
    simp only
    split <;> simp [renderColls, bind, Except.bind, pure, Except.pure]
  · intro h
    unfold renderTrace
    simp only
    have : ¬ (verbosity ≥ IOFlags.VERBOSE) := by omega
    simp [this]

/-- Full mode: when an exception with frames is rendered, the strings handed to the
formatter contain the line with the class name in the error style and the line(s) with the
message in bold, the message having every `<` escaped (so the formatter prints it and
never reads it as markup).  Simple mode: exactly one string, the escaped message in the
error style. -/
theorem render_contains (env : Env) (compactF : List Frame → List Coll) (utf8 : Bool) (verbosity : Nat)
    (ignoreSet : Bool) (name msg : Str) (frames : List Frame) :
    (∀ out, frames ≠ [] →
      renderMarkup env compactF false utf8 verbosity ignoreSet name msg frames = .ok out →
      indentStr 2 (lit "<error>" ++ name ++ lit "</error>") ∈ out ∧
      indentStr 2 (lit "<b>" ++ replaceNL (escape msg) ++ lit "</b>") ∈ out) ∧
    (∀ b, ltGuarded b (escape msg) = true) ∧
    renderMarkup env compactF true utf8 verbosity ignoreSet name msg frames =
      .ok [lit "<error>" ++ escape msg ++ lit "</error>"] := by
  refine ⟨?_, fun b => ltGuarded_escape b msg, by simp [renderMarkup, simpleLine]⟩
  intro out hne h
  simp only [renderMarkup, Bool.false_eq_true, if_false, renderException] at h
  cases hl : frames.getLast? with
  | none => simp [List.getLast?_eq_none_iff] at hl; exact absurd hl hne
  | some cur =>
    rw [hl] at h
    simp only [bind, Except.bind] at h
    cases htr : renderTrace env compactF utf8 verbosity ignoreSet frames with
    | error e => rw [htr] at h; cases h
    | ok tr =>
      rw [htr] at h
      simp only at h
      cases hsn : renderSnippet env utf8 cur with
      | error e => rw [hsn] at h; cases h
      | ok sn =>
        rw [hsn] at h
        simp only [pure, Except.pure] at h
        cases h
        simp [nameLine, messageLine]

/-- The model's render fails exactly when something external fails.  If the tokenizer
delivered a stream for every frame's file and a complete stream or `TokenError` for every
frame's line, and `compactF` only returns frames it was given, then the markup is produced
and `render` fails with `e` iff the formatter fails with `e` on the first line it rejects.
Conversely a failure of `render` is a tokenizer failure or a formatter failure.  In simple
mode only the formatter is involved. -/
theorem render_fails_iff (fmt : Str → Except Err Str) (env : Env) (compactF : List Frame → List Coll)
    (simple utf8 : Bool) (verbosity : Nat) (ignoreSet : Bool) (name msg : Str) (frames : List Frame) (e : Err) :
    (CompactSound compactF → (∀ f ∈ frames, FileOk f ∧ LineOk f) →
      ∃ ls, renderMarkup env compactF simple utf8 verbosity ignoreSet name msg frames = .ok ls ∧
        (render fmt env compactF simple utf8 verbosity ignoreSet name msg frames = .error e ↔
          ∃ pre l post, ls = pre ++ l :: post ∧ (∀ x ∈ pre, ∃ y, fmt x = .ok y) ∧ fmt l = .error e)) ∧
    (render fmt env compactF simple utf8 verbosity ignoreSet name msg frames = .error e →
      renderMarkup env compactF simple utf8 verbosity ignoreSet name msg frames = .error e ∨
      ∃ ls l, renderMarkup env compactF simple utf8 verbosity ignoreSet name msg frames = .ok ls ∧
        l ∈ ls ∧ fmt l = .error e) ∧
    (CompactSound compactF →
      renderMarkup env compactF simple utf8 verbosity ignoreSet name msg frames = .error e →
      ∃ f ∈ frames, ¬ (FileOk f ∧ LineOk f)) ∧
    (render fmt env compactF true utf8 verbosity ignoreSet name msg frames = .error e ↔
      fmt (lit "<error>" ++ escape msg ++ lit "</error>") = .error e) := by
  have hok : CompactSound compactF → (∀ f ∈ frames, FileOk f ∧ LineOk f) →
      ∃ ls, renderMarkup env compactF simple utf8 verbosity ignoreSet name msg frames = .ok ls := by
    intro hc hf
    unfold renderMarkup
    cases simple
    · simp only [Bool.false_eq_true, if_false, renderException]
      cases hl : frames.getLast? with
      | none => exact ⟨_, rfl⟩
      | some cur =>
        have hcur : cur ∈ frames := List.mem_of_getLast? hl
        obtain ⟨tr, htr⟩ := renderTrace_ok env compactF utf8 verbosity ignoreSet frames hc hf
        obtain ⟨sn, hsn⟩ := renderSnippet_ok env utf8 cur (hf cur hcur).1
        simp [htr, hsn, bind, Except.bind, pure, Except.pure]
    · exact ⟨_, rfl⟩
  refine ⟨?_, ?_, ?_, ?_⟩
  · intro hc hf
    obtain ⟨ls, hls⟩ := hok hc hf
    refine ⟨ls, hls, ?_⟩
    simp only [render, hls, bind, Except.bind]
    exact mapM_error_iff ls e
  · intro h
    simp only [render, bind, Except.bind] at h
    cases hm : renderMarkup env compactF simple utf8 verbosity ignoreSet name msg frames with
    | error e' =>
      rw [hm] at h
      left
      simpa using h
    | ok ls =>
      rw [hm] at h
      right
      obtain ⟨pre, l, post, heq, _, hl⟩ := (mapM_error_iff ls e).mp h
      exact ⟨ls, l, rfl, by simp [heq], hl⟩
  · intro hc hm
    apply Classical.byContradiction
    intro hno
    have hall : ∀ f ∈ frames, FileOk f ∧ LineOk f := by
      intro f hf
      apply Classical.byContradiction
      intro hn
      exact hno ⟨f, hf, hn⟩
    obtain ⟨ls, hls⟩ := hok hc hall
    rw [hls] at hm
    cases hm
  · simp only [render, renderMarkup, if_true, simpleLine, bind, Except.bind, List.mapM_cons, List.mapM_nil]
    cases hf : fmt (lit "<error>" ++ escape msg ++ lit "</error>") with
    | error e' => simp
    | ok y => simp [pure, Except.pure]

/-- **The hypotheses of `render_fails_iff` are checked on the real cases.**  The driver evaluates
`framesOkB` on the frames of every rendered exception - with the REAL tokenizer's outcome on every
file and line the renderer looks at - (entry `c20.wf`, key `frames_ok`, compared with `true`); it
decides exactly the hypothesis about the frames. -/
theorem frames_ok_decides (frames : List Frame) :
    framesOkB frames = true ↔ ∀ f ∈ frames, FileOk f ∧ LineOk f := framesOkB_iff frames

/-- The hypothesis `CompactSound` holds for the executable port `compact` of crashtest's
`FrameCollection.compact` - the function the driver runs; its collections are compared with the real
engine's on every case (entry `c20.wf`, key `compact`). -/
theorem port_compact_sound : CompactSound compact := compact_sound

/-- `render_fails_iff` for the port of `compact`, with the decider in place of the hypotheses: when
`framesOkB frames` holds the markup is produced, and `render` fails with `e` iff the formatter fails
with `e` on the first line it rejects. -/
theorem render_fails_iff_decided (fmt : Str → Except Err Str) (env : Env) (simple utf8 : Bool) (verbosity : Nat)
    (ignoreSet : Bool) (name msg : Str) (frames : List Frame) (e : Err) (hw : framesOkB frames = true) :
    ∃ ls, renderMarkup env compact simple utf8 verbosity ignoreSet name msg frames = .ok ls ∧
      (render fmt env compact simple utf8 verbosity ignoreSet name msg frames = .error e ↔
        ∃ pre l post, ls = pre ++ l :: post ∧ (∀ x ∈ pre, ∃ y, fmt x = .ok y) ∧ fmt l = .error e) :=
  (render_fails_iff fmt env compact simple utf8 verbosity ignoreSet name msg frames e).1 compact_sound
    ((framesOkB_iff frames).mp hw)

/-- For every token stream that satisfies the tokenizer contract `WF` (single-line tokens, in
order, consecutive rows, `string = line[start:end]`, `line` = the physical line `phys row`,
no newline before a token starts), the highlighted lines with the `<theme>…</>` tags
stripped and `\<` un-escaped (`plainHL`) are, row by row, the physical source lines up to the
end of the last token of the row, newline stripped (`expect`): output line `i` is a prefix
of source line `i + 1` (what the tokenizer does not report as a token - trailing blanks
before a NEWLINE, an explicit line-joining backslash - is not shown).  The rendered string
of a line is the concatenation of its pieces `<style>escape(text)</>`, and un-escaping
gives the text back. -/
theorem lines_verbatim (env : Env) (phys : Nat → Str) (toks : List Tok) (h : WF env phys 1 0 toks) :
    (splitToLines env toks).map plainHL = expect env phys 1 0 toks ∧
    (∀ (i : Nat) (s : Str), ((splitToLines env toks).map plainHL)[i]? = some s →
        ∃ k, s = rstripNL ((phys (i + 1)).take k) ∨ s = (phys (i + 1)).take k) ∧
    (∀ hl ∈ splitToLines env toks, ∀ sg ∈ hl,
        match sg.1 with
        | some th => renderSeg sg = wrap th.style (escape sg.2) ∧ unescape (escape sg.2) = sg.2
        | none => renderSeg sg = sg.2) := by
  have key : (splitToLines env toks).map plainHL = expect env phys 1 0 toks := by
    have := splitGo_expect env phys toks St.init 1 0 (inv_init phys) h
    simpa [splitToLines, St.init] using this
  refine ⟨key, ?_, ?_⟩
  · intro i s hs
    rw [key] at hs
    have := expect_rows env phys toks 1 0 h i s hs
    rwa [Nat.add_comm 1 i] at this
  · intro hl _ sg _
    obtain ⟨ty, t⟩ := sg
    cases ty with
    | none => rfl
    | some th => exact ⟨rfl, unescape_escape t⟩

/-- **The tokenizer contract is checked on the real token streams.**  The driver evaluates `wfB` on
the REAL tokenizer's output for every source the renderer looks at, with `phys` = the `line`
attribute the tokenizer reports for the row (`physOf`); a stream without multi-line tokens must
satisfy it (entries `c20.split`, key `contract`: `wf` expected unless a token spans several rows). -/
theorem contract_decides (env : Env) (phys : Nat → Str) (toks : List Tok) :
    wfB env phys 1 0 toks = true ↔ WF env phys 1 0 toks := wfB_iff env phys toks 1 0

/-- `lines_verbatim` with the decider in place of the contract, for the physical lines the tokenizer
itself reports. -/
theorem lines_verbatim_decided (env : Env) (toks : List Tok) (h : wfB env (physOf toks) 1 0 toks = true) :
    (splitToLines env toks).map plainHL = expect env (physOf toks) 1 0 toks ∧
    (∀ (i : Nat) (s : Str), ((splitToLines env toks).map plainHL)[i]? = some s →
        ∃ k, s = rstripNL ((physOf toks (i + 1)).take k) ∨ s = (physOf toks (i + 1)).take k) :=
  ⟨(lines_verbatim env _ toks ((wfB_iff env _ toks 1 0).mp h)).1,
   (lines_verbatim env _ toks ((wfB_iff env _ toks 1 0).mp h)).2.1⟩

/-- pastel's last step (`.replace("\\<", "<")`) gives the message back from its escaped
form - for every message, also one that contains `\<` itself. -/
theorem escape_roundtrip (m : Str) : unescape (escape m) = m := unescape_escape m

/-- Non-vacuity: the window of a 12-line file around line 7 with 2 lines before/after is
lines 5..9 with line 7 marked; around line 1 it starts at line 1. -/
example :
    ((codeSnippet (List.replicate 12 []) 7 2 2).map (fun l => (l.number, l.marked))
      = [(5, false), (6, false), (7, true), (8, false), (9, false)]) ∧
    ((codeSnippet (List.replicate 12 []) 1 4 4).map (·.number) = [1, 2, 3, 4, 5, 6, 7, 8, 9]) ∧
    ((codeSnippet [[]] 3 4 4).map (·.marked) = [false]) := by decide

/-- the token stream CPython's tokenizer reports for `x = "<b>"⏎y⏎` (encoding token included) -/
def demoToks : List Tok :=
  let l1 : Str := ['x', ' ', '=', ' ', '"', '<', 'b', '>', '"', '\n']
  let l2 : Str := ['y', '\n']
  [ { kind := .other, text := ['u', 't', 'f', '-', '8'], srow := 0, scol := 0, erow := 0, ecol := 0, line := [] },
    { kind := .other, text := ['x'], srow := 1, scol := 0, erow := 1, ecol := 1, line := l1 },
    { kind := .op, text := ['='], srow := 1, scol := 2, erow := 1, ecol := 3, line := l1 },
    { kind := .str, text := ['"', '<', 'b', '>', '"'], srow := 1, scol := 4, erow := 1, ecol := 9, line := l1 },
    { kind := .newline, text := ['\n'], srow := 1, scol := 9, erow := 1, ecol := 10, line := l1 },
    { kind := .other, text := ['y'], srow := 2, scol := 0, erow := 2, ecol := 1, line := l2 },
    { kind := .newline, text := ['\n'], srow := 2, scol := 1, erow := 2, ecol := 2, line := l2 },
    { kind := .endmarker, text := [], srow := 3, scol := 0, erow := 3, ecol := 0, line := [] } ]

def demoPhys : Nat → Str
  | 1 => ['x', ' ', '=', ' ', '"', '<', 'b', '>', '"', '\n']
  | 2 => ['y', '\n']
  | _ => []

/-- Non-vacuity of `lines_verbatim`: the demo stream satisfies the contract, and the
highlighter shows `x = "<b>"` and `y` - the tag-like text verbatim. -/
example : WF ⟨[], []⟩ demoPhys 1 0 demoToks ∧
    (splitToLines ⟨[], []⟩ demoToks).map plainHL =
      [['x', ' ', '=', ' ', '"', '<', 'b', '>', '"'], ['y']] := by
  constructor
  · simp [WF, demoToks, demoPhys, classify, slice, lit]
  · decide

/-- Non-vacuity: escaping and un-escaping `a\<b><` . -/
example : escape ['a', '\\', '<', 'b', '>', '<'] = ['a', '\\', '\\', '<', 'b', '>', '\\', '<'] ∧
    unescape ['a', '\\', '\\', '<', 'b', '>', '\\', '<'] = ['a', '\\', '<', 'b', '>', '<'] := by decide

/-- Non-vacuity of `render_fails_iff`: a formatter that rejects everything makes simple mode
fail; a tokenizer failure on the only frame's file makes full mode fail whatever the
formatter does. -/
example : render (fun _ => .error .valueError) ⟨[], []⟩ compact true true 0 false ['E'] ['m'] [] = .error .valueError ∧
    render (fun s => .ok s) ⟨[], []⟩ compact false true 0 false ['E'] ['m']
      [{ file := [], ignored := false, lineno := 1, func := [], fileToks := .error (.other "TokenError"),
         lineText := [], lineToks := .ok [] }] = .error (.other "TokenError") := by
  constructor <;> rfl

/-- Non-vacuity of `lines_verbatim_decided` / `contract_decides`: the decider accepts the demo stream
(with the physical lines read from the stream itself), and `multiB` tells a stream with a
multi-line token apart. -/
example : wfB ⟨[], []⟩ (physOf demoToks) 1 0 demoToks = true ∧ multiB demoToks = false := by decide

example : (splitToLines ⟨[], []⟩ demoToks).map plainHL = expect ⟨[], []⟩ (physOf demoToks) 1 0 demoToks :=
  (lines_verbatim_decided ⟨[], []⟩ demoToks (by decide)).1

/-- a frame of the demo source -/
def demoFrame : Frame :=
  { file := ['f', '.', 'p', 'y'], ignored := false, lineno := 1, func := ['g'], fileToks := .ok demoToks,
    lineText := ['y'], lineToks := .ok demoToks }

/-- Non-vacuity of `render_fails_iff_decided`, `render_fails_iff` (positive part) and `render_contains`:
the decider accepts the demo frame, so the markup of the exception `E: a<b` raised there is produced, it
contains the name line and the escaped message line, and with a formatter that accepts everything
`render` does not fail. -/
example : framesOkB [demoFrame] = true := by decide

example : ∃ out, renderMarkup ⟨[], []⟩ compact false true 2 false ['E'] ['a', '<', 'b'] [demoFrame] = .ok out ∧
    indentStr 2 (lit "<error>" ++ ['E'] ++ lit "</error>") ∈ out ∧
    indentStr 2 (lit "<b>" ++ replaceNL (escape ['a', '<', 'b']) ++ lit "</b>") ∈ out ∧
    render (fun s => .ok s) ⟨[], []⟩ compact false true 2 false ['E'] ['a', '<', 'b'] [demoFrame] ≠ .error .valueError := by
  obtain ⟨ls, h, hiff⟩ := render_fails_iff_decided (fun s => .ok s) ⟨[], []⟩ false true 2 false ['E'] ['a', '<', 'b']
    [demoFrame] .valueError (by decide)
  have hc := (render_contains ⟨[], []⟩ compact true 2 false ['E'] ['a', '<', 'b'] [demoFrame]).1 ls (by simp) h
  refine ⟨ls, h, hc.1, hc.2, ?_⟩
  intro hf
  obtain ⟨_, _, _, _, _, hl⟩ := hiff.mp hf
  cases hl

end Clikit.Props.C20
