import Clikit.Model.Switches
import Clikit.Model.Gate
import Clikit.Props.C08
import Clikit.Props.C10
/-!
# C09 - global switches act the same wherever they appear and whatever command runs

The decisions are translated from `DefaultApplicationConfig` on every run (`Gen/C09.lean`); the
theorems quantify over ALL token lists.
-/
namespace Clikit.Props.C09
open Clikit Clikit.Switches Clikit.Gen.C09 Clikit.Tokenizer

/-- the I/O configuration only depends on WHICH tokens occur before `--`, not on where -/
theorem io_depends_on_membership (ts ts' : List Str) (debug : Bool)
    (h : ∀ t, hasTok ts t = hasTok ts' t) : createIO ts debug = createIO ts' debug := by
  have : hasTok ts = hasTok ts' := funext h
  simp [createIO, this]

/-- **Position independence**: any reordering of the tokens before `--` gives the same I/O -/
theorem io_perm_invariant (ts ts' : List Str) (debug : Bool)
    (h : (optionTokens ts).Perm (optionTokens ts')) : createIO ts debug = createIO ts' debug := by
  apply io_depends_on_membership
  intro t
  simp only [hasTok]
  cases h1 : (optionTokens ts).contains t <;> cases h2 : (optionTokens ts').contains t <;> simp_all
  · have := h.mem_iff (a := t); simp_all
  · have := h.mem_iff (a := t); simp_all

/-- **After `--` the same tokens have no effect**: the I/O is that of the tokens before it -/
theorem io_after_dashes (pre tail : List Str) (debug : Bool) (h : ['-', '-'] ∉ pre) :
    createIO (pre ++ ['-', '-'] :: tail) debug = createIO pre debug := by
  apply io_depends_on_membership
  intro t
  simp only [hasTok, Props.C08.option_tokens_cut pre tail h, Props.C08.option_tokens_all pre h]

theorem help_after_dashes (pre tail : List Str) (h : ['-', '-'] ∉ pre) :
    helpSwitch (pre ++ ['-', '-'] :: tail) = helpSwitch pre := by
  have : hasTok (pre ++ ['-', '-'] :: tail) = hasTok pre := by
    funext t
    simp only [hasTok, Props.C08.option_tokens_cut pre tail h, Props.C08.option_tokens_all pre h]
  simp only [helpSwitch, this]

/-- quiet iff `--quiet` or `-q` is among the option tokens -/
theorem quiet_iff (ts : List Str) (debug : Bool) :
    (createIO ts debug).quiet = true ↔ ("--quiet".toList ∈ optionTokens ts ∨ "-q".toList ∈ optionTokens ts) := by
  simp [createIO, quiet, hasTok]

/-- questions are answered by their defaults iff `--no-interaction` or `-n` is among the option tokens -/
theorem no_interaction_iff (ts : List Str) (debug : Bool) :
    (createIO ts debug).interactive = false ↔
      ("--no-interaction".toList ∈ optionTokens ts ∨ "-n".toList ∈ optionTokens ts) := by
  simp only [createIO, interactionOff, hasTok]
  cases h1 : (optionTokens ts).contains "--no-interaction".toList <;>
    cases h2 : (optionTokens ts).contains "-n".toList <;> simp_all

/-- the three verbosity switches select the three levels; the most verbose one present wins;
without any the level is NORMAL (unless the configuration is in debug mode) -/
theorem verbosity_levels (ts : List Str) :
    let v := (createIO ts false).verbosity
    ("-vvv".toList ∈ optionTokens ts → v = Gen.IOFlags.DEBUG) ∧
    ("-vvv".toList ∉ optionTokens ts → "-vv".toList ∈ optionTokens ts → v = Gen.IOFlags.VERY_VERBOSE) ∧
    ("-vvv".toList ∉ optionTokens ts → "-vv".toList ∉ optionTokens ts → "-v".toList ∈ optionTokens ts →
      v = Gen.IOFlags.VERBOSE) ∧
    ("-vvv".toList ∉ optionTokens ts → "-vv".toList ∉ optionTokens ts → "-v".toList ∉ optionTokens ts →
      v = Gen.IOFlags.NORMAL) := by
  simp only [createIO, verbosity, hasTok, Bool.or_false]
  refine ⟨?_, ?_, ?_, ?_⟩ <;> intros <;> simp_all

/-- the levels are the ones C10's gate distinguishes: raising the switch never hides anything -/
theorem verbosity_monotone_output (ts ts' : List Str) (f : Option Nat)
    (h : (createIO ts false).verbosity ≤ (createIO ts' false).verbosity)
    (hw : Gen.mayWrite false (createIO ts false).verbosity f = true) :
    Gen.mayWrite false (createIO ts' false).verbosity f = true :=
  Props.C10.mayWrite_mono_verbosity false _ _ f h hw

/-- `--no-ansi` removes decoration, whatever else is given; `--ansi` (without `--no-ansi`)
forces it on any stream; otherwise the stream's capability decides -/
theorem ansi_precedence (ts : List Str) (debug : Bool) :
    ("--no-ansi".toList ∈ optionTokens ts → (createIO ts debug).ansi = .off) ∧
    ("--no-ansi".toList ∉ optionTokens ts → "--ansi".toList ∈ optionTokens ts → (createIO ts debug).ansi = .forced) ∧
    ("--no-ansi".toList ∉ optionTokens ts → "--ansi".toList ∉ optionTokens ts → (createIO ts debug).ansi = .auto) := by
  simp only [createIO, ansiMode, hasTok]
  refine ⟨?_, ?_, ?_⟩ <;> intros <;> simp_all

/-- **Quiet suppresses all output of the run, including the error report**: every write of a quiet
output is dropped by the gate, whatever its flags and the verbosity (composition with C10) -/
theorem quiet_silences_run (ts : List Str) (debug : Bool) (h : (createIO ts debug).quiet = true)
    (writes : List (Option Nat)) :
    ∀ f ∈ writes, Gen.mayWrite (createIO ts debug).quiet (createIO ts debug).verbosity f = false := by
  intro f _
  rw [h]
  exact Props.C10.quiet_writes_nothing _ f

/-- the help switch is recognised iff `-h` or `--help` is among the option tokens -/
theorem help_switch_iff (ts : List Str) :
    helpSwitch ts = true ↔ ("-h".toList ∈ optionTokens ts ∨ "--help".toList ∈ optionTokens ts) := by
  simp [helpSwitch, helpRequested, hasTok]

/-- **The version switch**: when the parsed args have the version option set, the run ends with
status 0 and the command's handler is not invoked (composition with C04's run model) -/
theorem version_switch (debug : Bool) (h : Run.Outcome) (render : Run.Exc → Bool) :
    let r := Run.run debug (.ok ()) [versionListener true] h render
    r.status = some 0 ∧ r.handlerCalls = 0 ∧ r.escaped = none := by
  simp [Run.run, Run.attempt, Run.handle, Run.doHandle, Run.dispatchPre, versionListener, Run.normalize,
    Run.conclude]

/-- ... and when it is not set the listener is inert -/
theorem version_absent (debug : Bool) (h : Run.Outcome) (render : Run.Exc → Bool) :
    Run.run debug (.ok ()) [versionListener false] h render = Run.run debug (.ok ()) [] h render := by
  simp [Run.run, Run.attempt, Run.handle, Run.doHandle, Run.dispatchPre, versionListener]

/-! Hypothesis-free forms of `io_after_dashes` / `help_after_dashes`: `pre` there is any list
without `--`; the option tokens of ANY token list are such a list, and every token list is its
option tokens followed (if at all) by `--` and a tail (`Props.C08.option_tokens_split`). -/

/-- **Only the option tokens matter**, for every token list: the I/O configuration and the help
switch of a line are those of its tokens before the first `--`. -/
theorem io_only_option_tokens (ts : List Str) (debug : Bool) :
    createIO ts debug = createIO (optionTokens ts) debug ∧ helpSwitch ts = helpSwitch (optionTokens ts) := by
  have : hasTok ts = hasTok (optionTokens ts) := by
    funext t
    simp only [hasTok, Props.C08.option_tokens_idem]
  exact ⟨io_depends_on_membership ts _ debug (fun t => congrFun this t), by simp only [helpSwitch, this]⟩

/-- **Whatever follows the first `--` has no effect**, for every token list and every tail. -/
theorem io_tail_irrelevant (ts tail : List Str) (debug : Bool) :
    createIO (optionTokens ts ++ ['-', '-'] :: tail) debug = createIO ts debug ∧
    helpSwitch (optionTokens ts ++ ['-', '-'] :: tail) = helpSwitch ts := by
  have hn := (Props.C08.option_tokens_prefix ts).1
  rw [io_after_dashes _ tail debug hn, help_after_dashes _ tail hn]
  exact ⟨(io_only_option_tokens ts debug).1.symm, (io_only_option_tokens ts debug).2.symm⟩

/-! Non-vacuity -/
example : createIO ["cmd".toList, "-q".toList, "-vv".toList, "--".toList, "--no-ansi".toList] false
    = { ansi := .auto, verbosity := 2, quiet := true, interactive := true } := by decide
example : helpSwitch ["cmd".toList, "--".toList, "-h".toList] = false := by decide
example : helpSwitch ["cmd".toList, "-h".toList] = true := by decide

/-! every theorem with hypotheses, applied to a concrete instance (all hypotheses discharged) -/

example : createIO ["cmd".toList, "-q".toList, "-vv".toList, "--".toList, "x".toList] false =
    createIO ["-vv".toList, "cmd".toList, "-q".toList] false :=
  io_perm_invariant _ _ false (List.isPerm_iff.1 (by decide))

example : createIO (["cmd".toList, "-n".toList] ++ ['-', '-'] :: ["-q".toList, "--no-ansi".toList]) true =
    createIO ["cmd".toList, "-n".toList] true :=
  io_after_dashes _ _ true (by decide)

example : helpSwitch (["cmd".toList] ++ ['-', '-'] :: ["-h".toList]) = helpSwitch ["cmd".toList] :=
  help_after_dashes _ _ (by decide)

/-- what `-v` lets through, `-vvv` lets through as well (a VERBOSE-flagged write) -/
example : Gen.mayWrite false (createIO ["-vvv".toList] false).verbosity (some Gen.IOFlags.VERBOSE) = true :=
  verbosity_monotone_output ["-v".toList] ["-vvv".toList] (some Gen.IOFlags.VERBOSE) (by decide) (by decide)

example : ∀ f ∈ [none, some Gen.IOFlags.DEBUG],
    Gen.mayWrite (createIO ["cmd".toList, "-q".toList, "-vvv".toList] false).quiet
      (createIO ["cmd".toList, "-q".toList, "-vvv".toList] false).verbosity f = false :=
  quiet_silences_run _ false (by decide) _

example : createIO ["-q".toList, "--".toList, "-vvv".toList] false = createIO ["-q".toList] false :=
  (io_only_option_tokens _ false).1


end Clikit.Props.C09
