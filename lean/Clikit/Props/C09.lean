import Clikit.Model.Switches
import Clikit.Model.Gate
import Clikit.Props.C08
import Clikit.Props.C10
import Clikit.Lemmas.App
/-!
# C09 - global switches act the same wherever they appear and whatever command runs

The decisions are translated from `DefaultApplicationConfig` on every run (`Gen/C09.lean`); the
theorems quantify over ALL token lists.
-/
namespace Clikit.Props.C09
open Clikit Clikit.Switches Clikit.Gen.C09 Clikit.Tokenizer

/-- the I/O configuration only depends on WHICH tokens occur before `--`, not on where -/
theorem io_depends_on_membership (ts ts' : List Str) (debug : Bool)
    (h : ∀ t, hasTok ts t = hasTok ts' t) : createIO ts debug = createIO ts' debug := by
  have : hasTok ts = hasTok ts' := funext h
  simp [createIO, this]

/-- **Position independence**: any reordering of the tokens before `--` gives the same I/O -/
theorem io_perm_invariant (ts ts' : List Str) (debug : Bool)
    (h : (optionTokens ts).Perm (optionTokens ts')) : createIO ts debug = createIO ts' debug := by
  apply io_depends_on_membership
  intro t
  simp only [hasTok]
  cases h1 : (optionTokens ts).contains t <;> cases h2 : (optionTokens ts').contains t <;> simp_all
  · have := h.mem_iff (a := t); simp_all
  · have := h.mem_iff (a := t); simp_all

/-- **After `--` the same tokens have no effect**: the I/O is that of the tokens before it -/
theorem io_after_dashes (pre tail : List Str) (debug : Bool) (h : ['-', '-'] ∉ pre) :
    createIO (pre ++ ['-', '-'] :: tail) debug = createIO pre debug := by
  apply io_depends_on_membership
  intro t
  simp only [hasTok, Props.C08.option_tokens_cut pre tail h, Props.C08.option_tokens_all pre h]

theorem help_after_dashes (pre tail : List Str) (h : ['-', '-'] ∉ pre) :
    helpSwitch (pre ++ ['-', '-'] :: tail) = helpSwitch pre := by
  have : hasTok (pre ++ ['-', '-'] :: tail) = hasTok pre := by
    funext t
    simp only [hasTok, Props.C08.option_tokens_cut pre tail h, Props.C08.option_tokens_all pre h]
  simp only [helpSwitch, this]

/-- quiet iff `--quiet` or `-q` is among the option tokens -/
theorem quiet_iff (ts : List Str) (debug : Bool) :
    (createIO ts debug).quiet = true ↔ ("--quiet".toList ∈ optionTokens ts ∨ "-q".toList ∈ optionTokens ts) := by
  simp [createIO, quiet, hasTok]

/-- questions are answered by their defaults iff `--no-interaction` or `-n` is among the option tokens -/
theorem no_interaction_iff (ts : List Str) (debug : Bool) :
    (createIO ts debug).interactive = false ↔
      ("--no-interaction".toList ∈ optionTokens ts ∨ "-n".toList ∈ optionTokens ts) := by
  simp only [createIO, interactionOff, hasTok]
  cases h1 : (optionTokens ts).contains "--no-interaction".toList <;>
    cases h2 : (optionTokens ts).contains "-n".toList <;> simp_all

/-- the three verbosity switches select the three levels; the most verbose one present wins;
without any the level is NORMAL (unless the configuration is in debug mode) -/
theorem verbosity_levels (ts : List Str) :
    let v := (createIO ts false).verbosity
    ("-vvv".toList ∈ optionTokens ts → v = Gen.IOFlags.DEBUG) ∧
    ("-vvv".toList ∉ optionTokens ts → "-vv".toList ∈ optionTokens ts → v = Gen.IOFlags.VERY_VERBOSE) ∧
    ("-vvv".toList ∉ optionTokens ts → "-vv".toList ∉ optionTokens ts → "-v".toList ∈ optionTokens ts →
      v = Gen.IOFlags.VERBOSE) ∧
    ("-vvv".toList ∉ optionTokens ts → "-vv".toList ∉ optionTokens ts → "-v".toList ∉ optionTokens ts →
      v = Gen.IOFlags.NORMAL) := by
  simp only [createIO, verbosity, hasTok, Bool.or_false]
  refine ⟨?_, ?_, ?_, ?_⟩ <;> intros <;> simp_all

/-- the levels are the ones C10's gate distinguishes: raising the switch never hides anything -/
theorem verbosity_monotone_output (ts ts' : List Str) (f : Option Nat)
    (h : (createIO ts false).verbosity ≤ (createIO ts' false).verbosity)
    (hw : Gen.mayWrite false (createIO ts false).verbosity f = true) :
    Gen.mayWrite false (createIO ts' false).verbosity f = true :=
  Props.C10.mayWrite_mono_verbosity false _ _ f h hw

/-- `--no-ansi` removes decoration, whatever else is given; `--ansi` (without `--no-ansi`)
forces it on any stream; otherwise the stream's capability decides -/
theorem ansi_precedence (ts : List Str) (debug : Bool) :
    ("--no-ansi".toList ∈ optionTokens ts → (createIO ts debug).ansi = .off) ∧
    ("--no-ansi".toList ∉ optionTokens ts → "--ansi".toList ∈ optionTokens ts → (createIO ts debug).ansi = .forced) ∧
    ("--no-ansi".toList ∉ optionTokens ts → "--ansi".toList ∉ optionTokens ts → (createIO ts debug).ansi = .auto) := by
  simp only [createIO, ansiMode, hasTok]
  refine ⟨?_, ?_, ?_⟩ <;> intros <;> simp_all

/-- **Quiet suppresses all output of the run, including the error report**: every write of a quiet
output is dropped by the gate, whatever its flags and the verbosity (composition with C10) -/
theorem quiet_silences_run (ts : List Str) (debug : Bool) (h : (createIO ts debug).quiet = true)
    (writes : List (Option Nat)) :
    ∀ f ∈ writes, Gen.mayWrite (createIO ts debug).quiet (createIO ts debug).verbosity f = false := by
  intro f _
  rw [h]
  exact Props.C10.quiet_writes_nothing _ f

/-- the help switch is recognised iff `-h` or `--help` is among the option tokens -/
theorem help_switch_iff (ts : List Str) :
    helpSwitch ts = true ↔ ("-h".toList ∈ optionTokens ts ∨ "--help".toList ∈ optionTokens ts) := by
  simp [helpSwitch, helpRequested, hasTok]

/-- **The version switch**: when the parsed args have the version option set, the run ends with
status 0 and the command's handler is not invoked (composition with C04's run model) -/
theorem version_switch (debug : Bool) (h : Run.Outcome) (render : Run.Exc → Bool) :
    let r := Run.run debug (.ok ()) [versionListener true] h render
    r.status = some 0 ∧ r.handlerCalls = 0 ∧ r.escaped = none := by
  simp [Run.run, Run.attempt, Run.handle, Run.doHandle, Run.dispatchPre, versionListener, Run.normalize,
    Run.conclude]

/-- ... and when it is not set the listener is inert -/
theorem version_absent (debug : Bool) (h : Run.Outcome) (render : Run.Exc → Bool) :
    Run.run debug (.ok ()) [versionListener false] h render = Run.run debug (.ok ()) [] h render := by
  simp [Run.run, Run.attempt, Run.handle, Run.doHandle, Run.dispatchPre, versionListener]

/-! Hypothesis-free forms of `io_after_dashes` / `help_after_dashes`: `pre` there is any list
without `--`; the option tokens of ANY token list are such a list, and every token list is its
option tokens followed (if at all) by `--` and a tail (`Props.C08.option_tokens_split`). -/

/-- **`--` as the very first token** (zero tokens before the separator): nothing on the line is a switch - the I/O
configuration and the help listener's decision are those of the empty line, whatever follows. -/
theorem io_dashes_first (tail : List Str) (debug : Bool) :
    createIO (['-', '-'] :: tail) debug = createIO [] debug ∧ helpSwitch (['-', '-'] :: tail) = helpSwitch [] :=
  ⟨io_after_dashes [] tail debug (by simp), help_after_dashes [] tail (by simp)⟩

/-- **Only the option tokens matter**, for every token list: the I/O configuration and the help
switch of a line are those of its tokens before the first `--`. -/
theorem io_only_option_tokens (ts : List Str) (debug : Bool) :
    createIO ts debug = createIO (optionTokens ts) debug ∧ helpSwitch ts = helpSwitch (optionTokens ts) := by
  have : hasTok ts = hasTok (optionTokens ts) := by
    funext t
    simp only [hasTok, Props.C08.option_tokens_idem]
  exact ⟨io_depends_on_membership ts _ debug (fun t => congrFun this t), by simp only [helpSwitch, this]⟩

/-- **Whatever follows the first `--` has no effect**, for every token list and every tail. -/
theorem io_tail_irrelevant (ts tail : List Str) (debug : Bool) :
    createIO (optionTokens ts ++ ['-', '-'] :: tail) debug = createIO ts debug ∧
    helpSwitch (optionTokens ts ++ ['-', '-'] :: tail) = helpSwitch ts := by
  have hn := (Props.C08.option_tokens_prefix ts).1
  rw [io_after_dashes _ tail debug hn, help_after_dashes _ tail hn]
  exact ⟨(io_only_option_tokens ts debug).1.symm, (io_only_option_tokens ts debug).2.symm⟩

/-! Non-vacuity -/
example : createIO ["cmd".toList, "-q".toList, "-vv".toList, "--".toList, "--no-ansi".toList] false
    = { ansi := .auto, verbosity := 2, quiet := true, interactive := true } := by decide
example : helpSwitch ["cmd".toList, "--".toList, "-h".toList] = false := by decide
example : helpSwitch ["cmd".toList, "-h".toList] = true := by decide

/-! every theorem with hypotheses, applied to a concrete instance (all hypotheses discharged) -/

example : createIO ["cmd".toList, "-q".toList, "-vv".toList, "--".toList, "x".toList] false =
    createIO ["-vv".toList, "cmd".toList, "-q".toList] false :=
  io_perm_invariant _ _ false (List.isPerm_iff.1 (by decide))

example : createIO (["cmd".toList, "-n".toList] ++ ['-', '-'] :: ["-q".toList, "--no-ansi".toList]) true =
    createIO ["cmd".toList, "-n".toList] true :=
  io_after_dashes _ _ true (by decide)

example : helpSwitch (["cmd".toList] ++ ['-', '-'] :: ["-h".toList]) = helpSwitch ["cmd".toList] :=
  help_after_dashes _ _ (by decide)

/-- what `-v` lets through, `-vvv` lets through as well (a VERBOSE-flagged write) -/
example : Gen.mayWrite false (createIO ["-vvv".toList] false).verbosity (some Gen.IOFlags.VERBOSE) = true :=
  verbosity_monotone_output ["-v".toList] ["-vvv".toList] (some Gen.IOFlags.VERBOSE) (by decide) (by decide)

example : ∀ f ∈ [none, some Gen.IOFlags.DEBUG],
    Gen.mayWrite (createIO ["cmd".toList, "-q".toList, "-vvv".toList] false).quiet
      (createIO ["cmd".toList, "-q".toList, "-vvv".toList] false).verbosity f = false :=
  quiet_silences_run _ false (by decide) _

example : createIO ["-q".toList, "--".toList, "-vvv".toList] false = createIO ["-q".toList] false :=
  (io_only_option_tokens _ false).1


/-! ## End to end: the composed model of `ConsoleApplication.run` (`Model/App.lean`)

`App.runApp` composes the switches model with the resolver (C03), the parser (C01/C02), the help
target (C13) and the run model (C04) in the order of the code; the driver entry `c09.app_run`
compares it with the real run of the default application on every generated case.  The theorems
below hold for ALL command trees, token lists, conversion tables and handler behaviours. -/
section AppRun
open Clikit.App Clikit.Parser Clikit.Resolver Clikit.Help

/-- **The I/O configuration of a run is exactly what `createIO` computes from the option tokens**,
whatever the command tree, whatever command the line selects (or fails to), whatever the handlers do -/
theorem app_io_is_switches (env : Env) (cv : Conv) (app : List Cmd) (hs : Handlers) (toks : List Str) :
    (runApp env cv app hs toks).io = createIO toks env.debug ∧
    ∀ (cv' : Conv) (app' : List Cmd) (hs' : Handlers),
      (runApp env cv' app' hs' toks).io = (runApp env cv app hs toks).io := by
  refine ⟨runApp_io env cv app hs toks, fun cv' app' hs' => ?_⟩
  rw [runApp_io, runApp_io]

/-- **A help switch among the option tokens**: no handler of the application is invoked; and when
the lenient parse of the help command succeeds the run shows the page `helpTarget` (C13) selects,
with status 0 - unless the parsed args also have the version option set: then the version listener
answers first (name and version, status 0).  When the help handler cannot resolve the page
(`helpTarget` is an error) that error is what the run reports.
`helpNamedB`: the command `get_command("help")` returns is named `help` (decided on every real tree). -/
theorem app_help_switch (env : Env) (cv : Conv) (app : List Cmd) (hs : Handlers) (toks : List Str)
    (hsw : helpSwitch toks = true) (hn : helpNamedB app = true) :
    (runApp env cv app hs toks).invoked = [] ∧
    ∀ (h : Cmd) (a : Args), (Coll.ofList app).get? helpName = some h → parse cv h.fmt true toks = .ok a →
      (versionSet a = false → ∀ t, helpTarget cv app toks = .ok (some t) →
        (runApp env cv app hs toks).what = .helpPage t ∧ (runApp env cv app hs toks).status = some 0) ∧
      (versionSet a = false → ∀ e, helpTarget cv app toks = .error e →
        (runApp env cv app hs toks).what = .error e) ∧
      (versionSet a = true →
        (runApp env cv app hs toks).what = .version ∧ (runApp env cv app hs toks).status = some 0) := by
  have hrc := resolveCommand_switch cv app toks hsw
  constructor
  · -- no handler: either nothing is selected, or the command named `help`
    cases hg : (Coll.ofList app).get? helpName with
    | none =>
      simp only [hg] at hrc
      rw [runApp_error env cv app hs toks _ hrc]
    | some h =>
      cases hp : parse cv h.fmt true toks with
      | error e =>
        simp only [hg, hp] at hrc
        rw [runApp_error env cv app hs toks _ hrc]
      | ok a =>
        simp only [hg, hp] at hrc
        rw [runApp_ok env cv app hs toks _ _ hrc]
        simp [isHelpPath, helpNamed_name app h hn hg]
  · intro h a hg hp
    simp only [hg, hp] at hrc
    have hname := helpNamed_name app h hn hg
    have ht := helpTarget_switch cv app toks hsw h a hg hp
    rw [runApp_ok env cv app hs toks _ _ hrc]
    have hpath : isHelpPath [h.name] = true := by simp [isHelpPath, hname]
    refine ⟨fun hv t htt => ?_, fun hv e hte => ?_, fun hv => ?_⟩
    · rw [ht] at htt
      cases hh : handlerTarget cv app toks a with
      | error e => rw [hh] at htt; cases htt
      | ok t' =>
        rw [hh] at htt
        have : t' = t := by simpa [Except.map] using htt
        subst this
        simp only [whatOf, hv, hpath, hh, handlerOutcome, run_pass, run_ret0, Bool.false_eq_true, if_false, if_true]
        exact ⟨trivial, trivial⟩
    · rw [ht] at hte
      cases hh : handlerTarget cv app toks a with
      | ok t' => rw [hh] at hte; cases hte
      | error e' =>
        rw [hh] at hte
        have : e' = e := by simpa [Except.map] using hte
        subst this
        simp only [whatOf, hv, hpath, hh, Bool.false_eq_true, if_false, if_true]
    · simp only [whatOf, hv, run_version, if_true]
      exact ⟨trivial, trivial⟩

/-- **The version switch**: no help switch, the line resolves and parses, and the parsed args have
the version option set: name and version are shown, status 0, no handler is invoked, nothing escapes -/
theorem app_version_switch (env : Env) (cv : Conv) (app : List Cmd) (hs : Handlers) (toks : List Str)
    (path : List Str) (a : Args) (hsw : helpSwitch toks = false) (hr : resolve cv app toks = .ok (path, a))
    (hv : versionSet a = true) :
    (runApp env cv app hs toks).what = .version ∧ (runApp env cv app hs toks).status = some 0 ∧
    (runApp env cv app hs toks).invoked = [] ∧ (runApp env cv app hs toks).escaped = none := by
  have hrc : resolveCommand cv app toks = .ok (path, a) := by rw [resolveCommand_noswitch cv app toks hsw, hr]
  rw [runApp_ok env cv app hs toks _ _ hrc]
  simp only [whatOf, hv, run_version, if_true, List.replicate_zero, ite_self]
  exact ⟨trivial, trivial, trivial, trivial⟩

/-- **The command `help`** (no switch): a line that resolves to the top-level command `help` shows
the page `helpTarget` selects, status 0, and invokes no handler of the application -/
theorem app_help_command (env : Env) (cv : Conv) (app : List Cmd) (hs : Handlers) (toks : List Str)
    (a : Args) (hsw : helpSwitch toks = false) (hr : resolve cv app toks = .ok ([helpName], a))
    (hv : versionSet a = false) (t : Target) (ht : helpTarget cv app toks = .ok (some t)) :
    (runApp env cv app hs toks).what = .helpPage t ∧ (runApp env cv app hs toks).status = some 0 ∧
    (runApp env cv app hs toks).invoked = [] := by
  have hrc : resolveCommand cv app toks = .ok ([helpName], a) := by
    rw [resolveCommand_noswitch cv app toks hsw, hr]
  have hpath : isHelpPath [helpName] = true := by simp [isHelpPath]
  rw [helpTarget_command cv app toks hsw _ a hr, hpath] at ht
  rw [runApp_ok env cv app hs toks _ _ hrc]
  cases hh : handlerTarget cv app toks a with
  | error e => simp [hh, Except.map] at ht
  | ok t' =>
    have : t' = t := by simpa [hh, Except.map] using ht
    subst this
    simp only [whatOf, hv, hpath, hh, handlerOutcome, run_pass, run_ret0, Bool.false_eq_true, if_false, if_true]
    exact ⟨trivial, trivial, trivial⟩

/-- **Tokens after `--` are inert**: for a prefix without `--` and ANY two tails, the two runs have
the I/O configuration of the prefix alone, the help listener decides as for the prefix alone (so a
`-h` / `--help` after `--` never turns the line into a help request: without a switch in the
prefix the command is selected by the resolver), and for EVERY args format the options set by the
parse - hence whether the version option is set, i.e. whether the line is a version request - do
not depend on the tail. -/
theorem app_switches_after_dashes_inert (env : Env) (cv : Conv) (app : List Cmd) (hs : Handlers)
    (pre tail tail' : List Str) (h : ['-', '-'] ∉ pre) :
    (runApp env cv app hs (pre ++ ['-', '-'] :: tail)).io = createIO pre env.debug ∧
    (runApp env cv app hs (pre ++ ['-', '-'] :: tail)).io = (runApp env cv app hs (pre ++ ['-', '-'] :: tail')).io ∧
    helpSwitch (pre ++ ['-', '-'] :: tail) = helpSwitch pre ∧
    (helpSwitch pre = false →
      resolveCommand cv app (pre ++ ['-', '-'] :: tail) = resolve cv app (pre ++ ['-', '-'] :: tail)) ∧
    (∀ (f : Fmt) (lenient : Bool) (a a' : Args),
      parse cv f lenient (pre ++ ['-', '-'] :: tail) = .ok a → parse cv f lenient (pre ++ ['-', '-'] :: tail') = .ok a' →
      a.opts = a'.opts ∧ versionSet a = versionSet a') := by
  refine ⟨?_, ?_, help_after_dashes pre tail h, fun hno => ?_, fun f lenient a a' hp hp' => ?_⟩
  · rw [runApp_io, io_after_dashes pre tail env.debug h]
  · rw [runApp_io, runApp_io, io_after_dashes pre tail env.debug h, io_after_dashes pre tail' env.debug h]
  · exact resolveCommand_noswitch cv app _ (by rw [help_after_dashes pre tail h, hno])
  · have := App.parse_opts_tail cv f lenient pre tail tail' h a a' hp hp'
    exact ⟨this, by simp only [versionSet, this]⟩

/-! ### Non-vacuity on the small application `App.Demo` (`help`, `server` / `srv`, `server add`)

Every theorem above is applied with all its hypotheses discharged by evaluation, and the
conclusion is a concrete fact about the run. -/
section Demo
open Clikit.App.Demo

/-- the I/O configuration of `server add -q -vv` is the one of `-q -vv`, whoever handles the line -/
example : (runApp env cv app hs [S "server", S "add", S "-q", S "-vv"]).io =
    { ansi := .auto, verbosity := 2, quiet := true, interactive := true } :=
  (app_io_is_switches env cv app hs _).1.trans (by decide)

/-- `server add x -h`: no handler, and the page of `server add` with status 0 (the lenient parse of the
`help` command takes the three names as its `command` argument) -/
example : (runApp env cv app hs [S "server", S "add", S "x", S "-h"]).invoked = [] :=
  (app_help_switch env cv app hs _ (by decide) (by decide)).1
example : (runApp env cv app hs [S "server", S "add", S "x", S "-h"]).what = .helpPage (.cmd [S "server", S "add"]) ∧
    (runApp env cv app hs [S "server", S "add", S "x", S "-h"]).status = some 0 :=
  ((app_help_switch env cv app hs _ (by decide) (by decide)).2 cHelp
    { args := [(S "command", .list [.str (S "server"), .str (S "add"), .str (S "x")])],
      opts := [(S "help", .scalar (.bool true))] }
    (by rfl) (by decide +kernel)).1 (by decide) _ (by decide +kernel)

/-- `-h -V`: the help command is selected, its parsed args have the version option: the version wins -/
example : (runApp env cv app hs [S "-h", S "-V"]).what = .version ∧
    (runApp env cv app hs [S "-h", S "-V"]).status = some 0 :=
  ((app_help_switch env cv app hs _ (by decide) (by decide)).2 cHelp
    { args := [], opts := [(S "help", .scalar (.bool true)), (S "version", .scalar (.bool true))] }
    (by rfl) (by decide +kernel)).2.2 (by decide)

/-- `nope -h`: the help handler cannot resolve `nope`: that error is what the run reports -/
example : (runApp env cv app hs [S "nope", S "-h"]).what = .error .cannotResolve :=
  ((app_help_switch env cv app hs _ (by decide) (by decide)).2 cHelp
    { args := [(S "command", .list [.str (S "nope")])], opts := [(S "help", .scalar (.bool true))] }
    (by rfl) (by decide +kernel)).2.1 (by decide) _ (by decide +kernel)

/-- `srv add x -V`: the version, status 0, although the handler of `server add` would return 3 -/
example : (runApp env cv app hs [S "srv", S "add", S "x", S "-V"]).what = .version ∧
    (runApp env cv app hs [S "srv", S "add", S "x", S "-V"]).status = some 0 ∧
    (runApp env cv app hs [S "srv", S "add", S "x", S "-V"]).invoked = [] ∧
    (runApp env cv app hs [S "srv", S "add", S "x", S "-V"]).escaped = none :=
  app_version_switch env cv app hs _ [S "server", S "add"] (addArgs ["x"] ["version"]) (by decide)
    (by decide +kernel) (by decide)

/-- `help server`: the page of `server` -/
example : (runApp env cv app hs [S "help", S "server"]).what = .helpPage (.cmd [S "server"]) ∧
    (runApp env cv app hs [S "help", S "server"]).status = some 0 ∧
    (runApp env cv app hs [S "help", S "server"]).invoked = [] :=
  app_help_command env cv app hs _ { args := [(S "command", .list [.str (S "server")])], opts := [] } (by decide)
    (by decide +kernel) (by decide) _ (by decide +kernel)

/-- `server add -q -- -h -V`: the switches after `--` are names for `server add`; the run is quiet, it
is neither a help nor a version request, the handler runs (status 3) -/
example : (runApp env cv app hs ([S "server", S "add", S "-q"] ++ ['-', '-'] :: [S "-h", S "-V"])).io =
    createIO [S "server", S "add", S "-q"] false :=
  (app_switches_after_dashes_inert env cv app hs _ [S "-h", S "-V"] [] (by decide)).1
example : helpSwitch ([S "server", S "add", S "-q"] ++ ['-', '-'] :: [S "-h", S "-V"]) = false :=
  (app_switches_after_dashes_inert env cv app hs _ [S "-h", S "-V"] [] (by decide)).2.2.1.trans (by decide)
/-- the parse of `server add`'s format on the line with and without the tail: same options (`quiet`), so
neither has the version option -/
example : versionSet (addArgs ["-h", "-V"] ["quiet"]) = versionSet { args := [], opts := [(S "quiet", .scalar (.bool true))] } :=
  ((app_switches_after_dashes_inert env cv app hs [S "server", S "add", S "-q"] [S "-h", S "-V"] [] (by decide)).2.2.2.2
    cAdd.fmt false _ _ (by decide +kernel) (by decide +kernel)).2
example : (runApp env cv app hs [S "server", S "add", S "-q", S "--", S "-h", S "-V"]).status = some 3 ∧
    (runApp env cv app hs [S "server", S "add", S "-q", S "--", S "-h", S "-V"]).invoked =
      [([S "server", S "add"], addArgs ["-h", "-V"] ["quiet"])] := by decide +kernel

end Demo

end AppRun

/-! ## Surplus arguments of a command with lenient args parsing

A command configured with `enable_lenient_args_parsing()` accepts more arguments than its format has
(`_parse_argument`: "unexpected argument", skipped when lenient).  The global switches may stand BEHIND such a
surplus argument; the parser reaches them with an unchanged state.  The composed model gets the leniency of every
command from the real application (`Cmd.lenient`), and `c09.app_run` compares such lines on every run. -/
section LenientSurplus
open Clikit.App Clikit.Parser Clikit.Resolver Clikit.Help

/-- every argument slot of the format is taken and the last argument is single-valued: a further argument token
is SURPLUS -/
def argsFull (fa : List FArg) (σ : St) : Prop :=
  fa.length ≤ σ.args.length ∧ ∀ a, fa.getLast? = some a → a.multi = false

theorem parseArgument_surplus (fa : List FArg) (tok : Str) (σ : St) (h : argsFull fa σ) :
    parseArgument fa true tok σ = .ok σ := by
  obtain ⟨hl, hm⟩ := h
  unfold parseArgument
  have h1 : hasArgAt fa (σ.args.length : Int) = false := by
    simp only [hasArgAt, decide_eq_false_iff_not]; omega
  simp only [h1]
  by_cases hc : (decide ((σ.args.length : Int) > 0) && hasArgAt fa ((σ.args.length : Int) - 1)) = true
  · simp only [hc]
    simp only [Bool.and_eq_true, decide_eq_true_eq, hasArgAt] at hc
    have hlen : σ.args.length = fa.length := by omega
    have hpos : 0 < fa.length := by omega
    have hget : getArgAt fa ((σ.args.length : Int) - 1) = .ok (fa[fa.length - 1]'(by omega)) := by
      unfold getArgAt
      have : ¬ ((σ.args.length : Int) - 1 ≥ (fa.length : Int)) := by omega
      have h0 : ((σ.args.length : Int) - 1 ≥ 0) := by omega
      have ht : ((σ.args.length : Int) - 1).toNat = fa.length - 1 := by omega
      rw [if_neg this, if_pos h0, ht, List.getElem?_eq_getElem (show fa.length - 1 < fa.length by omega)]
    rw [hget]
    have := hm (fa[fa.length - 1]'(by omega)) (by rw [List.getLast?_eq_getElem?, List.getElem?_eq_getElem])
    simp [this]
  · have hc' : (decide ((σ.args.length : Int) > 0) && hasArgAt fa ((σ.args.length : Int) - 1)) = false := by
      simpa using hc
    rw [hc']; simp

/-- a word: a non-empty token that does not start with `-` -/
def isWord : Str → Bool
  | [] => false
  | c :: _ => c != '-'

theorem step_surplus (f : Fmt) (tok : Str) (rest : List Str) (po : Bool) (σ : St)
    (hw : isWord tok = true) (h : argsFull f.fargs σ) :
    step f true tok rest po σ = .ok (σ, rest, po) := by
  match tok, hw with
  | c :: cs, hw =>
    have hc : (c == '-') = false := by simpa [isWord] using hw
    have hc' : c ≠ '-' := by simpa using hc
    have e1 : ((c :: cs) == ([] : Str)) = false := by simp
    have e2 : ((c :: cs) == ['-', '-']) = false := by simp [hc']
    have e3 : ((c :: cs).take 2 == ['-', '-']) = false := by
      cases cs <;> simp [hc']
    have e4 : shortTest po (c :: cs) = .ok false := by
      cases po <;> simp [shortTest, hc]
    simp only [step, e1, e2, e3, e4, Bool.and_false, parseArgument_surplus _ _ _ h]
    simp

/-- **A surplus argument of a lenient command is skipped and the rest of the line is parsed as if it were not
there**: when the token loop of the parser (lenient mode) pops a word while every argument slot is taken, it
continues with the remaining tokens in the SAME state - so every switch behind the surplus argument is parsed
exactly as it would be without it (in particular `-V` / `--version` sets the version option) -/
theorem lenient_surplus_skipped (f : Fmt) (n : Nat) (tok : Str) (rest : List Str) (po : Bool) (σ : St)
    (hw : isWord tok = true) (h : argsFull f.fargs σ) :
    loop f true (n + 1) (tok :: rest) po σ = loop f true n rest po σ := by
  simp only [loop, step_surplus f tok rest po σ hw h]

/-- any number of surplus arguments in a row -/
theorem lenient_surplus_run_skipped (f : Fmt) (n : Nat) (ws rest : List Str) (po : Bool) (σ : St)
    (hw : ∀ w ∈ ws, isWord w = true) (h : argsFull f.fargs σ) :
    loop f true (n + ws.length) (ws ++ rest) po σ = loop f true n rest po σ := by
  induction ws with
  | nil => rfl
  | cons w ws ih =>
    have := lenient_surplus_skipped f (n + ws.length) w (ws ++ rest) po σ (hw w (by simp)) h
    simp only [List.length_cons, List.cons_append, ← Nat.add_assoc] at this ⊢
    rw [this]
    exact ih (fun x hx => hw x (by simp [hx]))

section LenientDemo
open Clikit.App.Demo Clikit.Help

/-- `server` of the demo application, configured with `enable_lenient_args_parsing()` -/
def cServerLenient : Cmd :=
  .mk (S "server") [S "srv"] false false
    { cmds := [{ name := S "server", aliases := [S "srv"] }], args := [], opts := globals } true []
def appLenient : List Cmd := [cHelp, cServerLenient]

/-- `server extra more -V`: the surplus arguments are skipped, the version switch behind them answers (status 0,
no handler) - as for `server -V` -/
example : (runApp env cv appLenient hs [S "server", S "extra", S "more", S "-V"]).what = .version ∧
    (runApp env cv appLenient hs [S "server", S "extra", S "more", S "-V"]).status = some 0 ∧
    (runApp env cv appLenient hs [S "server", S "extra", S "more", S "-V"]).invoked = [] := by decide +kernel
/-- ... and `-q` between two surplus arguments makes the run quiet, the handler of `server` runs -/
example : (runApp env cv appLenient hs [S "server", S "extra", S "-q", S "more"]).io.quiet = true ∧
    (runApp env cv appLenient hs [S "server", S "extra", S "-q", S "more"]).invoked.map (·.1) = [[S "server"]] := by
  decide +kernel
/-- the same line on the strict command is an error: nothing runs -/
example : (runApp env cv app hs [S "server", S "extra", S "-V"]).what = .error .cannotParse := by decide +kernel

end LenientDemo

end LenientSurplus

/-! ## Non-vacuity of the theorems added in rounds 8-9 (hypothesis audit) -/

section AuditR9
open Clikit.App Clikit.Parser Clikit.Resolver Clikit.Help

/-- a format with one single-valued argument `a`, and the parser state after `x` filled it -/
private def oneArg : Fmt :=
  { cmds := [], args := [{ name := "a".toList, required := false, multi := false, ty := .string, nullable := false, default := .scalar .none }],
    opts := [] }
private def filled : St := { args := [(.real "a".toList, .one (.tok "x".toList))], opts := [] }

/-- `argsFull` is satisfiable on a non-empty format and not trivially true -/
example : argsFull oneArg.fargs filled := ⟨by decide, by decide⟩
example : ¬ argsFull oneArg.fargs St.empty := fun h => absurd h.1 (by decide)

/-- `lenient_surplus_skipped` / `lenient_surplus_run_skipped` applied, hypotheses discharged: with the slot taken, the
words `extra more` are skipped and `-q`-like tokens behind them meet the same state -/
example : loop oneArg true 3 ["extra".toList, "more".toList] false filled = loop oneArg true 1 [] false filled :=
  lenient_surplus_run_skipped oneArg 1 ["extra".toList, "more".toList] [] false filled (by decide) ⟨by decide, by decide⟩
example : loop oneArg true 2 ("extra".toList :: ["y".toList]) false filled = loop oneArg true 1 ["y".toList] false filled :=
  lenient_surplus_skipped oneArg 1 "extra".toList ["y".toList] false filled (by decide) ⟨by decide, by decide⟩
example : step oneArg true "extra".toList [] false filled = .ok (filled, [], false) :=
  step_surplus oneArg _ _ _ _ (by decide) ⟨by decide, by decide⟩
example : parseArgument oneArg.fargs true "extra".toList filled = .ok filled :=
  parseArgument_surplus _ _ _ ⟨by decide, by decide⟩
/-- the strict parser rejects the same token in the same state -/
example : (parseArgument oneArg.fargs false "extra".toList filled).toOption = none := by decide

end AuditR9

end Clikit.Props.C09
