import Clikit.Model.Switches
import Clikit.Model.Gate
import Clikit.Props.C08
import Clikit.Props.C10
/-!
# C09 - global switches act the same wherever they appear and whatever command runs

The decisions are translated from `DefaultApplicationConfig` on every run (`Gen/C09.lean`); the
theorems quantify over ALL token lists.
-/
namespace Clikit.Props.C09
open Clikit Clikit.Switches Clikit.Gen.C09 Clikit.Tokenizer

/-- the I/O configuration only depends on WHICH tokens occur before `--`, not on where -/
theorem io_depends_on_membership (ts ts' : List Str) (debug : Bool)
    (h : ∀ t, hasTok ts t = hasTok ts' t) : createIO ts debug = createIO ts' debug := by
  have : hasTok ts = hasTok ts' := funext h
  simp [createIO, this]

/-- **Position independence**: any reordering of the tokens before `--` gives the same I/O -/
theorem io_perm_invariant (ts ts' : List Str) (debug : Bool)
    (h : (optionTokens ts).Perm (optionTokens ts')) : createIO ts debug = createIO ts' debug := by
  apply io_depends_on_membership
  intro t
  simp only [hasTok]
  cases h1 : (optionTokens ts).contains t <;> cases h2 : (optionTokens ts').contains t <;> simp_all
  · have := h.mem_iff (a := t); simp_all
  · have := h.mem_iff (a := t); simp_all

/-- **After `--` the same tokens have no effect**: the I/O is that of the tokens before it -/
theorem io_after_dashes (pre tail : List Str) (debug : Bool) (h : ['-', '-'] ∉ pre) :
    createIO (pre ++ ['-', '-'] :: tail) debug = createIO pre debug := by
  apply io_depends_on_membership
  intro t
  simp only [hasTok, Props.C08.option_tokens_cut pre tail h, Props.C08.option_tokens_all pre h]

theorem help_after_dashes (pre tail : List Str) (h : ['-', '-'] ∉ pre) :
    helpSwitch (pre ++ ['-', '-'] :: tail) = helpSwitch pre := by
  have : hasTok (pre ++ ['-', '-'] :: tail) = hasTok pre := by
    funext t
    simp only [hasTok, Props.C08.option_tokens_cut pre tail h, Props.C08.option_tokens_all pre h]
  simp only [helpSwitch, this]

/-- quiet iff `--quiet` or `-q` is among the option tokens -/
theorem quiet_iff (ts : List Str) (debug : Bool) :
    (createIO ts debug).quiet = true ↔ ("--quiet".toList ∈ optionTokens ts ∨ "-q".toList ∈ optionTokens ts) := by
  simp [createIO, quiet, hasTok]

/-- questions are answered by their defaults iff `--no-interaction` or `-n` is among the option tokens -/
theorem no_interaction_iff (ts : List Str) (debug : Bool) :
    (createIO ts debug).interactive = false ↔
      ("--no-interaction".toList ∈ optionTokens ts ∨ "-n".toList ∈ optionTokens ts) := by
  simp only [createIO, interactionOff, hasTok]
  cases h1 : (optionTokens ts).contains "--no-interaction".toList <;>
    cases h2 : (optionTokens ts).contains "-n".toList <;> simp_all

/-- the three verbosity switches select the three levels; the most verbose one present wins;
without any the level is NORMAL (unless the configuration is in debug mode) -/
theorem verbosity_levels (ts : List Str) :
    let v := (createIO ts false).verbosity
    ("-vvv".toList ∈ optionTokens ts → v = Gen.IOFlags.DEBUG) ∧
    ("-vvv".toList ∉ optionTokens ts → "-vv".toList ∈ optionTokens ts → v = Gen.IOFlags.VERY_VERBOSE) ∧
    ("-vvv".toList ∉ optionTokens ts → "-vv".toList ∉ optionTokens ts → "-v".toList ∈ optionTokens ts →
      v = Gen.IOFlags.VERBOSE) ∧
    ("-vvv".toList ∉ optionTokens ts → "-vv".toList ∉ optionTokens ts → "-v".toList ∉ optionTokens ts →
      v = Gen.IOFlags.NORMAL) := by
  simp only [createIO, verbosity, hasTok, Bool.or_false]
  refine ⟨?_, ?_, ?_, ?_⟩ <;> intros <;> simp_all

/-- the levels are the ones C10's gate distinguishes: raising the switch never hides anything -/
theorem verbosity_monotone_output (ts ts' : List Str) (f : Option Nat)
    (h : (createIO ts false).verbosity ≤ (createIO ts' false).verbosity)
    (hw : Gen.mayWrite false (createIO ts false).verbosity f = true) :
    Gen.mayWrite false (createIO ts' false).verbosity f = true :=
  Props.C10.mayWrite_mono_verbosity false _ _ f h hw

/-- `--no-ansi` removes decoration, whatever else is given; `--ansi` (without `--no-ansi`)
forces it on any stream; otherwise the stream's capability decides -/
theorem ansi_precedence (ts : List Str) (debug : Bool) :
    ("--no-ansi".toList ∈ optionTokens ts → (createIO ts debug).ansi = .off) ∧
    ("--no-ansi".toList ∉ optionTokens ts → "--ansi".toList ∈ optionTokens ts → (createIO ts debug).ansi = .forced) ∧
    ("--no-ansi".toList ∉ optionTokens ts → "--ansi".toList ∉ optionTokens ts → (createIO ts debug).ansi = .auto) := by
  simp only [createIO, ansiMode, hasTok]
  refine ⟨?_, ?_, ?_⟩ <;> intros <;> simp_all

/-- **Quiet suppresses all output of the run, including the error report**: every write of a quiet
output is dropped by the gate, whatever its flags and the verbosity (composition with C10) -/
theorem quiet_silences_run (ts : List Str) (debug : Bool) (h : (createIO ts debug).quiet = true)
    (writes : List (Option Nat)) :
    ∀ f ∈ writes, Gen.mayWrite (createIO ts debug).quiet (createIO ts debug).verbosity f = false := by
  intro f _
  rw [h]
  exact Props.C10.quiet_writes_nothing _ f

/-- the help switch is recognised iff `-h` or `--help` is among the option tokens -/
theorem help_switch_iff (ts : List Str) :
    helpSwitch ts = true ↔ ("-h".toList ∈ optionTokens ts ∨ "--help".toList ∈ optionTokens ts) := by
  simp [helpSwitch, helpRequested, hasTok]

/-- **The version switch**: when the parsed args have the version option set, the run ends with
status 0 and the command's handler is not invoked (composition with C04's run model) -/
theorem version_switch (debug : Bool) (h : Run.Outcome) (render : Run.Exc → Bool) :
    let r := Run.run debug (.ok ()) [versionListener true] h render
    r.status = some 0 ∧ r.handlerCalls = 0 ∧ r.escaped = none := by
  simp [Run.run, Run.attempt, Run.handle, Run.doHandle, Run.dispatchPre, versionListener, Run.normalize,
    Run.conclude]

/-- ... and when it is not set the listener is inert -/
theorem version_absent (debug : Bool) (h : Run.Outcome) (render : Run.Exc → Bool) :
    Run.run debug (.ok ()) [versionListener false] h render = Run.run debug (.ok ()) [] h render := by
  simp [Run.run, Run.attempt, Run.handle, Run.doHandle, Run.dispatchPre, versionListener]

/-! Non-vacuity -/
example : createIO ["cmd".toList, "-q".toList, "-vv".toList, "--".toList, "--no-ansi".toList] false
    = { ansi := .auto, verbosity := 2, quiet := true, interactive := true } := by decide
example : helpSwitch ["cmd".toList, "--".toList, "-h".toList] = false := by decide
example : helpSwitch ["cmd".toList, "-h".toList] = true := by decide

end Clikit.Props.C09
