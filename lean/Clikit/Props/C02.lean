import Clikit.Lemmas.ParserInv
import Clikit.Lemmas.Spelling
import Clikit.Lemmas.Realign
import Clikit.Lemmas.ParserWF
/-!
# C02 - malformed command lines are rejected with the documented errors and only those

Theorems about the parser model `Clikit.Parser.parse` (all formats, all token lists, both modes).
The model carries an explicit `.other` error at every partial Python operation and a fuel-indexed
token loop, so the statements below are obligations about guards and termination.
-/
namespace Clikit.Props.C02
open Clikit Clikit.Parser

/-- **Termination**: the token loop never runs out of fuel (`fuel = number of tokens + 1`):
every iteration pops a token, and look-ahead only pushes back what it popped. -/
theorem parse_terminates (cv : Conv) (f : Fmt) (lenient : Bool) (toks : List Str) :
    parse cv f lenient toks ≠ .error .outOfFuel := by
  intro h
  rcases parseFromR_err _ _ _ _ _ _ _ _ h with ⟨_, h1 | h1⟩ | h1 | h1 | ⟨t, h1⟩ <;> cases h1

/-- Every way a parse can fail, for EVERY format (even ill-formed ones): the two parse errors
(strict mode only), `ValueError` from a conversion, or an error of the partial operations the
code performs (`no_foreign_exception` below shows the latter cannot happen for real formats). -/
theorem errors_classified (cv : Conv) (f : Fmt) (lenient : Bool) (toks : List Str) (e : Err)
    (h : parse cv f lenient toks = .error e) :
    (lenient = false ∧ (e = .cannotParse ∨ e = .noSuchOption)) ∨ e = .valueError
      ∨ e = .noSuchArgument ∨ ∃ t, e = .other t := by
  rcases parseFromR_err _ _ _ _ _ _ _ _ h with h1 | h1 | h1 | h1
  · exact Or.inl h1
  · exact Or.inr (Or.inr (Or.inl h1))
  · exact Or.inr (Or.inl h1)
  · exact Or.inr (Or.inr (Or.inr h1))

/-- **In lenient mode neither parse error is ever raised** - for every format and token list. -/
theorem lenient_never_parse_error (cv : Conv) (f : Fmt) (toks : List Str) :
    parse cv f true toks ≠ .error .cannotParse ∧ parse cv f true toks ≠ .error .noSuchOption := by
  constructor <;> intro h <;>
    rcases parseFromR_err _ _ _ _ _ _ _ _ h with ⟨h0, _⟩ | h1 | h1 | ⟨t, h1⟩ <;>
    first | cases h0 | cases h1

/-- **Whenever strict parsing succeeds, lenient parsing returns the identical result.** -/
theorem strict_ok_lenient_same (cv : Conv) (f : Fmt) (toks : List Str) (a : Args)
    (h : parse cv f false toks = .ok a) : parse cv f true toks = .ok a :=
  parseFromR_strict_lenient _ _ _ _ _ _ _ h

/-- **No other kind of exception escapes**: for every well-formed format (unique argument names,
options in the C07 normal form, defaults of optional-value options convertible inside the model),
every token list and both modes, a parse either succeeds or ends in the cannot-parse error, the
no-such-option error or `ValueError`.  The model has an explicit foreign error at every partial
operation of the code (`token[0]`, negative list indices, `.append` on a string, unpacking `None`,
conversion of an unexpected Python type), so this is a statement about the guards in the code:
it needs the invariants `ArgsInv`/`OptsInv` of the scratch dictionaries through the token loop and
through the re-alignment against omitted command names. -/
theorem no_foreign_exception (cv : Conv) (f : Fmt) (hwf : FmtWF cv f) (lenient : Bool) (toks : List Str) :
    (∃ a, parse cv f lenient toks = .ok a) ∨ parse cv f lenient toks = .error .cannotParse
      ∨ parse cv f lenient toks = .error .noSuchOption ∨ parse cv f lenient toks = .error .valueError := by
  cases h : parse cv f lenient toks with
  | ok a => exact Or.inl ⟨a, rfl⟩
  | error e =>
    have h' : (parseFromR true true St.empty cv f lenient toks).1 = .error e := h
    rcases parseFromR_noForeign hwf _ _ _ h' with h1 | h1 | h1 <;> subst h1 <;> simp

/-- ... and in lenient mode only `ValueError` is left. -/
theorem lenient_only_value_error (cv : Conv) (f : Fmt) (hwf : FmtWF cv f) (toks : List Str) :
    (∃ a, parse cv f true toks = .ok a) ∨ parse cv f true toks = .error .valueError := by
  rcases no_foreign_exception cv f hwf true toks with h | h | h | h
  · exact Or.inl h
  · exact absurd h (lenient_never_parse_error cv f toks).1
  · exact absurd h (lenient_never_parse_error cv f toks).2
  · exact Or.inr h

/-- Why the guard `c > 0` of the D24 repair is needed: for a Python `int`, `has_argument(-1)` is
true on a format without arguments and `get_argument(-1)` then indexes an empty list. -/
theorem d24_guard_needed : hasArgAt [] (-1) = true ∧ getArgAt [] (-1) = .error (.other "IndexError") := by
  constructor <;> rfl

/-! ## Single faults after a well-formed prefix

`SpellsPrefix f next toks sems` (Lemmas/Spelling.lean): `toks` spell the items `sems` and stand
before `next`.  If the items are accepted, a fault at the first token of `next` is rejected in
strict mode with exactly the documented error, and lenient mode continues from the state reached
before the fault (what C02 calls "never raises a parse error"). -/

/-- how `parse()` ends when the token loop stops with a parse error at state `σ'` -/
theorem parse_of_loop_error (cv : Conv) (f : Fmt) (len : Bool) (line : List Str) (e : Err) (σ' : St)
    (hl : loopF f len line true St.empty = .error (e, σ')) (he : e = .cannotParse ∨ e = .noSuchOption) :
    parse cv f len line = if len then (finish cv f true σ').1 else .error e := by
  unfold loopF at hl
  show (parseFromR true true St.empty cv f len line).1 = _
  unfold parseFromR
  simp only [if_true]
  have h0 : ({ args := [], opts := [] } : St) = St.empty := rfl
  rw [h0, hl]
  cases len with
  | false => simp [afterLoop]
  | true => rcases he with h | h <;> subst h <;> simp [afterLoop]

/-- **Unknown long option** (`--name` or `--name=value`, name not in the format): no-such-option -/
theorem fault_unknown_long (cv : Conv) (f : Fmt) (len : Bool) {toks rest : List Str} {sems : List Sem} (name : Str)
    (hn : name ≠ []) (hunk : f.getOpt? (splitEq name).1 = none) (hunk' : f.getOpt? name = none)
    (hp : SpellsPrefix f (('-' :: '-' :: name) :: rest) toks sems) (σ' : St)
    (hrun : runSems f len sems St.empty = .ok σ') :
    parse cv f len (toks ++ ('-' :: '-' :: name) :: rest) =
      if len then (finish cv f true σ').1 else .error .noSuchOption := by
  apply parse_of_loop_error cv f len _ .noSuchOption σ' _ (Or.inr rfl)
  apply loop_prefix_error f len hp St.empty σ' .noSuchOption _ rest rfl hrun
  rw [step_long f len name rest σ' hn]
  unfold parseLong
  cases hs : splitEq name with
  | mk a b =>
    rw [hs] at hunk
    cases b with
    | some v => simp [addLong, hunk]
    | none => simp [addLong, hunk']

/-- **A value attached to a flag** (`--flag=value`): cannot-parse -/
theorem fault_value_for_flag (cv : Conv) (f : Fmt) (len : Bool) {toks rest : List Str} {sems : List Sem} (o : Opt) (v : Str)
    (hl : LongOK f o) (hflag : o.accepts = false)
    (hp : SpellsPrefix f ((dd ++ o.long ++ '=' :: v) :: rest) toks sems) (σ' : St)
    (hrun : runSems f len sems St.empty = .ok σ') :
    parse cv f len (toks ++ (dd ++ o.long ++ '=' :: v) :: rest) =
      if len then (finish cv f true σ').1 else .error .cannotParse := by
  obtain ⟨h1, h2, h3⟩ := hl
  apply parse_of_loop_error cv f len _ .cannotParse σ' _ (Or.inl rfl)
  apply loop_prefix_error f len hp St.empty σ' .cannotParse _ rest rfl hrun
  have hn : o.long ++ '=' :: v ≠ [] := by simp
  simp only [dd, List.cons_append, List.nil_append, step_long f len (o.long ++ '=' :: v) rest σ' hn]
  unfold parseLong
  simp [splitEq_eq o.long v h2, addLong, h1, hflag]

/-- **A required option value left out** (`--name` with nothing usable after it, or `--name=`):
cannot-parse -/
theorem fault_required_value_missing (cv : Conv) (f : Fmt) (len : Bool) {toks rest : List Str} {sems : List Sem} (o : Opt)
    (hl : LongOK f o) (hreq : o.valReq = true) (hstop : stopsValue rest = true)
    (hp : SpellsPrefix f ((dd ++ o.long) :: rest) toks sems) (σ' : St)
    (hrun : runSems f len sems St.empty = .ok σ') :
    parse cv f len (toks ++ (dd ++ o.long) :: rest) =
      if len then (finish cv f true σ').1 else .error .cannotParse := by
  obtain ⟨h1, h2, h3⟩ := hl
  apply parse_of_loop_error cv f len _ .cannotParse σ' _ (Or.inl rfl)
  apply loop_prefix_error f len hp St.empty σ' .cannotParse _ rest rfl hrun
  simp only [dd, List.cons_append, List.nil_append, step_long f len o.long rest σ' h3,
    parseLong_bare f o.long o rest σ' h2 h1 (Or.inr hstop)]
  simp [contOpt, storeOpt, hreq]

/-- **Unknown short option** (`-x…`, x not a short name of the format): no-such-option -/
theorem fault_unknown_short (cv : Conv) (f : Fmt) (len : Bool) {toks rest : List Str} {sems : List Sem} (c : Char) (r : Str)
    (hc : c ≠ '-') (hunk : f.getOpt? [c] = none)
    (hp : SpellsPrefix f (('-' :: c :: r) :: rest) toks sems) (σ' : St)
    (hrun : runSems f len sems St.empty = .ok σ') :
    parse cv f len (toks ++ ('-' :: c :: r) :: rest) =
      if len then (finish cv f true σ').1 else .error .noSuchOption := by
  apply parse_of_loop_error cv f len _ .noSuchOption σ' _ (Or.inr rfl)
  apply loop_prefix_error f len hp St.empty σ' .noSuchOption _ rest rfl hrun
  rw [step_short f len c r rest σ' hc]
  unfold parseShort
  cases r with
  | nil => simp [addShort, hunk]
  | cons d ds => simp [hunk, parseShortSet]

/-- **A surplus positional**: after ANY well-formed prefix, a positional token for which the
format has no argument left (as many positionals as arguments were given already and the last
argument is not multi-valued) is rejected with cannot-parse in strict mode ("too many arguments") -/
theorem fault_surplus_positional (cv : Conv) (f : Fmt) (hml : MultiLast f.fargs) (hnd : (f.fargs.map (·.key)).Nodup)
    {toks rest : List Str} {sems : List Sem} (t : Str) (ht : posLike t = true)
    (hp : SpellsPrefix f (t :: rest) toks sems) (σ' : St)
    (hrun : runSems f false sems St.empty = .ok σ')
    (hfull : fits ((posVals sems).length + 1) f.fargs = false) :
    parse cv f false (toks ++ t :: rest) = .error .cannotParse := by
  have h := parse_of_loop_error cv f false (toks ++ t :: rest) .cannotParse σ' ?_ (Or.inl rfl)
  · simpa using h
  apply loop_prefix_error f false hp St.empty σ' .cannotParse t rest rfl hrun
  rw [step_pos f false t rest σ' ht]
  have hargs := runSems_fill f hml hnd false sems [] [] σ' (by simpa [St.empty, fill_nil_left] using hrun)
  have hσ : σ' = { args := fill (posVals sems) f.fargs, opts := σ'.opts } := by
    cases σ'
    simp only [List.nil_append] at hargs
    simp only at hargs ⊢
    subst hargs
    rfl
  rw [hσ, parseArgument_fill hml hnd]
  simp [hfull, cont]

/-- **A required argument left out**: when the items are accepted and a required argument of
the format has no value after the re-alignment, strict mode rejects with cannot-parse -/
theorem fault_missing_required (cv : Conv) (f : Fmt) (σ1 σ2 : St)
    (hins : insertMissing f false σ1 = .ok σ2) (hmiss : (missingArgs f σ2).isEmpty = false) :
    (finish cv f false σ1).1 = .error .cannotParse := by
  simp [finish, hins, hmiss]

/-! Non-vacuity: a strict success, and a line rejected strictly but accepted leniently. -/
def fmt1 : Fmt :=
  { cmds := [], args := [{ name := "a".toList, required := true, multi := false, ty := .string,
                            nullable := false, default := .scalar .none }],
    opts := [{ long := "foo".toList, short := some "f".toList, accepts := false, valReq := false,
               valOpt := false, multi := false, ty := .string, nullable := false, default := .scalar .none }] }
def cv0 : Conv := { intOf := fun _ => none, floatOf := fun _ => none }

example : parse cv0 fmt1 false ["-f".toList, "x".toList]
    = .ok { args := [("a".toList, .scalar (.str "x".toList))], opts := [("foo".toList, .scalar (.bool true))] } := rfl
example : parse cv0 fmt1 false ["--nope".toList, "x".toList] = .error .noSuchOption := rfl
example : parse cv0 fmt1 true ["--nope".toList, "x".toList] = .ok { args := [], opts := [] } := rfl
example : parse cv0 fmt1 false [] = .error .cannotParse := rfl


/-- the example format satisfies the well-formedness hypothesis of `no_foreign_exception` -/
example : FmtWF cv0 fmt1 :=
  { argNames := by decide
    optModes := by intro o ho; simp [fmt1] at ho; subst ho; simp
    defaults := by intro o ho; simp [fmt1] at ho; subst ho; simp }

/-! ## The hypotheses about the format are decided by the model on every real format

`FmtWF`, `LongOK`, `MultiLast` and the distinctness of the argument keys are facts about the format
object the REAL builder produced.  The executable checks `fmtWFB`, `allLongOKB` (Model/ParserWF.lean)
and `multiLastB` (Model/Parser.lean) decide them; the driver evaluates the checks on every flattened
format of the correspondence (entry `c02.wf`) and the harness compares the answers with `true`, so a
built format violating one of them is reported as a disagreement.  The corollaries below restate the
theorems with the decided form of the hypotheses. -/

/-- **The checks decide the hypotheses.** -/
theorem wf_decides (cv : Conv) (f : Fmt) :
    (fmtWFB cv f = true ↔ FmtWF cv f) ∧ (allLongOKB f = true ↔ ∀ o ∈ f.opts, LongOK f o) ∧
    (multiLastB f.fargs = true ↔ MultiLast f.fargs) :=
  ⟨fmtWFB_iff cv f, allLongOKB_iff f, multiLastB_iff _⟩

/-- the options spelled by their short names in a well-formed prefix (`ShortOK` inside `Spells`):
a format that passes `allLongOKB` and `allShortOKB` finds every option under its one-character short name -/
theorem wf_short_names (f : Fmt) (hl : allLongOKB f = true) (hs : allShortOKB f = true) :
    ∀ o ∈ f.opts, ∀ s, o.short = some s → ∃ c, s = [c] ∧ ShortOK f o c :=
  allShortOKB_sound f hl hs

/-- distinct argument names give distinct keys of the flattened format (pseudo-arguments included) -/
theorem wf_keys_nodup (cv : Conv) (f : Fmt) (hwf : fmtWFB cv f = true) : (f.fargs.map (·.key)).Nodup :=
  fargs_nodup ((fmtWFB_iff cv f).mp hwf).argNames

/-- `no_foreign_exception` with the decided hypothesis -/
theorem no_foreign_exception_decided (cv : Conv) (f : Fmt) (hwf : fmtWFB cv f = true) (lenient : Bool)
    (toks : List Str) :
    (∃ a, parse cv f lenient toks = .ok a) ∨ parse cv f lenient toks = .error .cannotParse
      ∨ parse cv f lenient toks = .error .noSuchOption ∨ parse cv f lenient toks = .error .valueError :=
  no_foreign_exception cv f ((fmtWFB_iff cv f).mp hwf) lenient toks

/-- `lenient_only_value_error` with the decided hypothesis -/
theorem lenient_only_value_error_decided (cv : Conv) (f : Fmt) (hwf : fmtWFB cv f = true) (toks : List Str) :
    (∃ a, parse cv f true toks = .ok a) ∨ parse cv f true toks = .error .valueError :=
  lenient_only_value_error cv f ((fmtWFB_iff cv f).mp hwf) toks

/-- `fault_value_for_flag` for ANY flag of a format that passes the check -/
theorem fault_value_for_flag_decided (cv : Conv) (f : Fmt) (hok : allLongOKB f = true) (len : Bool)
    {toks rest : List Str} {sems : List Sem} (o : Opt) (ho : o ∈ f.opts) (v : Str) (hflag : o.accepts = false)
    (hp : SpellsPrefix f ((dd ++ o.long ++ '=' :: v) :: rest) toks sems) (σ' : St)
    (hrun : runSems f len sems St.empty = .ok σ') :
    parse cv f len (toks ++ (dd ++ o.long ++ '=' :: v) :: rest) =
      if len then (finish cv f true σ').1 else .error .cannotParse :=
  fault_value_for_flag cv f len o v ((allLongOKB_iff f).mp hok o ho) hflag hp σ' hrun

/-- `fault_required_value_missing` for ANY required-value option of a format that passes the check -/
theorem fault_required_value_missing_decided (cv : Conv) (f : Fmt) (hok : allLongOKB f = true) (len : Bool)
    {toks rest : List Str} {sems : List Sem} (o : Opt) (ho : o ∈ f.opts) (hreq : o.valReq = true)
    (hstop : stopsValue rest = true) (hp : SpellsPrefix f ((dd ++ o.long) :: rest) toks sems) (σ' : St)
    (hrun : runSems f len sems St.empty = .ok σ') :
    parse cv f len (toks ++ (dd ++ o.long) :: rest) =
      if len then (finish cv f true σ').1 else .error .cannotParse :=
  fault_required_value_missing cv f len o ((allLongOKB_iff f).mp hok o ho) hreq hstop hp σ' hrun

/-- `fault_surplus_positional` with the decided hypotheses (the distinct keys follow from `fmtWFB`) -/
theorem fault_surplus_positional_decided (cv : Conv) (f : Fmt) (hwf : fmtWFB cv f = true)
    (hml : multiLastB f.fargs = true) {toks rest : List Str} {sems : List Sem} (t : Str) (ht : posLike t = true)
    (hp : SpellsPrefix f (t :: rest) toks sems) (σ' : St)
    (hrun : runSems f false sems St.empty = .ok σ')
    (hfull : fits ((posVals sems).length + 1) f.fargs = false) :
    parse cv f false (toks ++ t :: rest) = .error .cannotParse :=
  fault_surplus_positional cv f ((multiLastB_iff _).mp hml) (wf_keys_nodup cv f hwf) t ht hp σ' hrun hfull

/-! ## Non-vacuity of every theorem above that has hypotheses

`fmt2`: one required argument `a`, a flag `--foo`/`-f`, a required-value option `--bar`/`-b`, an
optional-value INTEGER option `--num` with default `3`.  Each example discharges ALL hypotheses of the
theorem it applies on a concrete line. -/
def oFoo : Opt := { long := "foo".toList, short := some "f".toList, accepts := false, valReq := false,
                    valOpt := false, multi := false, ty := .string, nullable := false, default := .scalar .none }
def oBar : Opt := { long := "bar".toList, short := some "b".toList, accepts := true, valReq := true,
                    valOpt := false, multi := false, ty := .string, nullable := false, default := .scalar .none }
def oNum : Opt := { long := "num".toList, short := none, accepts := true, valReq := false,
                    valOpt := true, multi := false, ty := .integer, nullable := false, default := .scalar (.int 3) }
def fmt2 : Fmt :=
  { cmds := [], args := [{ name := "a".toList, required := true, multi := false, ty := .string,
                            nullable := false, default := .scalar .none }],
    opts := [oFoo, oBar, oNum] }

/-- the prefix `x` of the faulty lines below, and the state it leaves -/
def σx : St := { args := [(.real "a".toList, .one (.tok "x".toList))], opts := [] }
theorem prefix_x (next : List Str) : SpellsPrefix fmt2 next ["x".toList] [.pos "x".toList] :=
  SpellsPrefix.cons (toks' := []) (sems' := []) (.pos rfl) .nil

/-- all decided hypotheses hold for `fmt2` (evaluated by the kernel) -/
theorem fmt2_wf : fmtWFB cv0 fmt2 = true ∧ allLongOKB fmt2 = true ∧ multiLastB fmt2.fargs = true := by decide
example : ∃ c, "f".toList = [c] ∧ ShortOK fmt2 oFoo c :=
  wf_short_names fmt2 fmt2_wf.2.1 (by decide) oFoo (by decide) _ rfl

example : FmtWF cv0 fmt2 := (wf_decides cv0 fmt2).1.mp fmt2_wf.1

/-- `errors_classified` / `strict_ok_lenient_same`: their hypothesis is an equation that holds here -/
example : (false = false ∧ (Err.noSuchOption = .cannotParse ∨ Err.noSuchOption = .noSuchOption)) ∨
    Err.noSuchOption = .valueError ∨ Err.noSuchOption = .noSuchArgument ∨ ∃ t, Err.noSuchOption = .other t :=
  errors_classified cv0 fmt2 false ["--nope".toList] .noSuchOption rfl
def argsXF : Args :=
  { args := [("a".toList, .scalar (.str "x".toList))], opts := [("foo".toList, .scalar (.bool true))] }
example : parse cv0 fmt2 true ["x".toList, "-f".toList] = .ok argsXF :=
  strict_ok_lenient_same cv0 fmt2 ["x".toList, "-f".toList] argsXF rfl

/-- `no_foreign_exception_decided` / `lenient_only_value_error_decided` on a line that fails to convert -/
example : (∃ a, parse cv0 fmt2 true ["x".toList, "--num=zz".toList] = .ok a) ∨
    parse cv0 fmt2 true ["x".toList, "--num=zz".toList] = .error .valueError :=
  lenient_only_value_error_decided cv0 fmt2 fmt2_wf.1 _
example : parse cv0 fmt2 true ["x".toList, "--num=zz".toList] = .error .valueError := rfl

/-- `parse_of_loop_error` -/
example : parse cv0 fmt2 false ["x".toList, "--nope".toList] = .error .noSuchOption := by
  simpa using parse_of_loop_error cv0 fmt2 false ["x".toList, "--nope".toList] .noSuchOption σx rfl (Or.inr rfl)

/-- `fault_unknown_long`: `x --nope` -/
example : parse cv0 fmt2 false ["x".toList, "--nope".toList] = .error .noSuchOption := by
  simpa using fault_unknown_long cv0 fmt2 false "nope".toList (by decide) rfl rfl (prefix_x _) σx rfl

/-- ... and lenient mode continues from the state before the fault -/
example : parse cv0 fmt2 true ["x".toList, "--nope".toList] = (finish cv0 fmt2 true σx).1 := by
  simpa using fault_unknown_long cv0 fmt2 true "nope".toList (by decide) rfl rfl (prefix_x _) σx rfl

/-- `fault_unknown_short`: `x -Yq` -/
example : parse cv0 fmt2 false ["x".toList, "-Yq".toList] = .error .noSuchOption := by
  simpa using fault_unknown_short cv0 fmt2 false 'Y' "q".toList (by decide) rfl (prefix_x _) σx rfl

/-- `fault_value_for_flag_decided`: `x --foo=v` -/
example : parse cv0 fmt2 false ["x".toList, "--foo=v".toList] = .error .cannotParse :=
  fault_value_for_flag_decided cv0 fmt2 fmt2_wf.2.1 false oFoo (by decide) "v".toList rfl (prefix_x _) σx rfl

/-- `fault_required_value_missing_decided`: `x --bar` at the end of the line -/
example : parse cv0 fmt2 false ["x".toList, "--bar".toList] = .error .cannotParse :=
  fault_required_value_missing_decided cv0 fmt2 fmt2_wf.2.1 false oBar (by decide) rfl rfl (prefix_x _) σx rfl

/-- `fault_surplus_positional_decided`: `x y` on a format with one argument -/
example : parse cv0 fmt2 false ["x".toList, "y".toList] = .error .cannotParse := by
  simpa using fault_surplus_positional_decided cv0 fmt2 fmt2_wf.1 fmt2_wf.2.2 "y".toList rfl
    (prefix_x _) σx rfl (by decide)

/-- `fault_missing_required`: the empty line leaves the required argument `a` without a value -/
example : (finish cv0 fmt2 false St.empty).1 = .error .cannotParse :=
  fault_missing_required cv0 fmt2 St.empty St.empty rfl (by decide)

/-- a format the check REJECTS: a float default on an INTEGER optional-value option is outside the
model (`int(2.5)`), and the rejection is not vacuous caution - the model does answer with its
foreign error there -/
def fmtBad : Fmt := { fmt2 with opts := [{ oNum with default := .scalar (.float "2.5".toList) }] }
example : fmtWFB cv0 fmtBad = false := by decide
example : parse cv0 fmtBad false ["x".toList, "--num".toList]
    = .error (.other "float-input-to-int-not-modelled") := rfl

end Clikit.Props.C02
