import Clikit.Lemmas.Question
/-!
# C18 - questions return only valid answers, count attempts exactly and terminate

Theorems about `Clikit.Question` (Model/Question.lean), the model of
`SelectChoiceValidator.validate`, `Question._validate_attempts` / `_do_ask` / `ask` and
`ConfirmationQuestion`'s normalizer as they are in /repo after the repair D22.  They hold
for **every** `int()` function `toInt`, every list of choices, every default, every script
of typed lines and every attempt limit - not only the scope the correspondence run enumerates.

Reading of the counters (DESIGN 4.3): with a limit of `n` attempts and `n` rejected lines the
loop prints the errors of lines `1 … n-1` (each at the start of the next pass) and *raises* the
`n`-th; so `errors = n - 1`.
-/
namespace Clikit.Props.C18
open Clikit Clikit.Question

section
variable (toInt : Str → Option Int) (choices : List Str)

/-! ### only members of the choices are returned -/

/-- The validator returns only members: a single member when single-select, a list of
members (one per comma-separated item) when multi-select. -/
theorem choice_member (multi : Bool) (answer : Option Str) (a : Answer)
    (h : validate toInt choices multi answer = .ok a) :
    a.within choices ∧ a.isMany = multi := by
  cases answer with
  | none => simp [validate_none] at h
  | some sel =>
    cases multi with
    | true =>
      rw [validate_multi] at h
      split at h
      · split at h
        · next cs hcs => cases h; exact ⟨validateAll_mem toInt choices hcs, rfl⟩
        · cases h
      · cases h
    | false =>
      rw [validate_single] at h
      split at h
      · next c hc => cases h; exact ⟨validateOne_mem toInt choices hc, rfl⟩
      · cases h

/-- The only exceptions the validator raises: `ValueError` (unknown, ambiguous, out of range,
malformed multi-select answer) and `AttributeError` for `None` (empty answer, no default).
In particular the index range test makes `IndexError` unreachable. -/
theorem validate_error_classes (multi : Bool) (answer : Option Str) (e : Err)
    (h : validate toInt choices multi answer = .error e) :
    e = .valueError ∨ (answer = none ∧ e = .other "AttributeError") := by
  cases answer with
  | none => rw [validate_none] at h; cases h; exact Or.inr ⟨rfl, rfl⟩
  | some sel =>
    left
    cases multi with
    | true =>
      rw [validate_multi] at h
      split at h
      · split at h
        · cases h
        · next e' he => cases h; exact validateAll_error toInt choices he
      · cases h; rfl
    | false =>
      rw [validate_single] at h
      split at h
      · cases h
      · next e' he => cases h; exact validateOne_error toInt choices he

/-- **What a valid entry is** (one item of the answer): it is accepted as `c` exactly when it
names a choice that occurs once (and `c` is that choice), or it is not a choice at all and
`int()` reads it as an index `0 ≤ i < len(choices)` (and `c = choices[i]`).  Everything else -
unknown text, an ambiguous (duplicated) value, a negative or out-of-range number - is
rejected. -/
theorem valid_entry_iff (v c : Str) :
    validateOne toInt choices v = .ok c ↔
      ((choices.filter (· == v)).length = 1 ∧ c = v) ∨
      (v ∉ choices ∧ ∃ i : Int, toInt v = some i ∧ 0 ≤ i ∧ i < (choices.length : Int) ∧
        choices[i.toNat]? = some c) := by
  constructor
  · intro h
    unfold validateOne at h
    split at h
    · cases h
    · next hcount =>
      split at h
      · next c' hf =>
        cases h
        have hcv : c = v := by simpa using List.find?_some hf
        subst hcv
        have hmem : c ∈ choices.filter (· == c) :=
          List.mem_filter.mpr ⟨List.mem_of_find?_eq_some hf, by simp⟩
        have : 0 < (choices.filter (· == c)).length := List.length_pos_of_mem hmem
        exact Or.inl ⟨by omega, rfl⟩
      · next hf =>
        have hnot : v ∉ choices := by
          intro hm
          have := List.find?_eq_none.mp hf v hm
          simp at this
        split at h
        · cases h
        · next i hi =>
          split at h
          · next hr =>
            split at h
            · next c' hg => cases h; exact Or.inr ⟨hnot, i, hi, hr.1, hr.2, hg⟩
            · cases h
          · cases h
  · rintro (⟨huniq, rfl⟩ | ⟨hnot, i, hi, h0, hlt, hg⟩)
    · exact validateOne_value toInt choices huniq
    · have hi' : i.toNat < choices.length := by omega
      have hcast : toInt v = some ((i.toNat : Nat) : Int) := by
        rw [Int.toNat_of_nonneg h0]; exact hi
      rw [validateOne_index toInt choices hi' hnot hcast]
      rw [List.getElem?_eq_getElem hi'] at hg
      simpa using hg

end

section
variable (toInt : Str → Option Int) (choices : List Str) (multi : Bool) (default : Option Str)

/-- Whatever is typed, under every limit: an interactive choice question that returns,
returns a member (a list of members when multi-select). -/
theorem ask_member (limit : Option Nat) (script : List Str) (eof : Bool) (a : Answer)
    (h : (ask toInt choices multi default limit true script eof).result = .value a) :
    a.within choices ∧ a.isMany = multi := by
  simp only [ask, if_true] at h
  suffices ∀ (script : List Str) (att : Option Nat) (err : Option Err),
      (askLoop toInt choices multi default eof script att err).result = .value a →
      a.within choices ∧ a.isMany = multi from this script limit none h
  intro script
  induction script with
  | nil =>
    intro att err h
    by_cases hatt : att = some 0
    · subst hatt; simp [askLoop_zero, raiseLast] at h
    cases hp : promptCheck toInt choices multi default with
    | error e => simp [askLoop_prompt_error toInt choices multi default eof [] att err e hatt hp] at h
    | ok u =>
      cases u
      rw [askLoop_nil toInt choices multi default eof att err hatt hp] at h
      cases eof <;> simp at h
  | cons line rest ih =>
    intro att err h
    by_cases hatt : att = some 0
    · subst hatt; simp [askLoop_zero, raiseLast] at h
    cases hp : promptCheck toInt choices multi default with
    | error e =>
      simp [askLoop_prompt_error toInt choices multi default eof (line :: rest) att err e hatt hp] at h
    | ok u =>
      cases u
      cases hl : lineResult toInt choices multi default line with
      | ok a' =>
        rw [askLoop_cons_ok toInt choices multi default eof line rest att err a' hatt hp hl] at h
        simp only [Result.value.injEq] at h
        subst h
        exact choice_member toInt choices multi _ _ hl
      | error e =>
        rw [askLoop_cons_error toInt choices multi default eof line rest att err e hatt hp hl] at h
        exact ih _ _ (by simpa using h)

/-! ### an index and the value it denotes are interchangeable -/

/-- If `choices[i]` occurs once in the list and the text `txt` that `int()` reads as `i` is
not itself a choice, then answering `txt` and answering `choices[i]` select the same
member, `choices[i]` (single-select; the validator sees the answer as typed). -/
theorem index_value_interchangeable (i : Nat) (txt : Str) (hi : i < choices.length)
    (huniq : (choices.filter (· == choices[i])).length = 1)
    (hnot : txt ∉ choices) (hint : toInt txt = some (i : Int)) :
    validate toInt choices false (some txt) = .ok (.one choices[i]) ∧
    validate toInt choices false (some choices[i]) = .ok (.one choices[i]) := by
  simp [validate, validateOne_index toInt choices hi hnot hint,
    validateOne_value toInt choices huniq]

/-- The same through the whole question: typing the index or the value (a value that
survives the stripping of the line read, i.e. has no surrounding blanks and is not empty)
gives the same outcome. -/
theorem index_value_interchangeable_ask (i : Nat) (txt : Str) (hi : i < choices.length)
    (huniq : (choices.filter (· == choices[i])).length = 1)
    (hnot : txt ∉ choices) (hint : toInt txt = some (i : Int))
    (htxt : bytesStrip txt = txt) (htne : txt ≠ [])
    (hval : bytesStrip choices[i] = choices[i]) (hvne : choices[i] ≠ [])
    (hp : promptCheck toInt choices false default = .ok ())
    (limit : Option Nat) (hl : limit ≠ some 0) (rest : List Str) (eof : Bool) :
    ask toInt choices false default limit true (txt :: rest) eof = ⟨.value (.one choices[i]), 1, 0, 1⟩ ∧
    ask toInt choices false default limit true (choices[i] :: rest) eof =
      ⟨.value (.one choices[i]), 1, 0, 1⟩ := by
  have ⟨h1, h2⟩ := index_value_interchangeable toInt choices i txt hi huniq hnot hint
  have typed : ∀ v : Str, bytesStrip v = v → v ≠ [] → answerOf default v = some v := by
    intro v hv hne
    have : v.isEmpty = false := by cases v with | nil => exact absurd rfl hne | cons _ _ => rfl
    simp [answerOf, hv, this]
  have e1 : lineResult toInt choices false default txt = .ok (.one choices[i]) := by
    rw [lineResult, typed txt htxt htne, h1]
  have e2 : lineResult toInt choices false default choices[i] = .ok (.one choices[i]) := by
    rw [lineResult, typed _ hval hvne, h2]
  simp only [ask, if_true]
  rw [askLoop_cons_ok toInt choices false default eof txt rest limit none _ hl hp e1,
    askLoop_cons_ok toInt choices false default eof _ rest limit none _ hl hp e2]
  simp [printed]

/-- Instance for the model of CPython's `int()`: the text of `i` is its decimal numeral
(`str(i)`), and `pyInt (str i) = i`. -/
theorem index_value_interchangeable_pyInt (i : Nat) (hi : i < choices.length)
    (huniq : (choices.filter (· == choices[i])).length = 1)
    (hnot : Nat.toDigits 10 i ∉ choices) :
    validate pyInt choices false (some (Nat.toDigits 10 i)) = .ok (.one choices[i]) ∧
    validate pyInt choices false (some choices[i]) = .ok (.one choices[i]) :=
  index_value_interchangeable pyInt choices i _ hi huniq hnot (pyInt_toDigits i)

/-- word characters of the multi-select answer format, `[a-zA-Z0-9_-]+` -/
def Wordy (p : Str) : Prop := p ≠ [] ∧ ∀ c ∈ p, isWordChar c = true

/-- A well-formed multi-select answer `p1,p2,…` is validated item by item, in order. -/
theorem multi_componentwise (items : List Str) (hne : items ≠ []) (hw : ∀ p ∈ items, Wordy p) :
    validate toInt choices true (some (joinWith ',' items)) =
      (match validateAll toInt choices items with
       | .ok cs => .ok (.many cs)
       | .error e => .error e) := by
  -- every character of the answer is a word character or a comma
  have hchars : ∀ c ∈ joinWith ',' items, isWordChar c = true ∨ c = ',' := by
    clear hne
    induction items with
    | nil => simp [joinWith]
    | cons p rest ih =>
      cases rest with
      | nil => intro c hc; exact Or.inl ((hw p (by simp)).2 c (by simpa [joinWith] using hc))
      | cons q r =>
        intro c hc
        simp only [joinWith, List.mem_append, List.mem_cons] at hc
        rcases hc with hc | hc | hc
        · exact Or.inl ((hw p (by simp)).2 c hc)
        · exact Or.inr hc
        · exact ih (fun x hx => hw x (List.mem_cons_of_mem _ hx)) c hc
  have hnosp : (joinWith ',' items).filter (· != ' ') = joinWith ',' items := by
    apply List.filter_eq_self.mpr
    intro c hc
    rcases hchars c hc with h | h
    · simp only [bne_iff_ne, ne_eq]; intro e; subst e; simp [isWordChar] at h
    · subst h; decide
  have hnolf : (joinWith ',' items).getLast? ≠ some '\n' := by
    intro h
    rcases hchars _ (List.mem_of_getLast? h) with h' | h'
    · simp [isWordChar] at h'
    · simp at h'
  have hsplit : splitOn ',' (joinWith ',' items) = items := by
    apply splitOn_joinWith ',' items hne
    intro p hp hc
    have := (hw p hp).2 _ hc
    simp [isWordChar] at this
  have hfmt : multiFormatOk (joinWith ',' items) = true := by
    simp only [multiFormatOk, if_neg hnolf, hsplit, List.all_eq_true]
    intro p hp
    have ⟨h1, h2⟩ := hw p hp
    have : p.isEmpty = false := by cases p with | nil => exact absurd rfl h1 | cons _ _ => rfl
    simp only [this, Bool.not_false, Bool.true_and, List.all_eq_true]
    exact h2
  rw [validate_multi, hnosp, if_pos hfmt, hsplit]
  rfl

/-- Multi-select: inside a well-formed answer, an item may be given as the index text or as
the value it denotes - the selection is the same. -/
theorem index_value_interchangeable_multi (pre post : List Str) (i : Nat) (txt : Str)
    (hi : i < choices.length)
    (huniq : (choices.filter (· == choices[i])).length = 1)
    (hnot : txt ∉ choices) (hint : toInt txt = some (i : Int))
    (hw : ∀ p ∈ pre ++ post, Wordy p) (hwt : Wordy txt) (hwv : Wordy choices[i]) :
    validate toInt choices true (some (joinWith ',' (pre ++ txt :: post))) =
    validate toInt choices true (some (joinWith ',' (pre ++ choices[i] :: post))) := by
  have hall : validateAll toInt choices (pre ++ txt :: post) =
      validateAll toInt choices (pre ++ choices[i] :: post) := by
    clear hw
    induction pre with
    | nil =>
      simp [validateAll, validateOne_index toInt choices hi hnot hint,
        validateOne_value toInt choices huniq]
    | cons p ps ih => simp only [List.cons_append, validateAll, ih]
  have hw1 : ∀ p ∈ pre ++ txt :: post, Wordy p := by
    intro p hp
    simp only [List.mem_append, List.mem_cons] at hp
    rcases hp with hp | rfl | hp
    · exact hw p (List.mem_append_left _ hp)
    · exact hwt
    · exact hw p (List.mem_append_right _ hp)
  have hw2 : ∀ p ∈ pre ++ choices[i] :: post, Wordy p := by
    intro p hp
    simp only [List.mem_append, List.mem_cons] at hp
    rcases hp with hp | rfl | hp
    · exact hw p (List.mem_append_left _ hp)
    · exact hwv
    · exact hw p (List.mem_append_right _ hp)
  rw [multi_componentwise toInt choices _ (by simp) hw1,
    multi_componentwise toInt choices _ (by simp) hw2, hall]

/-! ### attempts are counted exactly -/

/-- An empty line (only blanks) stands for the default: it is validated as the default, and
rejected (`None` has no `replace`: `AttributeError`) when there is none. -/
theorem empty_line_is_default (line : Str) (h : bytesStrip line = []) :
    lineResult toInt choices multi default line = validate toInt choices multi default ∧
    lineResult toInt choices multi none line = .error (.other "AttributeError") := by
  simp [lineResult, answerOf, h, validate_none]

/-- the line is rejected by the validator (unknown, ambiguous, negative, out of range,
malformed, or empty without default) -/
def Rejected (line : Str) : Prop := ∃ e, lineResult toInt choices multi default line = .error e

/-- **Every invalid entry consumes exactly one attempt and prints one error.**  While
attempts remain, a run `bad` of rejected lines costs `|bad|` reads and `|bad|` prompts; the
dialogue continues on the rest of the script with `|bad|` fewer attempts and the last error
pending (it is printed at the start of the next pass, or raised when no attempt is left), the
`|bad| - 1` earlier ones having been printed. -/
theorem invalid_prefix (eof : Bool) (bad tail : List Str) (limit : Option Nat)
    (hp : promptCheck toInt choices multi default = .ok ())
    (hbad : ∀ l ∈ bad, Rejected toInt choices multi default l)
    (hlim : ∀ n, limit = some n → bad.length ≤ n) :
    ask toInt choices multi default limit true (bad ++ tail) eof =
      (askLoop toInt choices multi default eof tail (limit.map (· - bad.length))
        (lastErr (lineResult toInt choices multi default) none bad)).add
        bad.length (bad.length - 1) bad.length := by
  simp only [ask, if_true]
  rw [askLoop_invalid_prefix toInt choices multi default eof bad tail limit none hp hbad hlim]
  cases bad <;> simp [printed]

/-- **The question fails after exactly the configured number of attempts.**  Limit `n ≥ 1`,
the first `n` lines rejected (whatever follows, with or without end of input): exactly `n`
lines are read, `n` prompts and `n - 1` errors printed, and the error of the `n`-th line is
raised. -/
theorem attempts_exact_fail (eof : Bool) (bad : List Str) (last : Str) (rest : List Str) (e : Err)
    (hp : promptCheck toInt choices multi default = .ok ())
    (hbad : ∀ l ∈ bad, Rejected toInt choices multi default l)
    (hlast : lineResult toInt choices multi default last = .error e) :
    ask toInt choices multi default (some (bad.length + 1)) true (bad ++ last :: rest) eof =
      ⟨.error e, bad.length + 1, bad.length, bad.length + 1⟩ := by
  have hb : ∀ l ∈ bad ++ [last], Rejected toInt choices multi default l := by
    intro l hl
    rcases List.mem_append.mp hl with h | h
    · exact hbad l h
    · simp at h; subst h; exact ⟨e, hlast⟩
  have := invalid_prefix toInt choices multi default eof (bad ++ [last]) rest
    (some (bad.length + 1)) hp hb (by intro n hn; simp at hn; simp; omega)
  simp only [List.append_assoc, List.singleton_append] at this
  rw [this]
  simp [askLoop_zero, raiseLast, lastErr_append_single _ _ _ _ _ hlast, Outcome.add]

/-- With a limit of 0 attempts the loop is never entered: nothing is read or written and
`raise None` surfaces as a `TypeError`. -/
theorem attempts_zero (script : List Str) (eof : Bool) :
    ask toInt choices multi default (some 0) true script eof =
      ⟨.error (.other "TypeError"), 0, 0, 0⟩ := by
  simp [ask, askLoop_zero, raiseLast]

/-- **A valid line at position `j` (within the limit) is returned after consuming `j` lines
and printing `j - 1` errors**: `bad` are the `j - 1` rejected lines before it. -/
theorem attempts_exact_value (eof : Bool) (bad : List Str) (good : Str) (rest : List Str)
    (a : Answer) (limit : Option Nat)
    (hp : promptCheck toInt choices multi default = .ok ())
    (hbad : ∀ l ∈ bad, Rejected toInt choices multi default l)
    (hgood : lineResult toInt choices multi default good = .ok a)
    (hlim : ∀ n, limit = some n → bad.length < n) :
    ask toInt choices multi default limit true (bad ++ good :: rest) eof =
      ⟨.value a, bad.length + 1, bad.length, bad.length + 1⟩ := by
  rw [invalid_prefix toInt choices multi default eof bad (good :: rest) limit hp hbad
    (fun n hn => Nat.le_of_lt (hlim n hn))]
  have hatt : limit.map (· - bad.length) ≠ some 0 := by
    cases limit with
    | none => simp
    | some n => have := hlim n rfl; simp; omega
  rw [askLoop_cons_ok toInt choices multi default eof good rest _ _ a hatt hp hgood]
  cases bad with
  | nil => simp [Outcome.add, lastErr, printed]
  | cons b bs =>
    obtain ⟨e, he⟩ := lastErr_some_of_rejected (lineResult toInt choices multi default) none
      (b :: bs) (by simp) hbad
    simp [Outcome.add, he, printed]
    omega

/-! ### termination -/

/-- **The question gives up at end of input instead of asking for ever.**  For every script,
every limit (including none) and every state of the loop: at most `|script| + 1` reads are
made, no more errors are printed than lines were read, and on a script that ends in end of
input the result is a value or an exception - never "still waiting". -/
theorem terminates_at_eof (limit : Option Nat) (interactive : Bool) (script : List Str)
    (eof : Bool) :
    let o := ask toInt choices multi default limit interactive script eof
    o.reads ≤ script.length + 1 ∧ o.errors ≤ o.reads ∧ o.prompts ≤ o.reads + 1 ∧
    (eof = true → o.result ≠ .pending) ∧ (o.result = .pending → o.reads = script.length) := by
  cases interactive with
  | false => simp [ask]
  | true =>
    simp only [ask, if_true]
    have := askLoop_bounds toInt choices multi default eof script limit none
    simp only [printed, Option.isSome_none, Bool.false_eq_true, if_false, Nat.add_zero] at this
    exact this

/-- **Termination in the sense of DESIGN 3.6**: written with one unit of fuel per pass of the
`while` loop, the loop never runs out of fuel when given `|script| + 1` units (or more) - it
computes exactly what the structurally recursive `askLoop` computes.  Every pass but the last
consumes a line. -/
theorem fuel_suffices (eof : Bool) (fuel : Nat) (script : List Str) (att : Option Nat)
    (err : Option Err) (h : script.length < fuel) :
    askFuel toInt choices multi default eof fuel script att err =
      askLoop toInt choices multi default eof script att err := by
  induction script generalizing fuel att err with
  | nil =>
    cases fuel with
    | zero => simp at h
    | succ f => unfold askFuel askLoop; rfl
  | cons line rest ih =>
    cases fuel with
    | zero => simp at h
    | succ f =>
      have hr : rest.length < f := by simp at h; omega
      unfold askFuel askLoop
      simp only [ih f _ _ hr]

/-- ... and `outOfFuel` is not among the results at that fuel. -/
theorem never_out_of_fuel (eof : Bool) (script : List Str) (limit : Option Nat) :
    (askFuel toInt choices multi default eof (script.length + 1) script limit none).result
      ≠ .error .outOfFuel := by
  rw [fuel_suffices toInt choices multi default eof _ script limit none (Nat.lt_succ_self _)]
  suffices ∀ (script : List Str) (att : Option Nat) (err : Option Err), err ≠ some .outOfFuel →
      (askLoop toInt choices multi default eof script att err).result ≠ .error .outOfFuel from
    this script limit none (by simp)
  intro script
  induction script with
  | nil =>
    intro att err herr
    by_cases hatt : att = some 0
    · subst hatt
      cases err with
      | none => simp [askLoop_zero, raiseLast]
      | some e => simpa [askLoop_zero, raiseLast] using herr
    cases hp : promptCheck toInt choices multi default with
    | error e =>
      rw [askLoop_prompt_error toInt choices multi default eof [] att err e hatt hp]
      have := promptCheck_not_outOfFuel toInt choices multi default e hp
      simpa using this
    | ok u =>
      cases u
      rw [askLoop_nil toInt choices multi default eof att err hatt hp]
      cases eof <;> simp
  | cons line rest ih =>
    intro att err herr
    by_cases hatt : att = some 0
    · subst hatt
      cases err with
      | none => simp [askLoop_zero, raiseLast]
      | some e => simpa [askLoop_zero, raiseLast] using herr
    cases hp : promptCheck toInt choices multi default with
    | error e =>
      rw [askLoop_prompt_error toInt choices multi default eof _ att err e hatt hp]
      have := promptCheck_not_outOfFuel toInt choices multi default e hp
      simpa using this
    | ok u =>
      cases u
      cases hl : lineResult toInt choices multi default line with
      | ok a => simp [askLoop_cons_ok toInt choices multi default eof line rest att err a hatt hp hl]
      | error e =>
        rw [askLoop_cons_error toInt choices multi default eof line rest att err e hatt hp hl]
        have he : e ≠ .outOfFuel := by
          rcases validate_error_classes toInt choices multi _ e hl with h | ⟨_, h⟩ <;> simp [h]
        simpa using ih (att.map (· - 1)) (some e) (by simpa using he)

/-- **What the repair D22 repaired.**  The loop as it was before (read inside the `try`): with
unlimited attempts, once the input is at its end every pass fails with "Aborted", is caught
and retried - for every amount of fuel the loop is still running when the fuel is used up. -/
theorem pre_repair_loop_never_terminates (fuel : Nat) (err : Option Err) :
    (askFuelOld toInt choices multi default true fuel [] none err).result = .error .outOfFuel := by
  induction fuel generalizing err with
  | zero => rfl
  | succ f ih =>
    unfold askFuelOld
    cases hp : promptCheck toInt choices multi default with
    | error e => simp [ih]
    | ok u => simp [ih]

/-- Unlimited attempts (or more attempts than lines), every line rejected, then end of
input: the dialogue reads every line, prints an error for every line, and ends with the
"Aborted" `RuntimeError` on the read after the last line. -/
theorem unlimited_all_invalid_aborts (script : List Str) (limit : Option Nat)
    (hp : promptCheck toInt choices multi default = .ok ())
    (hbad : ∀ l ∈ script, Rejected toInt choices multi default l)
    (hlim : ∀ n, limit = some n → script.length < n) :
    ask toInt choices multi default limit true script true =
      ⟨.error .runtimeError, script.length + 1, script.length, script.length + 1⟩ := by
  have := invalid_prefix toInt choices multi default true script [] limit hp hbad
    (fun n hn => Nat.le_of_lt (hlim n hn))
  rw [List.append_nil] at this
  rw [this]
  have hatt : limit.map (· - script.length) ≠ some 0 := by
    cases limit with
    | none => simp
    | some n => have := hlim n rfl; simp; omega
  rw [askLoop_nil toInt choices multi default true _ _ hatt hp]
  cases script with
  | nil => simp [Outcome.add, lastErr, printed]
  | cons b bs =>
    obtain ⟨e, he⟩ := lastErr_some_of_rejected (lineResult toInt choices multi default) none
      (b :: bs) (by simp) hbad
    simp [Outcome.add, he, printed]
    omega

/-- The same dialogue on a stream that is not at its end: the question is waiting for the
next line, having printed one error per line. -/
theorem all_invalid_waits (script : List Str) (limit : Option Nat)
    (hp : promptCheck toInt choices multi default = .ok ())
    (hbad : ∀ l ∈ script, Rejected toInt choices multi default l)
    (hlim : ∀ n, limit = some n → script.length < n) :
    ask toInt choices multi default limit true script false =
      ⟨.pending, script.length, script.length, script.length + 1⟩ := by
  have := invalid_prefix toInt choices multi default false script [] limit hp hbad
    (fun n hn => Nat.le_of_lt (hlim n hn))
  rw [List.append_nil] at this
  rw [this]
  have hatt : limit.map (· - script.length) ≠ some 0 := by
    cases limit with
    | none => simp
    | some n => have := hlim n rfl; simp; omega
  rw [askLoop_nil toInt choices multi default false _ _ hatt hp]
  cases script with
  | nil => simp [Outcome.add, lastErr, printed]
  | cons b bs =>
    obtain ⟨e, he⟩ := lastErr_some_of_rejected (lineResult toInt choices multi default) none
      (b :: bs) (by simp) hbad
    simp [Outcome.add, he, printed]
    omega

/-- A question whose default cannot be shown (`choices[int(default)]` fails while the prompt
is built) fails before it asks: nothing is read or written.  The property statement does not
speak about such questions; the model records what happens. -/
theorem prompt_failure (limit : Option Nat) (h0 : limit ≠ some 0) (script : List Str) (eof : Bool)
    (e : Err) (hp : promptCheck toInt choices multi default = .error e) :
    ask toInt choices multi default limit true script eof = ⟨.error e, 0, 0, 0⟩ := by
  simp [ask, askLoop_prompt_error toInt choices multi default eof script limit none e h0 hp, printed]

/-- every script is a run of rejected lines followed by nothing or by an accepted line -/
theorem script_split (script : List Str) :
    ∃ bad tail, script = bad ++ tail ∧ (∀ l ∈ bad, Rejected toInt choices multi default l) ∧
      (tail = [] ∨ ∃ good rest a, tail = good :: rest ∧
        lineResult toInt choices multi default good = .ok a) := by
  induction script with
  | nil => exact ⟨[], [], rfl, by simp, Or.inl rfl⟩
  | cons l r ih =>
    cases hl : lineResult toInt choices multi default l with
    | ok a => exact ⟨[], l :: r, rfl, by simp, Or.inr ⟨l, r, a, rfl, hl⟩⟩
    | error e =>
      obtain ⟨bad, tail, hs, hb, ht⟩ := ih
      refine ⟨l :: bad, tail, by simp [hs], ?_, ht⟩
      intro x hx
      rcases List.mem_cons.mp hx with rfl | hx
      · exact ⟨e, hl⟩
      · exact hb x hx

/-- **The three outcomes are all there is.**  For a question that can show its prompt and has
at least one attempt, every script falls under exactly one of `attempts_exact_value` (an
accepted line within the limit), `attempts_exact_fail` (as many rejected lines as attempts)
or `unlimited_all_invalid_aborts` / `all_invalid_waits` (only rejected lines, attempts left). -/
theorem ask_outcome_cases (eof : Bool) (script : List Str) (limit : Option Nat)
    (hp : promptCheck toInt choices multi default = .ok ()) (h0 : limit ≠ some 0) :
    (∃ bad good rest a, script = bad ++ good :: rest ∧
        (∀ l ∈ bad, Rejected toInt choices multi default l) ∧
        lineResult toInt choices multi default good = .ok a ∧
        (∀ n, limit = some n → bad.length < n) ∧
        ask toInt choices multi default limit true script eof =
          ⟨.value a, bad.length + 1, bad.length, bad.length + 1⟩) ∨
    (∃ bad last rest e, script = bad ++ last :: rest ∧
        (∀ l ∈ bad, Rejected toInt choices multi default l) ∧
        lineResult toInt choices multi default last = .error e ∧
        limit = some (bad.length + 1) ∧
        ask toInt choices multi default limit true script eof =
          ⟨.error e, bad.length + 1, bad.length, bad.length + 1⟩) ∨
    ((∀ l ∈ script, Rejected toInt choices multi default l) ∧
        (∀ n, limit = some n → script.length < n) ∧
        ask toInt choices multi default limit true script eof =
          if eof then ⟨.error .runtimeError, script.length + 1, script.length, script.length + 1⟩
          else ⟨.pending, script.length, script.length, script.length + 1⟩) := by
  obtain ⟨bad, tail, rfl, hb, ht⟩ := script_split toInt choices multi default script
  -- attempts run out inside the rejected prefix?
  by_cases hle : ∃ n, limit = some n ∧ n ≤ bad.length
  · obtain ⟨n, hn, hle⟩ := hle
    have hn0 : n ≠ 0 := fun h => h0 (by rw [hn, h])
    have hm : n - 1 < bad.length := by omega
    obtain ⟨e, he⟩ := hb bad[n - 1] (List.getElem_mem hm)
    have hsplit : bad = bad.take (n - 1) ++ bad[n - 1] :: bad.drop (n - 1 + 1) := by
      rw [← List.drop_eq_getElem_cons hm, List.take_append_drop]
    have hlen : (bad.take (n - 1)).length = n - 1 := by
      rw [List.length_take]; omega
    refine Or.inr (Or.inl ⟨bad.take (n - 1), bad[n - 1], bad.drop (n - 1 + 1) ++ tail, e, ?_, ?_, he, ?_, ?_⟩)
    · rw [← List.cons_append, ← List.append_assoc, ← hsplit]
    · exact fun l hl => hb l (List.mem_of_mem_take hl)
    · rw [hlen, hn]; congr 1; omega
    · have := attempts_exact_fail toInt choices multi default eof (bad.take (n - 1)) bad[n - 1]
        (bad.drop (n - 1 + 1) ++ tail) e hp (fun l hl => hb l (List.mem_of_mem_take hl)) he
      rw [hlen] at this
      have hn' : limit = some (n - 1 + 1) := by rw [hn]; congr 1; omega
      rw [hlen, hn']
      rw [← List.cons_append, ← List.append_assoc, ← hsplit] at this
      exact this
  · have hlim : ∀ n, limit = some n → bad.length < n := by
      intro n hn
      by_cases h : bad.length < n
      · exact h
      · exact absurd ⟨n, hn, by omega⟩ hle
    rcases ht with rfl | ⟨good, rest, a, rfl, hg⟩
    · refine Or.inr (Or.inr ⟨by simpa using hb, by simpa using hlim, ?_⟩)
      rw [List.append_nil]
      cases eof with
      | true => simpa using unlimited_all_invalid_aborts toInt choices multi default bad limit hp hb hlim
      | false => simpa using all_invalid_waits toInt choices multi default bad limit hp hb hlim
    · exact Or.inl ⟨bad, good, rest, a, rfl, hb, hg, hlim,
        attempts_exact_value toInt choices multi default eof bad good rest a limit hp hb hg hlim⟩

/-! ### non-interactive input -/

/-- **Any question on a non-interactive input returns its default without reading or writing
anything** (choice question: the default as it was given, i.e. the index text). -/
theorem noninteractive (limit : Option Nat) (script : List Str) (eof : Bool)
    (isTrue : Str → Bool) (d : Bool) :
    ask toInt choices multi default limit false script eof = ⟨.default default, 0, 0, 0⟩ ∧
    confirm isTrue d false script eof = ⟨.answer d, 0, 0⟩ := by
  simp [ask, confirm]

end

/-! ### confirmation -/

/-- **A confirmation answers true exactly for inputs matching its pattern, and its default
on empty input** - for every pattern `isTrue`; one line is read, one prompt written. -/
theorem confirm_iff (isTrue : Str → Bool) (default : Bool) (line : Str) (rest : List Str)
    (eof : Bool) :
    ∃ b, confirm isTrue default true (line :: rest) eof = ⟨.answer b, 1, 1⟩ ∧
      (b = true ↔ (bytesStrip line = [] ∧ default = true) ∨
                  (bytesStrip line ≠ [] ∧ isTrue (bytesStrip line) = true)) := by
  refine ⟨_, rfl, ?_⟩
  cases h : bytesStrip line with
  | nil => simp [normalize]
  | cons c r => cases default <;> simp [normalize]

/-- At end of input a confirmation gives up with the "Aborted" error (it has no retry loop). -/
theorem confirm_eof (isTrue : Str → Bool) (default : Bool) :
    confirm isTrue default true [] true = ⟨.error .runtimeError, 1, 1⟩ := rfl

/-- The default pattern `(?i)^y` matches exactly the answers that start with `y` or `Y`. -/
theorem matchYes_iff (a : Str) : matchYes a = true ↔ ∃ r, a = 'y' :: r ∨ a = 'Y' :: r := by
  cases a with
  | nil => simp [matchYes, matchPrefix, hasPrefix]
  | cons c r =>
    have key : charEq true 'y' c = true ↔ (c = 'y' ∨ c = 'Y') := by
      constructor
      · intro h
        have hx : ciExtra 'y' c = false := by simp [ciExtra]
        simp only [charEq, hx, Bool.or_false, Bool.or_eq_true, Bool.and_eq_true, beq_iff_eq,
          Bool.true_and] at h
        rcases h with h | ⟨⟨_, hl⟩, h⟩
        · exact Or.inl h.symm
        · rcases h with h | h
          · right
            apply Char.toNat_inj.mp
            have : ('y' : Char).toNat = 121 := by decide
            have h2 : ('Y' : Char).toNat = 89 := by decide
            omega
          · exfalso
            have : ('y' : Char).toNat = 121 := by decide
            have hc : c.toNat = 153 := by omega
            simp only [isAsciiLetter, Bool.or_eq_true, Bool.and_eq_true, decide_eq_true_eq] at hl
            rcases hl with ⟨_, h2⟩ | ⟨_, h2⟩
            · have := UInt32.le_iff_toNat_le.mp (Char.le_def.mp h2)
              have e : c.val.toNat = c.toNat := rfl
              have : ('z' : Char).val.toNat = 122 := by decide
              omega
            · have := UInt32.le_iff_toNat_le.mp (Char.le_def.mp h2)
              have e : c.val.toNat = c.toNat := rfl
              have : ('Z' : Char).val.toNat = 90 := by decide
              omega
      · rintro (rfl | rfl) <;> decide
    simp only [matchYes, matchPrefix, List.any_cons, List.any_nil, Bool.or_false, hasPrefix,
      Bool.and_true, key]
    constructor
    · rintro (rfl | rfl)
      · exact ⟨r, Or.inl rfl⟩
      · exact ⟨r, Or.inr rfl⟩
    · rintro ⟨r', h | h⟩
      · left; injection h
      · right; injection h

/-! ### the hypotheses are decided by the model on every real case

The interchangeability theorems take: the index text is what `int()` reads as `i` (`hint`), it
survives the stripping of the line (`htxt`, `htne`), the value occurs once, the index text is not a
choice, and the value can be typed.  The first three are PROVED for the model of `int()` and the
decimal numeral `str(i)` (`pyInt_toDigits`, `toDigits_typable`), the rest is the executable
`interchangeHypB` (Model/Question.lean), which the driver answers for every (list, index) pair of the
harness (entry `c18.interchange_hyp`) and the harness compares with the same condition evaluated by
Python; `promptCheck … = .ok ()` of the attempt theorems is `promptOkB`, answered by entry `c18.ask`
and compared with whether the REAL `ChoiceQuestion._write_prompt` can build the prompt. -/

/-- what the deciders mean -/
theorem hyps_decide (toInt : Str → Option Int) (choices : List Str) (multi : Bool)
    (default : Option Str) (i : Nat) :
    (promptOkB toInt choices multi default = true ↔ promptCheck toInt choices multi default = .ok ()) ∧
    (interchangeHypB choices multi i = true ↔
      ∃ hi : i < choices.length, (choices.filter (· == choices[i])).length = 1 ∧
        Nat.toDigits 10 i ∉ choices ∧
        (if multi then Wordy choices[i] else choices[i] ≠ [] ∧ bytesStrip choices[i] = choices[i])) := by
  constructor
  · unfold promptOkB
    cases promptCheck toInt choices multi default with
    | ok u => cases u; simp
    | error e => simp
  · unfold interchangeHypB
    by_cases hi : i < choices.length
    · rw [List.getElem?_eq_getElem hi]
      cases multi <;>
        simp [hi, wordyB_iff, typableB_iff, Wordy, and_assoc]
    · rw [List.getElem?_eq_none (by omega)]
      simp [hi]

/-- `index_value_interchangeable_ask` for the model of `int()` and the numeral `str(i)`: the
hypotheses about the index text are proved, not assumed. -/
theorem index_value_interchangeable_ask_pyInt (choices : List Str) (default : Option Str) (i : Nat)
    (hi : i < choices.length) (huniq : (choices.filter (· == choices[i])).length = 1)
    (hnot : Nat.toDigits 10 i ∉ choices)
    (hval : bytesStrip choices[i] = choices[i]) (hvne : choices[i] ≠ [])
    (hp : promptCheck pyInt choices false default = .ok ())
    (limit : Option Nat) (hl : limit ≠ some 0) (rest : List Str) (eof : Bool) :
    ask pyInt choices false default limit true (Nat.toDigits 10 i :: rest) eof =
      ⟨.value (.one choices[i]), 1, 0, 1⟩ ∧
    ask pyInt choices false default limit true (choices[i] :: rest) eof =
      ⟨.value (.one choices[i]), 1, 0, 1⟩ :=
  index_value_interchangeable_ask pyInt choices default i _ hi huniq hnot (pyInt_toDigits i)
    (toDigits_typable i).2.1 (toDigits_typable i).1 hval hvne hp limit hl rest eof

/-- `index_value_interchangeable_multi` for the model of `int()` and the numeral `str(i)` -/
theorem index_value_interchangeable_multi_pyInt (choices : List Str) (pre post : List Str) (i : Nat)
    (hi : i < choices.length) (huniq : (choices.filter (· == choices[i])).length = 1)
    (hnot : Nat.toDigits 10 i ∉ choices)
    (hw : ∀ p ∈ pre ++ post, Wordy p) (hwv : Wordy choices[i]) :
    validate pyInt choices true (some (joinWith ',' (pre ++ Nat.toDigits 10 i :: post))) =
    validate pyInt choices true (some (joinWith ',' (pre ++ choices[i] :: post))) :=
  index_value_interchangeable_multi pyInt choices pre post i _ hi huniq hnot (pyInt_toDigits i) hw
    ⟨(toDigits_typable i).1, (toDigits_typable i).2.2⟩ hwv

/-- Multi-select through the whole question: a line that is a well-formed list of items gives the
same outcome whether an item is typed as the index text or as the value it denotes - under every
limit, whatever the prompt does. -/
theorem index_value_interchangeable_multi_ask (toInt : Str → Option Int) (choices : List Str)
    (default : Option Str) (pre post : List Str) (i : Nat) (txt : Str)
    (hi : i < choices.length) (huniq : (choices.filter (· == choices[i])).length = 1)
    (hnot : txt ∉ choices) (hint : toInt txt = some (i : Int))
    (hw : ∀ p ∈ pre ++ post, Wordy p) (hwt : Wordy txt) (hwv : Wordy choices[i])
    (limit : Option Nat) (rest : List Str) (eof : Bool) :
    ask toInt choices true default limit true (joinWith ',' (pre ++ txt :: post) :: rest) eof =
    ask toInt choices true default limit true (joinWith ',' (pre ++ choices[i] :: post) :: rest) eof := by
  -- a joined list of words is typed as it is: no surrounding white space, not empty
  have typed : ∀ items : List Str, items ≠ [] → (∀ p ∈ items, Wordy p) →
      answerOf default (joinWith ',' items) = some (joinWith ',' items) := by
    intro items hne hws
    have hchars : ∀ c ∈ joinWith ',' items, isByteSpace c = false := by
      clear hne
      induction items with
      | nil => simp [joinWith]
      | cons p r ih =>
        have hp : ∀ c ∈ p, isByteSpace c = false := by
          intro c hc
          have := (hws p (by simp)).2 c hc
          simp only [isByteSpace, Bool.or_eq_false_iff, beq_eq_false_iff_ne, ne_eq]
          refine ⟨⟨⟨⟨⟨?_, ?_⟩, ?_⟩, ?_⟩, ?_⟩, ?_⟩ <;> (rintro rfl; revert this; decide)
        cases r with
        | nil => simpa [joinWith] using hp
        | cons q r' =>
          intro c hc
          simp only [joinWith, List.mem_append, List.mem_cons] at hc
          rcases hc with hc | hc | hc
          · exact hp c hc
          · subst hc; decide
          · exact ih (fun x hx => hws x (List.mem_cons_of_mem _ hx)) c hc
    have hstrip : bytesStrip (joinWith ',' items) = joinWith ',' items := stripWith_none _ _ hchars
    have hne' : (joinWith ',' items).isEmpty = false := by
      cases items with
      | nil => exact absurd rfl hne
      | cons p r =>
        have hp := (hws p (by simp)).1
        cases p with
        | nil => exact absurd rfl hp
        | cons a b => cases r <;> simp [joinWith]
    simp [answerOf, hstrip, hne']
  have hw1 : ∀ p ∈ pre ++ txt :: post, Wordy p := by
    intro p hp
    simp only [List.mem_append, List.mem_cons] at hp
    rcases hp with hp | rfl | hp
    · exact hw p (List.mem_append_left _ hp)
    · exact hwt
    · exact hw p (List.mem_append_right _ hp)
  have hw2 : ∀ p ∈ pre ++ choices[i] :: post, Wordy p := by
    intro p hp
    simp only [List.mem_append, List.mem_cons] at hp
    rcases hp with hp | rfl | hp
    · exact hw p (List.mem_append_left _ hp)
    · exact hwv
    · exact hw p (List.mem_append_right _ hp)
  simp only [ask, if_true]
  apply askLoop_congr_line
  rw [lineResult, lineResult, typed _ (by simp) hw1, typed _ (by simp) hw2]
  exact index_value_interchangeable_multi toInt choices pre post i txt hi huniq hnot hint hw hwt hwv

/-- **Index and value are interchangeable wherever the decider says so** (the statement the
correspondence checks on every (list, index) pair): single- and multi-select, under every limit that
allows one attempt, whatever follows on the input - typing `str(i)` and typing the value both return
the value after one read, one prompt and no error. -/
theorem interchange_dec (choices : List Str) (multi : Bool) (i : Nat)
    (h : interchangeHypB choices multi i = true) (limit : Option Nat) (hl : limit ≠ some 0)
    (rest : List Str) (eof : Bool) :
    ∃ v, choices[i]? = some v ∧
      ask pyInt choices multi none limit true (Nat.toDigits 10 i :: rest) eof =
        ⟨.value (if multi then .many [v] else .one v), 1, 0, 1⟩ ∧
      ask pyInt choices multi none limit true (v :: rest) eof =
        ⟨.value (if multi then .many [v] else .one v), 1, 0, 1⟩ := by
  obtain ⟨hi, huniq, hnot, hcond⟩ := (hyps_decide pyInt choices multi none i).2.mp h
  refine ⟨choices[i], List.getElem?_eq_getElem hi, ?_⟩
  cases multi with
  | false =>
    simp only [Bool.false_eq_true, if_false] at hcond ⊢
    exact index_value_interchangeable_ask_pyInt choices none i hi huniq hnot hcond.2 hcond.1 rfl
      limit hl rest eof
  | true =>
    simp only [if_true] at hcond ⊢
    have hwt : Wordy (Nat.toDigits 10 i) := ⟨(toDigits_typable i).1, (toDigits_typable i).2.2⟩
    have hv : validate pyInt choices true (some choices[i]) = .ok (.many [choices[i]]) := by
      have := multi_componentwise pyInt choices [choices[i]] (by simp) (by simpa using hcond)
      simp only [joinWith] at this
      rw [this]
      simp [validateAll, validateOne_value pyInt choices huniq]
    have ht : validate pyInt choices true (some (Nat.toDigits 10 i)) = .ok (.many [choices[i]]) := by
      have := index_value_interchangeable_multi_pyInt choices [] [] i hi huniq hnot (by simp) hcond
      simp only [List.nil_append, joinWith] at this
      rw [this, hv]
    have typed : ∀ v : Str, v ≠ [] → (∀ c ∈ v, isWordChar c = true) → answerOf none v = some v := by
      intro v hne hw
      have : v.isEmpty = false := by cases v with | nil => exact absurd rfl hne | cons _ _ => rfl
      simp [answerOf, bytesStrip_of_word v hw, this]
    have e1 : lineResult pyInt choices true none (Nat.toDigits 10 i) = .ok (.many [choices[i]]) := by
      rw [lineResult, typed _ hwt.1 hwt.2, ht]
    have e2 : lineResult pyInt choices true none choices[i] = .ok (.many [choices[i]]) := by
      rw [lineResult, typed _ hcond.1 hcond.2, hv]
    simp only [ask, if_true]
    rw [askLoop_cons_ok pyInt choices true none eof _ rest limit none _ hl rfl e1,
      askLoop_cons_ok pyInt choices true none eof _ rest limit none _ hl rfl e2]
    simp [printed]

/-- `ask_outcome_cases` with the prompt hypothesis decided (`promptOkB`, compared on every case with
the real `_write_prompt`): every dialogue of a question that can show its prompt and has an attempt
is one of the three outcomes. -/
theorem ask_outcome_cases_dec (toInt : Str → Option Int) (choices : List Str) (multi : Bool)
    (default : Option Str) (eof : Bool) (script : List Str) (limit : Option Nat)
    (hp : promptOkB toInt choices multi default = true) (h0 : limit ≠ some 0) :
    (∃ bad good rest a, script = bad ++ good :: rest ∧
        (∀ l ∈ bad, Rejected toInt choices multi default l) ∧
        lineResult toInt choices multi default good = .ok a ∧
        (∀ n, limit = some n → bad.length < n) ∧
        ask toInt choices multi default limit true script eof =
          ⟨.value a, bad.length + 1, bad.length, bad.length + 1⟩) ∨
    (∃ bad last rest e, script = bad ++ last :: rest ∧
        (∀ l ∈ bad, Rejected toInt choices multi default l) ∧
        lineResult toInt choices multi default last = .error e ∧
        limit = some (bad.length + 1) ∧
        ask toInt choices multi default limit true script eof =
          ⟨.error e, bad.length + 1, bad.length, bad.length + 1⟩) ∨
    ((∀ l ∈ script, Rejected toInt choices multi default l) ∧
        (∀ n, limit = some n → script.length < n) ∧
        ask toInt choices multi default limit true script eof =
          if eof then ⟨.error .runtimeError, script.length + 1, script.length, script.length + 1⟩
          else ⟨.pending, script.length, script.length, script.length + 1⟩) :=
  ask_outcome_cases toInt choices multi default eof script limit
    ((hyps_decide toInt choices multi default 0).1.mp hp) h0

/-! ### non-vacuity: concrete dialogues, evaluated with the model of CPython's `int()` -/

/-- `["a","b","c"]`, two attempts, the lines `zzz`, `9`, `1`: fails after exactly two reads
with one error printed - the valid third line is never read. -/
example : ask pyInt ["a".toList, "b".toList, "c".toList] false none (some 2) true
    ["zzz".toList, "9".toList, "1".toList] true = ⟨.error .valueError, 2, 1, 2⟩ := by decide

/-- unlimited attempts: the third line selects `b` by index after two errors -/
example : ask pyInt ["a".toList, "b".toList, "c".toList] false none none true
    ["zzz".toList, "-1".toList, " 1 ".toList] true = ⟨.value (.one "b".toList), 3, 2, 3⟩ := by
  decide

/-- unlimited attempts and only invalid lines: gives up at end of input (D22) -/
example : ask pyInt ["a".toList, "b".toList] false none none true
    ["zzz".toList, "".toList] true = ⟨.error .runtimeError, 3, 2, 3⟩ := by decide

/-- the value wins over the index: in `["1","0","-1"]` the answer `0` selects the value `0`
(index 1), not `choices[0]`; a duplicated value is ambiguous; multi-select collapses blanks -/
example : validate pyInt ["1".toList, "0".toList, "-1".toList] false (some "0".toList)
      = .ok (.one "0".toList) ∧
    validate pyInt ["a".toList, "b".toList, "a".toList] false (some "a".toList)
      = .error .valueError ∧
    validate pyInt ["a".toList, "b".toList, "c".toList] true (some "a, 2".toList)
      = .ok (.many ["a".toList, "c".toList]) := by decide

/-- the hypotheses of `attempts_exact_fail` / `attempts_exact_value` are satisfiable:
the prompt renders and lines are rejected / accepted -/
example : promptCheck pyInt ["a".toList, "b".toList] false (some "1".toList) = .ok () ∧
    Rejected pyInt ["a".toList, "b".toList] false (some "1".toList) "zzz".toList ∧
    lineResult pyInt ["a".toList, "b".toList] false (some "1".toList) "".toList
      = .ok (.one "b".toList) := by
  refine ⟨by decide, ⟨.valueError, by decide⟩, by decide⟩

/-- confirmation: `Yes` is true, `no` is false, the empty answer is the default -/
example : (confirm matchYes false true ["Yes".toList] true).result = .answer true ∧
    (confirm matchYes true true ["no".toList] true).result = .answer false ∧
    (confirm matchYes true true [" ".toList] true).result = .answer true ∧
    (confirm matchYes false true ["".toList] true).result = .answer false := by decide

/-! ### every theorem with hypotheses, applied to a concrete question (all hypotheses discharged) -/

private def abc : List Str := ["a".toList, "b".toList, "c".toList]
private def zzz : Str := "zzz".toList
private def nine : Str := "9".toList

private theorem bad2 : ∀ l ∈ [zzz, nine], Rejected pyInt abc false none l := by
  intro l hl
  simp only [List.mem_cons, List.not_mem_nil, or_false] at hl
  rcases hl with rfl | rfl <;> exact ⟨.valueError, by decide⟩

example := choice_member pyInt abc false (some "1".toList) (.one "b".toList) (by decide)
example := validate_error_classes pyInt abc false (some zzz) .valueError (by decide)
example := ask_member pyInt abc false none none [zzz, "1".toList] true (.one "b".toList) (by decide)
example := index_value_interchangeable pyInt abc 1 "1".toList (by decide) (by decide) (by decide) (by decide)
example := index_value_interchangeable_pyInt abc 1 (by decide) (by decide) (by decide)
example := index_value_interchangeable_ask pyInt abc none 1 "1".toList (by decide) (by decide) (by decide)
  (by decide) (by decide) (by decide) (by decide) (by decide) (by decide) (some 2) (by decide) [zzz] false
example := index_value_interchangeable_ask_pyInt abc none 1 (by decide) (by decide) (by decide) (by decide)
  (by decide) (by decide) none (by decide) [] true
example := multi_componentwise pyInt abc ["a".toList, "2".toList] (by decide)
  (by intro p hp; simp only [List.mem_cons, List.not_mem_nil, or_false] at hp
      rcases hp with rfl | rfl <;> exact ⟨by decide, by decide⟩)
example := index_value_interchangeable_multi pyInt abc ["a".toList] [] 1 "1".toList (by decide) (by decide)
  (by decide) (by decide)
  (by intro p hp; simp only [List.append_nil, List.mem_cons, List.not_mem_nil, or_false] at hp
      subst hp; exact ⟨by decide, by decide⟩)
  ⟨by decide, by decide⟩ ⟨by decide, by decide⟩
example := index_value_interchangeable_multi_pyInt abc [] [] 1 (by decide) (by decide) (by decide)
  (by simp) ⟨by decide, by decide⟩
example := index_value_interchangeable_multi_ask pyInt abc none [] [] 1 "1".toList (by decide) (by decide)
  (by decide) (by decide) (by simp) ⟨by decide, by decide⟩ ⟨by decide, by decide⟩ (some 1) [] true
example := empty_line_is_default pyInt abc false (some "1".toList) " \t".toList (by decide)
example := invalid_prefix pyInt abc false none true [zzz, nine] ["1".toList] (some 2) (by decide) bad2
  (by intro n hn; cases hn; decide)
example := attempts_exact_fail pyInt abc false none true [zzz] nine ["1".toList] .valueError (by decide)
  (fun l hl => bad2 l (by simp only [List.mem_cons, List.not_mem_nil, or_false] at hl; simp [hl]))
  (by decide)
example := attempts_exact_value pyInt abc false none true [zzz, nine] "1".toList [] (.one "b".toList) (some 3)
  (by decide) bad2 (by decide) (by intro n hn; cases hn; decide)
example := unlimited_all_invalid_aborts pyInt abc false none [zzz, nine] none (by decide) bad2
  (by intro n hn; cases hn)
example := all_invalid_waits pyInt abc false none [zzz, nine] (some 5) (by decide) bad2
  (by intro n hn; cases hn; decide)
example := prompt_failure pyInt abc false (some zzz) none (by decide) [zzz] true .valueError (by decide)
example := ask_outcome_cases pyInt abc false none true [zzz, nine, "1".toList] (some 2) (by decide) (by decide)
example := ask_outcome_cases_dec pyInt abc false none true [zzz, nine, "1".toList] (some 2) (by decide) (by decide)
example := fuel_suffices pyInt abc false none true 3 [zzz, nine] none none (by decide)
example := interchange_dec abc false 1 (by decide) (some 1) (by decide) [] true
example := interchange_dec abc true 2 (by decide) none (by decide) [zzz] false

/-- the deciders are not constantly true: a duplicated value, a value with a leading blank, an index
text that is itself a choice, an item that is not a word, a default that cannot be shown -/
example : interchangeHypB ["a".toList, "b".toList, "a".toList] false 0 = false ∧
    interchangeHypB [" a".toList, "b".toList] false 0 = false ∧
    interchangeHypB ["1".toList, "0".toList] false 0 = false ∧
    interchangeHypB ["a b".toList, "c".toList] true 0 = false ∧
    interchangeHypB abc false 3 = false ∧
    promptOkB pyInt abc false (some "99".toList) = false ∧
    promptOkB pyInt abc true (some "0, 1".toList) = true := by decide

/-! ## Several questions on one input, the script typed incrementally

`session` (Model/Question.lean): the questions of an application asked one after the other on ONE
input whose script is extended / replaced / dropped between them (`append_input`, `set_input`,
`clear_input`).  Every question of a session is `ask` / `confirm` on the lines unread at that
moment, so every theorem above applies to it; the theorems below say how the script is consumed. -/

section session
variable (toInt : Str → Option Int)

/-- The first question of a session is the single question of the theorems above, asked on the
unread lines; the rest of the session continues behind the lines it read - a line that was
answered is never read again. -/
theorem session_consumes (interactive eof : Bool) (q : SQ) (rest : List SStep) (unread : List Str) :
    session toInt interactive eof (.ask q :: rest) unread =
      askQ toInt interactive eof q unread ::
        session toInt interactive eof rest (unread.drop (askQ toInt interactive eof q unread).reads) := rfl

/-- A question never reads more than the unread lines plus the read that meets the end. -/
theorem session_reads_bound (interactive eof : Bool) (q : SQ) (unread : List Str) :
    (askQ toInt interactive eof q unread).reads ≤ unread.length + 1 := by
  cases q with
  | choice c m d l => exact (terminates_at_eof toInt c m d l interactive unread eof).1
  | confirm ci p d =>
    cases interactive <;> cases unread <;> cases eof <;> simp [askQ, confirm, SOut.reads]

/-- Lines behind the ones a question reads do not influence it (they are left for the next
question): if the dialogue ended - it is not waiting for input - without reading past the unread
lines, it is the same dialogue whatever else is appended, and whether or not the input then ends. -/
theorem question_ignores_later_lines (interactive eof eof' : Bool) (q : SQ) (unread extra : List Str)
    (hp : (askQ toInt interactive eof q unread).pending = false)
    (hr : (askQ toInt interactive eof q unread).reads ≤ unread.length) :
    askQ toInt interactive eof' q (unread ++ extra) = askQ toInt interactive eof q unread := by
  cases q with
  | choice c m d l =>
    cases interactive with
    | false => simp [askQ, ask]
    | true =>
      simp only [askQ, ask, if_true, SOut.pending, SOut.reads, decide_eq_false_iff_not] at hp hr ⊢
      rw [askLoop_append toInt c m d eof eof' extra unread l none hp hr]
  | confirm ci p d =>
    cases interactive with
    | false => simp [askQ, confirm]
    | true =>
      cases unread with
      | nil => cases eof <;> simp [askQ, confirm, SOut.pending, SOut.reads] at hp hr
      | cons line rest => simp [askQ, confirm]

/-- HOW the script is delivered does not matter: appending lines before a question or after it
gives the same session, provided the question ended within the lines that were already there. -/
theorem session_append_commutes (interactive eof : Bool) (q : SQ) (ls : List Str) (rest : List SStep)
    (unread : List Str)
    (hp : (askQ toInt interactive eof q unread).pending = false)
    (hr : (askQ toInt interactive eof q unread).reads ≤ unread.length) :
    session toInt interactive eof (.append ls :: .ask q :: rest) unread =
      session toInt interactive eof (.ask q :: .append ls :: rest) unread := by
  simp only [session]
  rw [question_ignores_later_lines toInt interactive eof eof q unread ls hp hr,
    List.drop_append_of_le_length hr]

/-- `set_input` / `clear_input` forget the unread lines: what follows does not depend on them. -/
theorem session_set_forgets (interactive eof : Bool) (ls : List Str) (rest : List SStep) (u u' : List Str) :
    session toInt interactive eof (.set ls :: rest) u = session toInt interactive eof (.set ls :: rest) u' ∧
    session toInt interactive eof (.clear :: rest) u = session toInt interactive eof (.clear :: rest) u' :=
  ⟨rfl, rfl⟩

end session

/-- a session: "zzz" is rejected (one of two attempts), "1" selects `b`; two lines are appended;
the confirmation reads "yes" - not the lines answered before - and the last question gets "0" -/
example : session pyInt true true
    [.ask (.choice abc false none (some 2)), .append ["yes".toList, "0".toList],
     .ask (.confirm true [['y']] false), .ask (.choice abc false none none)] [zzz, "1".toList]
    = [.choice ⟨.value (.one "b".toList), 2, 1, 2⟩, .confirm ⟨.answer true, 1, 1⟩,
       .choice ⟨.value (.one "a".toList), 1, 0, 1⟩] := by decide +kernel

/-! ## Non-vacuity of the theorems added in rounds 8-9 (hypothesis audit) -/

section AuditR9
open Clikit Clikit.Question

/-- `question_ignores_later_lines`, both hypotheses discharged: the choice question answered by the line `1` is the same
dialogue when `yes` (the answer to the NEXT question) already stands behind it and the input goes on -/
example : askQ pyInt true false (.choice abc false none none) (["1".toList] ++ ["yes".toList]) =
    askQ pyInt true true (.choice abc false none none) ["1".toList] :=
  question_ignores_later_lines pyInt true true false _ ["1".toList] ["yes".toList] (by decide +kernel) (by decide +kernel)

/-- `session_append_commutes`: appending `yes` before or after that question gives the same session -/
example : session pyInt true true [.append ["yes".toList], .ask (.choice abc false none none), .ask (.confirm true [['y']] false)]
      ["1".toList] =
    session pyInt true true [.ask (.choice abc false none none), .append ["yes".toList], .ask (.confirm true [['y']] false)]
      ["1".toList] :=
  session_append_commutes pyInt true true _ _ _ _ (by decide +kernel) (by decide +kernel)

/-- the hypotheses exclude a question that is still waiting when the lines end (two invalid lines, unlimited attempts,
input not at its end): there a later line does matter -/
example : (askQ pyInt true false (.choice abc false none none) [zzz]).pending = true := by decide +kernel

end AuditR9

end Clikit.Props.C18
