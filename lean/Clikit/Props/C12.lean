import Clikit.Lemmas.Dispatcher
import Clikit.Lemmas.DispatcherOnce
import Clikit.Model.ConfigDispatcher
/-!
# C12 - listeners run by priority then registration order until propagation stops

`Model/Dispatcher.lean` models `EventDispatcher` as the code is (per-event priority dicts in
insertion order, the `_sorted` cache, `sorted(..., key=lambda t: -t[0])`).  The abstract
specification is nothing but the **log of registrations** made so far:

* `regsFor log e`   - the registrations for event `e`, in registration order;
* `specOrder log e` - those registrations in the order the property demands;
* `callSeq log e stopped` - the registrations a dispatch of `e` has to call.

All theorems quantify over ALL operation histories (`List Op`, no length bound) - every
interleaving of `add_listener`, `dispatch`, `has_listeners`, `get_listeners`,
`get_listener_priority` from a fresh dispatcher.
-/
namespace Clikit.Props.C12
open Clikit Clikit.Dispatcher

/-! ## The specification is tied to the English statement -/

/-- `specOrder` lists exactly the registrations made for the event, each as often as it was
registered. -/
theorem specOrder_perm (log : List Reg) (e : Nat) :
    (specOrder log e).Perm (regsFor log e) :=
  Dispatcher.specOrder_perm log e

/-- Only registrations of this very event, and all of them, take part. -/
theorem specOrder_mem (log : List Reg) (e : Nat) (r : Reg) :
    r ∈ specOrder log e ↔ r ∈ log ∧ r.ev = e := by
  rw [(specOrder_perm log e).mem_iff, mem_regsFor]

/-- Highest priority first. -/
theorem specOrder_sorted (log : List Reg) (e : Nat) :
    (specOrder log e).Pairwise (fun a b => a.prio ≥ b.prio) :=
  Dispatcher.specOrder_desc log e

/-- Registration order among equal priorities: for every priority `p`, the registrations of
priority `p` appear in `specOrder` exactly as they appear in the log. -/
theorem specOrder_stable (log : List Reg) (e : Nat) (p : Int) :
    (specOrder log e).filter (fun r => r.prio == p) = (regsFor log e).filter (fun r => r.prio == p) :=
  Dispatcher.specOrder_byKey log e p

/-- ... and these requirements determine the order: any list that is sorted by descending
priority and keeps the registration order within every priority IS `specOrder`. -/
theorem specOrder_unique (log : List Reg) (e : Nat) (l : List Reg)
    (sorted : l.Pairwise (fun a b => a.prio ≥ b.prio))
    (stable : ∀ p, l.filter (fun r => r.prio == p) = (regsFor log e).filter (fun r => r.prio == p)) :
    l = specOrder log e := by
  apply desc_unique Reg.prio l (specOrder log e) sorted (Dispatcher.specOrder_desc log e)
  intro p
  exact (stable p).trans (specOrder_stable log e p).symm

/-- `takeThrough` is "the prefix up to and including the first element satisfying `p`":
it is a prefix, nothing before its last element satisfies `p`, and if it is not the whole
list then its last element satisfies `p`. -/
theorem takeThrough_spec {α : Type} (p : α → Bool) : ∀ l : List α,
    ∃ rest, l = takeThrough p l ++ rest ∧
      (∀ x ∈ (takeThrough p l).dropLast, p x = false) ∧
      (rest ≠ [] → ∃ x, (takeThrough p l).getLast? = some x ∧ p x = true)
  | [] => ⟨[], by simp [takeThrough]⟩
  | x :: t => by
    cases h : p x with
    | true => exact ⟨t, by simp [takeThrough, h]⟩
    | false =>
      obtain ⟨rest, h1, h2, h3⟩ := takeThrough_spec p t
      refine ⟨rest, by simp only [takeThrough, h, Bool.false_eq_true, if_false, List.cons_append, ← h1], ?_, ?_⟩
      · intro y hy
        simp only [takeThrough, h, Bool.false_eq_true, if_false] at hy
        cases ht : takeThrough p t with
        | nil => simp [ht] at hy
        | cons a b =>
          rw [ht, List.dropLast_cons_cons] at hy
          rcases List.mem_cons.1 hy with rfl | hy
          · exact h
          · exact h2 y (by rw [ht]; exact hy)
      · intro hr
        obtain ⟨y, hy1, hy2⟩ := h3 hr
        refine ⟨y, ?_, hy2⟩
        simp only [takeThrough, h, Bool.false_eq_true, if_false]
        cases ht : takeThrough p t with
        | nil => simp [ht] at hy1
        | cons a b => rw [ht] at hy1; simpa [List.getLast?_cons_cons] using hy1

/-- What a dispatch must call: nobody when the event arrives already stopped; otherwise the
prefix of `specOrder` up to and including the first listener that stops propagation. -/
theorem callSeq_spec (log : List Reg) (e : Nat) :
    callSeq log e true = [] ∧
    ∃ rest, specOrder log e = callSeq log e false ++ rest ∧
      (∀ x ∈ (callSeq log e false).dropLast, x.l.stops = false) ∧
      (rest ≠ [] → ∃ x, (callSeq log e false).getLast? = some x ∧ x.l.stops = true) := by
  refine ⟨by simp [callSeq], ?_⟩
  simpa [callSeq] using takeThrough_spec (fun r : Reg => r.l.stops) (specOrder log e)

/-- If no listener registered for the event stops propagation, all of them are called. -/
theorem callSeq_all (log : List Reg) (e : Nat) (h : ∀ r ∈ log, r.ev = e → r.l.stops = false) :
    callSeq log e false = specOrder log e := by
  obtain ⟨_, rest, h1, _, h3⟩ := callSeq_spec log e
  cases rest with
  | nil => simpa using h1.symm
  | cons a b =>
    obtain ⟨x, hx, hs⟩ := h3 (by simp)
    have hm : x ∈ specOrder log e := by
      rw [h1]; exact List.mem_append_left _ (List.mem_of_getLast? hx)
    have := (specOrder_mem log e x).1 hm
    rw [h x this.1 this.2] at hs
    cases hs

/-- Each registration is called at most once per time it was registered, and only
registrations of this event are called. -/
theorem callSeq_each_once (log : List Reg) (e : Nat) (st : Bool) :
    (∀ r, (callSeq log e st).count r ≤ (regsFor log e).count r) ∧
    (∀ r ∈ callSeq log e st, r ∈ log ∧ r.ev = e) ∧
    (log.Nodup → (callSeq log e st).Nodup) := by
  have hsub : (callSeq log e st).Sublist (specOrder log e) := by
    cases st with
    | true => simp [callSeq]
    | false =>
      obtain ⟨_, rest, h1, _⟩ := callSeq_spec log e
      rw [h1]; exact List.sublist_append_left _ _
  refine ⟨?_, ?_, ?_⟩
  · intro r
    rw [← (specOrder_perm log e).count_eq]
    exact hsub.count_le r
  · intro r hr
    exact (specOrder_mem log e r).1 (hsub.subset hr)
  · intro nd
    have : (regsFor log e).Nodup := List.Nodup.sublist List.filter_sublist nd
    exact List.Nodup.sublist hsub ((specOrder_perm log e).nodup_iff.2 this)

/-! ## The code refines the specification, over all histories -/

/-- Master theorem: for EVERY history the model of the code raises nothing (none of the
`KeyError` branches is reachable), and every output is what the property demands given the
registrations made before that operation; the final state represents the log. -/
theorem run_refines_spec (ops : List Op) :
    ∃ s outs, run init ops = .ok (s, outs) ∧ Inv s (logOf ops) ∧ AgreesAll [] ops outs := by
  simpa using run_agrees ops init [] Inv.init

/-- No exception escapes, one output per operation. -/
theorem no_error (ops : List Op) :
    ∃ s outs, run init ops = .ok (s, outs) ∧ outs.length = ops.length := by
  obtain ⟨s, outs, h1, _, h3⟩ := run_refines_spec ops
  exact ⟨s, outs, h1, h3.length⟩

/-- The output of the operation at any position of any history is acceptable with respect
to the registrations made before it. -/
theorem output_at (pre : List Op) (op : Op) (post : List Op) :
    ∃ s outs o, run init (pre ++ op :: post) = .ok (s, outs) ∧ outs[pre.length]? = some o ∧
      Agrees (logOf pre) op o := by
  obtain ⟨s, outs, h1, _, h3⟩ := run_refines_spec (pre ++ op :: post)
  obtain ⟨o, h4, h5⟩ := h3.at pre
  exact ⟨s, outs, o, h1, h4, by simpa using h5⟩

/-- (a) Cache invariant: in every reachable state, whenever `_sorted` holds an entry for `e`
it is the specification order of the registrations so far; the cache only has entries for
events that have listeners, and its keys are distinct. -/
theorem cache_inv (ops : List Op) (s : State) (outs : List Out) (h : run init ops = .ok (s, outs))
    (e : Nat) (c : List Listener) (hc : dictGet? e s.sorted = some c) :
    c = (specOrder (logOf ops) e).map (fun r => r.l) ∧ dictHas e s.listeners = true := by
  obtain ⟨s', outs', h1, h2, _⟩ := run_refines_spec ops
  rw [h] at h1
  cases h1
  exact h2.cache e c hc

/-- (a') What the cache is computed from: in every reachable state the priority dict of an
event has distinct keys and the bucket of priority `p` lists the listeners registered for
the event with priority `p`, in registration order. -/
theorem buckets_inv (ops : List Op) (s : State) (outs : List Out) (h : run init ops = .ok (s, outs))
    (e : Nat) :
    match dictGet? e s.listeners with
    | none => regsFor (logOf ops) e = []
    | some d => regsFor (logOf ops) e ≠ [] ∧ (d.map Prod.fst).Nodup ∧
        ∀ p, (dictGet? p d).getD [] =
          ((regsFor (logOf ops) e).filter (fun r => r.prio == p)).map (fun r => r.l) := by
  obtain ⟨s', outs', h1, h2, _⟩ := run_refines_spec ops
  rw [h] at h1
  cases h1
  cases hd : dictGet? e s.listeners with
  | none => exact h2.absent e hd
  | some d => exact ⟨(h2.present e d hd).1, (h2.present e d hd).2.nodup, (h2.present e d hd).2.bucket⟩

/-- (b) For every history, a dispatch of `e` (event flag `st` on entry) calls exactly
`callSeq (registrations so far) e st` - by `callSeq_spec` the prefix of `specOrder` up to and
including the first listener that stops propagation, by `callSeq_each_once` each listener
once and none registered for another event - and returns the event stopped iff it arrived
stopped or a called listener stopped it. -/
theorem dispatch_spec (pre : List Op) (e : Nat) (st : Bool) (post : List Op) :
    ∃ s outs, run init (pre ++ .dispatch e st :: post) = .ok (s, outs) ∧
      outs[pre.length]? = some (.called ((callSeq (logOf pre) e st).map (fun r => r.l))
        (st || (callSeq (logOf pre) e st).any (fun r => r.l.stops))) := by
  obtain ⟨s, outs, o, h1, h2, h3⟩ := output_at pre (.dispatch e st) post
  exact ⟨s, outs, h1, by rw [h2, h3]⟩

/-- (b, repeated registrations) Nothing above asks the registered callables to be distinct: a
callable registered `n` times for an event (the same object, or equal bound methods of one object;
at one priority or at several) is `n` registrations, each with its own rank in `specOrder`.  For
every history in which no listener of the event stops propagation, a dispatch walks through the
whole specification order - one call per registration, at the rank of that registration - so every
callable is called exactly as often as it was registered for the event. -/
theorem registration_called_per_registration (pre : List Op) (e : Nat) (post : List Op)
    (h : ∀ r ∈ logOf pre, r.ev = e → r.l.stops = false) :
    ∃ s outs called, run init (pre ++ .dispatch e false :: post) = .ok (s, outs) ∧
      outs[pre.length]? = some (.called called false) ∧
      called = (specOrder (logOf pre) e).map (fun r => r.l) ∧
      ∀ l, called.count l = ((regsFor (logOf pre) e).map (fun r => r.l)).count l := by
  obtain ⟨s, outs, h1, h2⟩ := dispatch_spec pre e false post
  rw [callSeq_all (logOf pre) e h] at h2
  have hany : (specOrder (logOf pre) e).any (fun r => r.l.stops) = false := by
    rw [List.any_eq_false]
    intro r hr
    have := (specOrder_mem _ e r).1 hr
    simp [h r this.1 this.2]
  refine ⟨s, outs, _, h1, ?_, rfl, ?_⟩
  · rw [h2, hany]; rfl
  · intro l
    exact ((specOrder_perm (logOf pre) e).map _).count_eq l

/-! ### Event objects of user classes (the public stop protocol)

`Event` is a base class applications derive from; a derived class may implement
`stop_propagation()` / `is_propagation_stopped()` itself.  The dispatcher must judge "stopped"
by that protocol alone. -/

/-- (b') An event of ANY class that implements the protocol faithfully (stopped after
`stop_propagation()`, not changed by whatever else listeners do to the event) is treated exactly
like the stock event whose flag is the class's answer on entry: `_do_dispatch` calls the same
listeners and the event answers the same afterwards - wherever the class keeps its state
(forwarded to a wrapped event, another attribute, ...).  Hence `dispatch_spec` holds for
dispatches with such events. -/
theorem custom_event_faithful {σ : Type} (P : EvProto σ)
    (hstop : ∀ s, P.isStopped (P.stop s) = true)
    (htouch : ∀ s, P.isStopped (P.touch s) = P.isStopped s) (ls : List Listener) (s : σ) :
    (doDispatchEv P ls s).1 = (doDispatch ls (P.isStopped s)).1 ∧
      P.isStopped (doDispatchEv P ls s).2 = (doDispatch ls (P.isStopped s)).2 :=
  doDispatchEv_faithful P hstop htouch ls s

/-- the stock event is the instance `plainEvent` -/
theorem plain_event_is_doDispatch (ls : List Listener) (st : Bool) :
    doDispatchEv plainEvent ls st = doDispatch ls st := by
  have h := doDispatchEv_faithful plainEvent (fun _ => rfl) (fun _ => rfl) ls st
  exact Prod.ext h.1 h.2

/-- (b'') An event class that is NOT a flag: a fresh event that reports itself stopped once `n`
listeners have seen it (or one of them stopped it).  For every history, its dispatch calls
exactly the first `n` of the listeners a stock event would reach, and afterwards the event
answers "stopped" iff a called listener stopped it or `n` listeners were called. -/
theorem dispatch_budget_spec (pre : List Op) (e : Nat) (n : Nat) (post : List Op) :
    ∃ s outs, run init (pre ++ .dispatchN e n :: post) = .ok (s, outs) ∧
      outs[pre.length]? = some (.called (((callSeq (logOf pre) e false).take n).map (fun r => r.l))
        (((callSeq (logOf pre) e false).take n).any (fun r => r.l.stops) ||
          decide (n ≤ ((callSeq (logOf pre) e false).take n).length))) := by
  obtain ⟨s, outs, o, h1, h2, h3⟩ := output_at pre (.dispatchN e n) post
  exact ⟨s, outs, h1, by rw [h2, h3]; rfl⟩

/-- with a budget of 0 the event arrives stopped: nobody is called -/
theorem dispatch_budget_zero (pre : List Op) (e : Nat) (post : List Op) :
    ∃ s outs, run init (pre ++ .dispatchN e 0 :: post) = .ok (s, outs) ∧
      outs[pre.length]? = some (.called [] true) := by
  obtain ⟨s, outs, h1, h2⟩ := dispatch_budget_spec pre e 0 post
  exact ⟨s, outs, h1, by simpa using h2⟩

/-- with a budget no listener sequence exhausts, the budget event is the stock event -/
theorem dispatch_budget_large (pre : List Op) (e : Nat) (n : Nat) (post : List Op)
    (hn : (callSeq (logOf pre) e false).length < n) :
    ∃ s outs, run init (pre ++ .dispatchN e n :: post) = .ok (s, outs) ∧
      outs[pre.length]? = some (.called ((callSeq (logOf pre) e false).map (fun r => r.l))
        ((callSeq (logOf pre) e false).any (fun r => r.l.stops))) := by
  obtain ⟨s, outs, h1, h2⟩ := dispatch_budget_spec pre e n post
  refine ⟨s, outs, h1, ?_⟩
  rw [h2, List.take_of_length_le (Nat.le_of_lt hn)]
  have : decide (n ≤ (callSeq (logOf pre) e false).length) = false := by
    simp only [decide_eq_false_iff_not]; omega
  rw [this, Bool.or_false]

theorem mem_takeThrough_or {α : Type} (p : α → Bool) {x : α} : ∀ {l : List α}, x ∈ l →
    x ∈ takeThrough p l ∨ ∃ y ∈ takeThrough p l, p y = true
  | [], h => by simp at h
  | a :: t, h => by
    cases ha : p a with
    | true => exact Or.inr ⟨a, by simp [takeThrough, ha], ha⟩
    | false =>
      rcases List.mem_cons.1 h with rfl | h
      · exact Or.inl (by simp [takeThrough, ha])
      · rcases mem_takeThrough_or p h with h' | ⟨y, hy, hp⟩
        · exact Or.inl (by simp [takeThrough, ha, h'])
        · exact Or.inr ⟨y, by simp [takeThrough, ha, hy], hp⟩

/-- (c) A listener registered after a dispatch takes part in the next dispatch of its event
(whatever happens in between): it is in the order that dispatch walks through, and it is
called unless a listener that was called stopped propagation. -/
theorem late_registration (pre : List Op) (e : Nat) (st0 : Bool) (l : Listener) (p : Int)
    (mid post : List Op) :
    let h1 := pre ++ .dispatch e st0 :: .add e l p :: mid
    ∃ s outs called fl, run init (h1 ++ .dispatch e false :: post) = .ok (s, outs) ∧
      outs[h1.length]? = some (.called called fl) ∧
      called = (callSeq (logOf h1) e false).map (fun r => r.l) ∧
      (⟨e, p, l⟩ : Reg) ∈ specOrder (logOf h1) e ∧
      (l ∈ called ∨ ∃ x ∈ called, x.stops = true) := by
  intro h1
  obtain ⟨s, outs, r1, r2⟩ := dispatch_spec h1 e false post
  have hmem : (⟨e, p, l⟩ : Reg) ∈ specOrder (logOf h1) e := by
    rw [specOrder_mem]
    refine ⟨?_, rfl⟩
    simp [h1, logOf_append, logOf_cons, regOf]
  refine ⟨s, outs, _, _, r1, r2, rfl, hmem, ?_⟩
  rcases mem_takeThrough_or (fun r : Reg => r.l.stops) hmem with h | ⟨y, hy, hs⟩
  · exact Or.inl (List.mem_map.2 ⟨_, by simpa [callSeq] using h, rfl⟩)
  · exact Or.inr ⟨y.l, List.mem_map.2 ⟨y, by simpa [callSeq] using hy, rfl⟩, hs⟩

/-- (d1) `has_listeners(e)` is true iff a listener was registered for `e`;
`has_listeners()` iff any listener was registered at all. -/
theorem query_has_listeners (pre : List Op) (eo : Option Nat) (post : List Op) :
    ∃ s outs, run init (pre ++ .hasListeners eo :: post) = .ok (s, outs) ∧
      outs[pre.length]? = some (.bool (match eo with
        | some e => !(regsFor (logOf pre) e).isEmpty
        | none => !(logOf pre).isEmpty)) := by
  obtain ⟨s, outs, o, h1, h2, h3⟩ := output_at pre (.hasListeners eo) post
  refine ⟨s, outs, h1, ?_⟩
  cases eo <;> (rw [h2, h3])

/-- (d2) `get_listeners(e)` is the specification order of the registrations so far. -/
theorem query_get_listeners (pre : List Op) (e : Nat) (post : List Op) :
    ∃ s outs, run init (pre ++ .getListeners (some e) :: post) = .ok (s, outs) ∧
      outs[pre.length]? = some (.list ((specOrder (logOf pre) e).map (fun r => r.l))) := by
  obtain ⟨s, outs, o, h1, h2, h3⟩ := output_at pre (.getListeners (some e)) post
  exact ⟨s, outs, h1, by rw [h2, h3]⟩

/-- (d3) `get_listeners()` is a dict with distinct keys that maps exactly the events having
registrations to their specification order. -/
theorem query_get_all_listeners (pre : List Op) (post : List Op) :
    ∃ s outs d, run init (pre ++ .getListeners none :: post) = .ok (s, outs) ∧
      outs[pre.length]? = some (.dict d) ∧ (d.map Prod.fst).Nodup ∧
      ∀ e, dictGet? e d = if (regsFor (logOf pre) e).isEmpty then none
        else some ((specOrder (logOf pre) e).map (fun r => r.l)) := by
  obtain ⟨s, outs, o, h1, h2, d, h3, h4, h5⟩ := output_at pre (.getListeners none) post
  exact ⟨s, outs, d, h1, by rw [h2, h3], h4, h5⟩

/-- (d4) `get_listener_priority(e, l)` is `None` iff `l` is not registered for `e`, and
otherwise a priority `l` was registered with for `e`. -/
theorem query_get_priority (pre : List Op) (e : Nat) (l : Listener) (post : List Op) :
    ∃ s outs r, run init (pre ++ .getPriority e l :: post) = .ok (s, outs) ∧
      outs[pre.length]? = some (.prio r) ∧
      (r = none ↔ ∀ x ∈ logOf pre, x.ev = e → x.l ≠ l) ∧
      (∀ p, r = some p → (⟨e, p, l⟩ : Reg) ∈ logOf pre) := by
  obtain ⟨s, outs, o, h1, h2, r, h3, h4, h5⟩ := output_at pre (.getPriority e l) post
  refine ⟨s, outs, r, h1, by rw [h2, h3], ?_, ?_⟩
  · rw [h4]
    constructor
    · intro h x hx he; exact h x (mem_regsFor.2 ⟨hx, he⟩)
    · intro h x hx; exact h x (mem_regsFor.1 hx).1 (mem_regsFor.1 hx).2
  · intro p hp
    obtain ⟨x, hx, hl, hpp⟩ := h5 p hp
    have := mem_regsFor.1 hx
    obtain ⟨xe, xp, xl⟩ := x
    simp only at hl hpp this
    rw [← hl, ← hpp, ← this.2]
    exact this.1

/-- (d4') In particular, when `l` was registered for `e` with one priority only (e.g. once),
`get_listener_priority(e, l)` is that priority. -/
theorem query_get_priority_unique (pre : List Op) (e : Nat) (l : Listener) (p : Int) (post : List Op)
    (hreg : (⟨e, p, l⟩ : Reg) ∈ logOf pre)
    (huniq : ∀ q, (⟨e, q, l⟩ : Reg) ∈ logOf pre → q = p) :
    ∃ s outs, run init (pre ++ .getPriority e l :: post) = .ok (s, outs) ∧
      outs[pre.length]? = some (.prio (some p)) := by
  obtain ⟨s, outs, r, h1, h2, h3, h4⟩ := query_get_priority pre e l post
  refine ⟨s, outs, h1, ?_⟩
  cases r with
  | none => exact absurd rfl (h3.1 rfl _ hreg rfl)
  | some q => rw [h2, huniq q (h4 q rfl)]

/-- The queries `has_listeners` and `get_listener_priority` do not change the state (they can
be inserted anywhere in a history without affecting any other output). -/
theorem pure_queries (s : State) (op : Op) (s' : State) (o : Out)
    (hop : (∃ eo, op = .hasListeners eo) ∨ (∃ e l, op = .getPriority e l))
    (h : step s op = .ok (s', o)) : s' = s := by
  rcases hop with ⟨eo, rfl⟩ | ⟨e, l, rfl⟩
  · cases eo with
    | none => simp [step] at h; exact h.1.symm
    | some e =>
      simp only [step, bind, Except.bind, pure, Except.pure] at h
      split at h
      · cases h
      · cases h; rfl
  · simp only [step, bind, Except.bind, pure, Except.pure] at h
    split at h
    · cases h
    · cases h; rfl

/-- The executable specification printed by the driver (`specRun`) is acceptable, and for
every operation whose result is not a dict or an optional priority it is the only acceptable
output - so the model's outputs equal it there. -/
theorem specRun_acceptable : ∀ (ops : List Op) (log : List Reg), AgreesAll log ops (specRun log ops)
  | [], _ => trivial
  | op :: ops, log => ⟨specOut_agrees log op, specRun_acceptable ops _⟩

theorem agrees_iff_specOut (log : List Reg) (op : Op) (o : Out) (h : determined op = true) :
    Agrees log op o ↔ o = specOut log op := by
  cases op with
  | add e l p => rfl
  | dispatch e st => rfl
  | dispatchN e n => rfl
  | hasListeners eo => cases eo <;> rfl
  | getListeners eo =>
    cases eo with
    | some e => rfl
    | none => simp [determined] at h
  | getPriority e l => simp [determined] at h

theorem agreesAll_eq_specRun : ∀ (ops : List Op) (log : List Reg) (outs : List Out),
    ops.all determined = true → AgreesAll log ops outs → outs = specRun log ops
  | [], _, [], _, _ => rfl
  | [], _, _ :: _, _, h => by simp [AgreesAll] at h
  | _ :: _, _, [], _, h => by simp [AgreesAll] at h
  | op :: ops, log, o :: os, hd, h => by
    simp only [List.all_cons, Bool.and_eq_true] at hd
    rw [specRun, (agrees_iff_specOut log op o hd.1).1 h.1,
      agreesAll_eq_specRun ops _ os hd.2 h.2]

/-- On histories of determined operations the model of the code computes exactly the
executable specification. -/
theorem run_eq_specRun (ops : List Op) (hd : ops.all determined = true) :
    ∃ s, run init ops = .ok (s, specRun [] ops) := by
  obtain ⟨s, outs, h1, _, h3⟩ := run_refines_spec ops
  exact ⟨s, by rw [h1, agreesAll_eq_specRun ops [] outs hd h3]⟩

/-! ## Hypotheses discharged: reachable states, callables registered once

`cache_inv` / `buckets_inv` speak about a state reached by a history; `no_error` shows every
history reaches one, the corollary below combines the two.  "Each callable is registered at most
once per event" (the assumption under which the correspondence generates histories) is decided
by `regOnceB` (`Model/Dispatcher.lean`); the driver evaluates it on the log of every generated
history (`c12.run`, field `wf`) and the correspondence compares it with what the history says. -/

/-- (a), unconditionally: every history reaches a state, and in that state every cache entry is
the specification order of the registrations so far. -/
theorem cache_inv_total (ops : List Op) :
    ∃ s outs, run init ops = .ok (s, outs) ∧
      ∀ e c, dictGet? e s.sorted = some c →
        c = (specOrder (logOf ops) e).map (fun r => r.l) ∧ dictHas e s.listeners = true := by
  obtain ⟨s, outs, h, _⟩ := no_error ops
  exact ⟨s, outs, h, fun e c hc => cache_inv ops s outs h e c hc⟩

/-- `regOnceB` decides "no listener is registered twice for one event" -/
theorem reg_once_decides (log : List Reg) :
    regOnceB log = true ↔ log.Pairwise (fun a b => ¬(a.ev = b.ev ∧ a.l = b.l)) :=
  regOnceB_iff log

/-- When every callable was registered at most once per event (decided by `regOnceB`), a dispatch
calls each LISTENER at most once, and only listeners registered for this event. -/
theorem dispatch_each_once_decided (pre : List Op) (e : Nat) (st : Bool) (post : List Op)
    (h : regOnceB (logOf pre) = true) :
    ∃ s outs called fl, run init (pre ++ .dispatch e st :: post) = .ok (s, outs) ∧
      outs[pre.length]? = some (.called called fl) ∧ called.Nodup ∧
      ∀ l ∈ called, ∃ p, (⟨e, p, l⟩ : Reg) ∈ logOf pre := by
  obtain ⟨s, outs, h1, h2⟩ := dispatch_spec pre e st post
  refine ⟨s, outs, _, _, h1, h2, ?_, ?_⟩
  · have hn := ((regOnceB_iff _).1 h).nodup_listeners e
    have hp : ((specOrder (logOf pre) e).map (fun r => r.l)).Perm ((regsFor (logOf pre) e).map (fun r => r.l)) :=
      (specOrder_perm (logOf pre) e).map _
    exact List.Nodup.sublist ((callSeq_sublist (logOf pre) e st).map _) (hp.nodup_iff.2 hn)
  · intro l hl
    obtain ⟨r, hr, rfl⟩ := List.mem_map.1 hl
    obtain ⟨hm, he⟩ := (callSeq_each_once (logOf pre) e st).2.1 r hr
    refine ⟨r.prio, ?_⟩
    obtain ⟨re, rp, rl⟩ := r
    simp only at he
    subst he
    exact hm

/-- ... and `get_listener_priority(e, l)` is THE priority `l` was registered with for `e`
(`query_get_priority_unique` with its uniqueness hypothesis decided). -/
theorem query_get_priority_decided (pre : List Op) (e : Nat) (l : Listener) (p : Int) (post : List Op)
    (h : regOnceB (logOf pre) = true) (hreg : (⟨e, p, l⟩ : Reg) ∈ logOf pre) :
    ∃ s outs, run init (pre ++ .getPriority e l :: post) = .ok (s, outs) ∧
      outs[pre.length]? = some (.prio (some p)) := by
  refine query_get_priority_unique pre e l p post hreg ?_
  intro q hq
  have := ((regOnceB_iff _).1 h).unique hq hreg rfl rfl
  exact congrArg Reg.prio this

/-! ## Non-vacuity -/

private def la : Listener := ⟨0, false⟩
private def lb : Listener := ⟨1, true⟩
private def lc : Listener := ⟨2, false⟩
private def ld : Listener := ⟨3, false⟩

/-- priorities 0, 5, 5, -1 registered in this order: the order is 5 (first), 5 (second), 0, -1 -/
example : specOrder [⟨0, 0, la⟩, ⟨0, 5, lc⟩, ⟨1, 9, ld⟩, ⟨0, 5, lb⟩, ⟨0, -1, ld⟩] 0
    = [⟨0, 5, lc⟩, ⟨0, 5, lb⟩, ⟨0, 0, la⟩, ⟨0, -1, ld⟩] := by decide

/-- the dispatch stops after `lb` (which stops propagation); `la` and `ld` are not called -/
example : callSeq [⟨0, 0, la⟩, ⟨0, 5, lc⟩, ⟨1, 9, ld⟩, ⟨0, 5, lb⟩, ⟨0, -1, ld⟩] 0 false
    = [⟨0, 5, lc⟩, ⟨0, 5, lb⟩] := by decide

/-- a concrete history through the MODEL OF THE CODE (via `dispatch_spec`): register, dispatch
(fills the cache), register a higher-priority listener late, dispatch again - the late
listener is called first. -/
example : ∃ s outs, run init [.add 0 la 0, .dispatch 0 false, .add 0 lc 7, .dispatch 0 false] = .ok (s, outs) ∧
    outs[3]? = some (.called [lc, la] false) := by
  have h := dispatch_spec [.add 0 la 0, .dispatch 0 false, .add 0 lc 7] 0 false []
  have e : callSeq (logOf [.add 0 la 0, .dispatch 0 false, .add 0 lc 7]) 0 false
      = [⟨0, 7, lc⟩, ⟨0, 0, la⟩] := by decide
  rw [e] at h
  exact h

/-- ONE callable (`la`) registered three times for one event, at priorities 10, -10 and 0 around `lc` at 0:
the dispatch calls it once per registration, each at the rank of that registration -/
example : ∃ s outs, run init [.add 0 la 10, .add 0 lc 0, .add 0 la (-10), .add 0 la 0, .dispatch 0 false] = .ok (s, outs) ∧
    outs[4]? = some (.called [la, lc, la, la] false) := by
  obtain ⟨s, outs, called, h1, h2, h3, _⟩ :=
    registration_called_per_registration [.add 0 la 10, .add 0 lc 0, .add 0 la (-10), .add 0 la 0] 0 [] (by decide)
  have e : (specOrder (logOf [.add 0 la 10, .add 0 lc 0, .add 0 la (-10), .add 0 la 0]) 0).map (fun r => r.l)
      = [la, lc, la, la] := by decide
  rw [e] at h3
  subst h3
  exact ⟨s, outs, h1, h2⟩

/-- ... and a stopping listener (`lb`) between two registrations of the same callable ends the dispatch
after the first of them (via `dispatch_spec`) -/
example : ∃ s outs, run init [.add 0 la (-10), .add 0 lb 0, .add 0 la 10, .dispatch 0 false] = .ok (s, outs) ∧
    outs[3]? = some (.called [la, lb] true) := by
  have h := dispatch_spec [.add 0 la (-10), .add 0 lb 0, .add 0 la 10] 0 false []
  have e : callSeq (logOf [.add 0 la (-10), .add 0 lb 0, .add 0 la 10]) 0 false
      = [⟨0, 10, la⟩, ⟨0, 0, lb⟩] := by decide
  rw [e] at h
  exact h

/-- a user event that reports itself stopped after two calls: of `lc` (7), `la` (0), `ld` (-1)
the first two are called and the event then answers "stopped" -/
example : ∃ s outs, run init [.add 0 la 0, .add 0 ld (-1), .add 0 lc 7, .dispatchN 0 2] = .ok (s, outs) ∧
    outs[3]? = some (.called [lc, la] true) := by
  have h := dispatch_budget_spec [.add 0 la 0, .add 0 ld (-1), .add 0 lc 7] 0 2 []
  have e : callSeq (logOf [.add 0 la 0, .add 0 ld (-1), .add 0 lc 7]) 0 false
      = [⟨0, 7, lc⟩, ⟨0, 0, la⟩, ⟨0, -1, ld⟩] := by decide
  rw [e] at h
  exact h

/-- an event class keeping its state elsewhere (a pair: the wrapped event's flag, the unused
base flag) satisfies the hypotheses of `custom_event_faithful` -/
example : ∀ ls (s : Bool × Bool),
    (doDispatchEv { isStopped := fun s => s.1, stop := fun s => (true, s.2), touch := id } ls s).1
      = (doDispatch ls s.1).1 :=
  fun ls s => (custom_event_faithful _ (fun _ => rfl) (fun _ => rfl) ls s).1

/-- the hypotheses of `query_get_priority_unique` are satisfiable -/
example : ∃ s outs, run init [.add 0 la 3, .add 1 la 4, .getPriority 0 la] = .ok (s, outs) ∧
    outs[2]? = some (.prio (some 3)) :=
  query_get_priority_unique [.add 0 la 3, .add 1 la 4] 0 la 3 [] (by decide)
    (by intro q hq; simp [logOf, regOf] at hq; exact hq)

/-- a whole history through the model of the code: equal priorities keep registration order,
the stopping listener `lb` ends the dispatch, a pre-stopped event calls nobody -/
example : ∃ s, run init [.add 0 la 0, .add 0 lb 5, .add 0 lc 5, .add 0 ld 5, .dispatch 0 false,
      .dispatch 0 true, .getListeners (some 0), .hasListeners (some 1), .hasListeners none]
    = .ok (s, [.unit, .unit, .unit, .unit, .called [lb] true, .called [] true,
               .list [lb, lc, ld, la], .bool false, .bool true]) :=
  run_eq_specRun _ (by decide)

/-! ### every hypothesis of the theorems above is satisfiable (instances through the theorems) -/

private def exLog : List Reg := [⟨0, 0, la⟩, ⟨0, 5, lc⟩, ⟨1, 9, ld⟩, ⟨0, 5, lb⟩, ⟨0, -1, ld⟩]

/-- `specOrder_unique`: a list that is sorted and stable IS the specification order -/
example : [⟨0, 5, lc⟩, ⟨0, 5, lb⟩, ⟨0, 0, la⟩, ⟨0, -1, ld⟩] = specOrder exLog 0 := by
  refine specOrder_unique exLog 0 _ (by decide) ?_
  intro p
  have h := specOrder_stable exLog 0 p
  rw [show specOrder exLog 0 = [⟨0, 5, lc⟩, ⟨0, 5, lb⟩, ⟨0, 0, la⟩, ⟨0, -1, ld⟩] by decide] at h
  exact h

/-- `callSeq_all`: nobody registered for event 1 stops propagation -/
example : callSeq exLog 1 false = specOrder exLog 1 :=
  callSeq_all exLog 1 (by decide)

/-- `callSeq_each_once`: a log without repeated registrations -/
example : (callSeq exLog 0 false).Nodup := (callSeq_each_once exLog 0 false).2.2 (by decide)

/-- `cache_inv` / `buckets_inv`: the state a history reaches (`no_error`), after a dispatch filled
the cache -/
example : ∃ s outs, run init [.add 0 la 0, .add 0 lc 7, .dispatch 0 false] = .ok (s, outs) ∧
    ∀ c, dictGet? 0 s.sorted = some c → c = [lc, la] := by
  obtain ⟨s, outs, h, _⟩ := no_error [.add 0 la 0, .add 0 lc 7, .dispatch 0 false]
  refine ⟨s, outs, h, fun c hc => ?_⟩
  rw [(cache_inv _ s outs h 0 c hc).1]
  decide

/-- `pure_queries`: a query step -/
example : ∀ s' o, step init (.hasListeners (some 3)) = .ok (s', o) → s' = init :=
  fun s' o h => pure_queries init _ s' o (Or.inl ⟨_, rfl⟩) h

/-- the decider accepts a history in which every callable is registered once per event (the same
callable for two events is fine), and rejects a double registration -/
example : regOnceB exLog = true ∧ regOnceB [⟨0, 0, la⟩, ⟨0, 5, la⟩] = false := by decide

/-- `dispatch_each_once_decided` / `query_get_priority_decided` apply -/
example : ∃ s outs, run init [.add 0 la 3, .add 1 la 4, .add 0 lc 3, .getPriority 0 la] = .ok (s, outs) ∧
    outs[3]? = some (.prio (some 3)) :=
  query_get_priority_decided [.add 0 la 3, .add 1 la 4, .add 0 lc 3] 0 la 3 [] (by decide) (by decide)

/-! ### non-vacuity of the budget-event theorems (hypothesis audit, rounds 8-9) -/

/-- `dispatch_budget_large`, hypothesis discharged: three listeners, a budget of 5 - the budget event behaves like the
stock event (all three called, not stopped) -/
example : ∃ s outs, run init [.add 0 la 0, .add 0 ld (-1), .add 0 lc 7, .dispatchN 0 5] = .ok (s, outs) ∧
    outs[3]? = some (.called [lc, la, ld] false) := by
  have h := dispatch_budget_large [.add 0 la 0, .add 0 ld (-1), .add 0 lc 7] 0 5 [] (by decide)
  have e : callSeq (logOf [.add 0 la 0, .add 0 ld (-1), .add 0 lc 7]) 0 false
      = [⟨0, 7, lc⟩, ⟨0, 0, la⟩, ⟨0, -1, ld⟩] := by decide
  rw [e] at h
  exact h

/-- `dispatch_budget_zero` on the same history -/
example : ∃ s outs, run init [.add 0 la 0, .dispatchN 0 0] = .ok (s, outs) ∧ outs[1]? = some (.called [] true) :=
  dispatch_budget_zero [.add 0 la 0] 0 []

/-- the hypotheses of `custom_event_faithful` are not empty: the budget event (stopped once `n` listeners saw it)
violates `htouch` - it is modelled on its own (`dispatch_budget_spec`) -/
example : ¬ ∀ s, (budgetEvent 1).isStopped ((budgetEvent 1).touch s) = (budgetEvent 1).isStopped s :=
  fun h => absurd (h (0, false)) (by decide)

/-! ## Registration through the configuration (`Model/ConfigDispatcher.lean`)

`ApplicationConfig.set_event_dispatcher` / `add_event_listener` / `.dispatcher`: the caller's dispatcher object, the one
the configuration would create itself, and which of them the configuration refers to. -/
section Config

theorem run_cons' (s : State) (op : Op) (ops : List Op) :
    run s (op :: ops) =
      match step s op with
      | .error x => .error x
      | .ok (s1, o) =>
        match run s1 ops with
        | .error x => .error x
        | .ok (s2, os) => .ok (s2, o :: os) := by
  simp only [run, bind, Except.bind, pure, Except.pure]
  cases step s op with
  | error x => rfl
  | ok r =>
    obtain ⟨s1, o⟩ := r
    simp only
    cases run s1 ops with
    | error x => rfl
    | ok r2 => rfl

theorem step_add' (s : State) (e : Nat) (l : Listener) (p : Int) :
    step s (.add e l p) = match addListener s e l p with
      | .ok s' => .ok (s', .unit)
      | .error x => .error x := by
  simp only [step, bind, Except.bind, pure, Except.pure]
  cases addListener s e l p <;> rfl

/-- the configuration refers to the caller's dispatcher: every operation - through the configuration or on the
object itself - acts on that one dispatcher -/
theorem crun_caller (ops : List COp) : ∀ (c : CSt), c.cfg = .caller →
    crun c ops = match run c.own (ops.flatMap flat) with
      | .ok (s, outs) => .ok ({ c with own := s }, outs)
      | .error x => .error x := by
  induction ops with
  | nil => intro c _; simp [crun, run]
  | cons op ops ih =>
    intro c h
    obtain ⟨own, made, cfg⟩ := c
    simp only at h
    subst h
    cases op with
    | set =>
      simp only [crun, cstep, List.flatMap_cons, flat, List.nil_append]
      rw [ih _ rfl]
      cases run own (ops.flatMap flat) with
      | error x => rfl
      | ok r => rfl
    | cfgAdd e l p =>
      simp only [crun, cstep, List.flatMap_cons, flat, List.cons_append, List.nil_append, run_cons', step_add']
      cases addListener own e l p with
      | error x => rfl
      | ok s =>
        simp only
        rw [ih _ rfl]
        cases run s (ops.flatMap flat) with
        | error x => rfl
        | ok r => rfl
    | onOwn o =>
      simp only [crun, cstep, List.flatMap_cons, flat, List.cons_append, List.nil_append, run_cons']
      cases step own o with
      | error x => rfl
      | ok r =>
        obtain ⟨s, out⟩ := r
        simp only
        rw [ih _ rfl]
        cases run s (ops.flatMap flat) with
        | error x => rfl
        | ok r => rfl
    | onCfg o =>
      simp only [crun, cstep, List.flatMap_cons, flat, List.cons_append, List.nil_append, run_cons']
      cases step own o with
      | error x => rfl
      | ok r =>
        obtain ⟨s, out⟩ := r
        simp only
        rw [ih _ rfl]
        cases run s (ops.flatMap flat) with
        | error x => rfl
        | ok r => rfl


/-- **A dispatcher handed to the configuration stays THE dispatcher**: the caller registers any listeners `pre`
(none, one, many) on a dispatcher of its own, hands it over with `set_event_dispatcher`, and goes on - registering
through `config.add_event_listener` or on the object, dispatching / querying on the object or on `config.dispatcher`,
in any interleaving: outputs and final registrations are those of the same history on ONE dispatcher; the
configuration never creates another one.  No hypothesis on the number of listeners at hand-over. -/
theorem config_handed_over (pre : List Op) : ∀ (own made : State) (ops : List COp),
    crun ⟨own, made, .unset⟩ (pre.map .onOwn ++ .set :: ops) =
      match run own (pre ++ ops.flatMap flat) with
      | .ok (s, outs) => .ok (⟨s, made, .caller⟩, outs)
      | .error x => .error x := by
  induction pre with
  | nil =>
    intro own made ops
    simp only [List.map_nil, List.nil_append, crun, cstep]
    rw [crun_caller ops _ rfl]
    cases run own (ops.flatMap flat) with
    | error x => rfl
    | ok r => rfl
  | cons o pre ih =>
    intro own made ops
    simp only [List.map_cons, List.cons_append, crun, cstep, run_cons']
    cases step own o with
    | error x => rfl
    | ok r =>
      obtain ⟨s, out⟩ := r
      simp only
      rw [ih s made ops]
      cases run s (pre ++ ops.flatMap flat) with
      | error x => rfl
      | ok r => rfl

/-- ... hence (with `no_error`, `run_refines_spec`) such a history raises nothing and every dispatch on either
object calls exactly the listeners registered so far - through the configuration or directly - in the demanded order -/
theorem config_handed_over_spec (pre : List Op) (ops : List COp) :
    ∃ s outs, crun CSt.init (pre.map .onOwn ++ .set :: ops) = .ok (⟨s, Dispatcher.init, .caller⟩, outs) ∧
      Inv s (logOf (pre ++ ops.flatMap flat)) ∧ AgreesAll [] (pre ++ ops.flatMap flat) outs := by
  obtain ⟨s, outs, h1, h2, h3⟩ := run_refines_spec (pre ++ ops.flatMap flat)
  refine ⟨s, outs, ?_, h2, h3⟩
  have := config_handed_over pre Dispatcher.init Dispatcher.init ops
  rw [h1] at this
  exact this

/-- a configuration that was given no dispatcher creates one at the first `add_event_listener` and keeps it -/
theorem config_lazy_first (e : Nat) (l : Listener) (p : Int) (c : CSt) (h : c.cfg = .unset) :
    ∃ s, addListener Dispatcher.init e l p = .ok s ∧ cstep c (.cfgAdd e l p) = .ok ({ c with made := s, cfg := .made }, [.unit]) := by
  obtain ⟨s, outs, h1, _⟩ := no_error [.add e l p]
  simp only [run_cons', step_add'] at h1
  cases ha : addListener Dispatcher.init e l p with
  | error x => simp [ha] at h1
  | ok s' =>
    refine ⟨s', rfl, ?_⟩
    obtain ⟨own, made, cfg⟩ := c
    simp only at h
    subst h
    simp only [cstep, ha]

/-- an EMPTY dispatcher handed over, the first listener registered through the configuration, a second one on the
object: a dispatch on the caller's object calls both, the higher priority first -/
example : ∃ c outs, crun CSt.init [.set, .cfgAdd 0 la 0, .onOwn (.add 0 lc 1), .onOwn (.dispatch 0 false)] = .ok (c, outs) ∧
    outs[2]? = some (.called [lc, la] false) := by
  obtain ⟨s, outs, h1, h2⟩ := dispatch_spec [.add 0 la 0, .add 0 lc 1] 0 false []
  have e : callSeq (logOf [.add 0 la 0, .add 0 lc 1]) 0 false = [⟨0, 1, lc⟩, ⟨0, 0, la⟩] := by decide
  rw [e] at h2
  have c := config_handed_over [] Dispatcher.init Dispatcher.init
    [.cfgAdd 0 la 0, .onOwn (.add 0 lc 1), .onOwn (.dispatch 0 false)]
  have e2 : ([] : List Op) ++ [COp.cfgAdd 0 la 0, .onOwn (.add 0 lc 1), .onOwn (.dispatch 0 false)].flatMap flat =
      [.add 0 la 0, .add 0 lc 1] ++ .dispatch 0 false :: [] := rfl
  rw [e2, h1] at c
  exact ⟨_, outs, c, by simpa [la, lc] using h2⟩


/-- `crun_caller` applied (hypothesis audit, round 10): the configuration refers to the caller's dispatcher, a listener
is registered through the configuration and the event dispatched on `config.dispatcher` -/
example := crun_caller [.cfgAdd 0 la 0, .onCfg (.dispatch 0 false)] ⟨Dispatcher.init, Dispatcher.init, .caller⟩ rfl

/-- `config_lazy_first` applied to the fresh configuration -/
example := config_lazy_first 0 la 0 CSt.init rfl

/-- the case conditions are not idle: on a configuration that refers to NO dispatcher `config.dispatcher` is `None`
(the operation raises, where `crun_caller` promises the run on the caller's object), and a configuration that already
made a dispatcher keeps it (`cfg` stays `.made`, where `config_lazy_first` speaks of the first creation) -/
example : (match crun CSt.init [.onCfg (.dispatch 0 false)] with | .error _ => true | .ok _ => false) = true ∧
    (match crun CSt.init [.cfgAdd 0 la 0, .cfgAdd 0 lc 1] with
      | .ok (c, _) => decide (c.cfg = .made) | .error _ => false) = true := by decide

end Config

end Clikit.Props.C12
