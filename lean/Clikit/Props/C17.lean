import Clikit.Model.History
import Clikit.Props.C05
import Clikit.Lemmas.Dict
/-!
# C17 - what is rendered does not depend on what was processed before

The two mechanisms that could carry state from one run / render to the next are modelled with
their protocol read from the source on every run (`Gen/C17.lean`); the parser's scratch state is
C05's theorem.
-/
namespace Clikit.Props.C17
open Clikit Clikit.History Clikit.Gen.C17

/-! ## Runs -/

/-- **The help resolver leaves the leniency setting exactly as it found it**, on the normal and
on the exceptional exit, whatever the setting was (also a leniency the user had enabled). -/
theorem help_restores (cur : Option Bool) (innerOk : Bool) : helpCreate cur innerOk = cur := by
  cases innerOk <;> simp [helpCreate, helpRestoresInFinally, helpRestoresPrevious, helpRestoresAfterReturn]

/-- what a run observes depends on the hidden state only through the leniency settings -/
theorem obs_of_step {Line Obs : Type} (helpTarget : Line → Option (List Str × Bool))
    (outcome : Line → (List Str → Option Bool) → Obs) (s : AppState) (line : Line) :
    (runStep helpTarget outcome s line).2 = outcome line (lenientOf s) := by
  unfold runStep
  cases helpTarget line with
  | none => rfl
  | some t => rfl

/-- a run never changes the hidden state observably: every later lookup sees what it saw before -/
theorem run_restores {Line Obs : Type} (helpTarget : Line → Option (List Str × Bool))
    (outcome : Line → (List Str → Option Bool) → Obs) (s : AppState) (line : Line) :
    lenientOf (runStep helpTarget outcome s line).1 = lenientOf s := by
  funext p
  unfold runStep
  cases ht : helpTarget line with
  | none => rfl
  | some t =>
    obtain ⟨path, ok⟩ := t
    simp only [help_restores, lenientOf, dictGet?_dictSet]
    by_cases hp : (path == p) = true
    · have := eq_of_beq hp; subst this
      simp [hp]
    · simp [hp]

/-- **History independence**: on one application object, every run of any sequence of command
lines - help requests, failing runs, valid runs - observes exactly what a fresh application
(same initial settings) observes for that line. -/
theorem history_independent {Line Obs : Type} (helpTarget : Line → Option (List Str × Bool))
    (outcome : Line → (List Str → Option Bool) → Obs) (s : AppState) (lines : List Line) :
    runHistory helpTarget outcome s lines = lines.map (fun l => (runStep helpTarget outcome s l).2) := by
  induction lines generalizing s with
  | nil => rfl
  | cons l r ih =>
    simp only [runHistory, List.map_cons]
    rw [ih]
    congr 1
    apply List.map_congr_left
    intro l' _
    rw [obs_of_step, obs_of_step, run_restores]

/-- the parser object shared through a config is covered by C05 -/
theorem parser_history_independent (σ : Parser.St) (rs : List Props.C05.Req) :
    Props.C05.history σ rs = rs.map (fun r => Parser.parse r.cv r.fmt r.lenient r.tokens) :=
  Props.C05.history_independent σ rs

/-! ## Styles -/

theorem heapSet_length (h : Heap) (r i : Nat) (v : String) : (heapSet h r i v).length = h.length := by
  unfold heapSet; split <;> simp

theorem heapSet_other (h : Heap) (r i : Nat) (v : String) (q : Nat) (hq : q ≠ r) : (heapSet h r i v)[q]? = h[q]? := by
  unfold heapSet
  split
  · rfl
  · simp [List.getElem?_set, Ne.symm hq]

theorem foldSet_other (sets : List (Nat × String)) (r q : Nat) (hq : q ≠ r) :
    ∀ h : Heap, (sets.foldl (fun hh (iv : Nat × String) => heapSet hh r iv.1 iv.2) h)[q]? = h[q]? := by
  induction sets with
  | nil => intro h; rfl
  | cons iv rest ih => intro h; simp only [List.foldl_cons]; rw [ih, heapSet_other _ _ _ _ _ hq]

theorem foldSet_length (sets : List (Nat × String)) (r : Nat) :
    ∀ h : Heap, (sets.foldl (fun hh (iv : Nat × String) => heapSet hh r iv.1 iv.2) h).length = h.length := by
  induction sets with
  | nil => intro h; rfl
  | cons iv rest ih => intro h; simp only [List.foldl_cons]; rw [ih, heapSet_length]

/-- a factory that copies only ever writes to the object it has just allocated -/
theorem makeStyle_other (spec : String × Nat × Bool × List (Nat × String)) (hc : spec.2.2.1 = true) (h : Heap)
    (q : Nat) (hq : q < h.length) : (makeStyle spec h).2[q]? = h[q]? ∧ h.length ≤ (makeStyle spec h).2.length := by
  unfold makeStyle
  simp only [hc, if_true]
  split <;>
  · refine ⟨?_, ?_⟩
    · rw [foldSet_other _ _ _ (by omega)]
      simp [List.getElem?_append_left hq]
    · rw [foldSet_length]; simp

/-- **Creating or customising one style object never changes another**: the border style at an
existing reference `q` is untouched by any sequence of factory calls and of customisations of
OTHER styles - provided every predefined factory copies the cached instance it starts from. -/
theorem style_noninterference_of_copies (specs : List (String × Nat × Bool × List (Nat × String)))
    (hc : ∀ s ∈ specs, s.2.2.1 = true) (ops : List StyleOp) :
    ∀ (h : Heap) (q : Nat), q < h.length → (∀ op ∈ ops, ∀ i v, op ≠ .custom q i v) →
    (runOps specs h ops)[q]? = h[q]? := by
  induction ops with
  | nil => intro h q _ _; rfl
  | cons op rest ih =>
    intro h q hq hops
    simp only [runOps, List.foldl_cons]
    have hrest : ∀ op' ∈ rest, ∀ i v, op' ≠ .custom q i v := fun o ho => hops o (List.mem_cons_of_mem _ ho)
    cases op with
    | make k =>
      simp only [applyOp]
      cases hk : specs[k]? with
      | none => exact ih h q hq hrest
      | some s =>
        have hs : s ∈ specs := List.mem_of_getElem? hk
        obtain ⟨h1, h2⟩ := makeStyle_other s (hc s hs) h q hq
        have := ih (makeStyle s h).2 q (by omega) hrest
        simp only [runOps] at this
        rw [this, h1]
    | custom r i v =>
      simp only [applyOp]
      have hne : q ≠ r := by
        intro hqr
        exact hops (.custom r i v) List.mem_cons_self i v (by rw [hqr])
      have := ih (heapSet h r i v) q (by rw [heapSet_length]; exact hq) hrest
      simp only [runOps] at this
      rw [this, heapSet_other _ _ _ _ _ hne]

/-- the predefined factories of the current source all copy -/
theorem factories_copy : ∀ s ∈ tableStyles, s.2.2.1 = true := by decide

/-- **Style non-interference for the code as it is.** -/
theorem style_noninterference (ops : List StyleOp) (h : Heap) (q : Nat) (hq : q < h.length)
    (hops : ∀ op ∈ ops, ∀ i v, op ≠ .custom q i v) : (runOps tableStyles h ops)[q]? = h[q]? :=
  style_noninterference_of_copies tableStyles factories_copy ops h q hq hops

/-- D20 (repaired by "fix: table styles shared and mutated cached border styles"), kept as a proved
counterexample: with factories that alias the cached instance, creating `compact()` changes the
border style of a `borderless()` style created before. -/
theorem d20_aliasing_interferes :
    let specs := tableStyles.map fun s => (s.1, s.2.1, false, s.2.2.2)
    let h1 := runOps specs initialHeap [.make 0]            -- b = TableStyle.borderless()
    (runOps specs h1 [.make 1])[0]? ≠ h1[0]? := by          -- TableStyle.compact()
  decide

/-! Non-vacuity -/
example : (runOps tableStyles initialHeap [.make 0, .make 1, .custom 4 1 "x"])[3]?
    = (runOps tableStyles initialHeap [.make 0])[3]? := by decide
example : helpCreate (some true) false = some true := by decide

end Clikit.Props.C17
