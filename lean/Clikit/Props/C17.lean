import Clikit.Model.History
import Clikit.Props.C05
import Clikit.Lemmas.Dict
import Clikit.Lemmas.AppState
import Clikit.Lemmas.IndentShared
import Clikit.Model.RunIO
/-!
# C17 - what is rendered does not depend on what was processed before

The two mechanisms that could carry state from one run / render to the next are modelled with
their protocol read from the source on every run (`Gen/C17.lean`); the parser's scratch state is
C05's theorem.
-/
namespace Clikit.Props.C17
open Clikit Clikit.History Clikit.Gen.C17

/-! ## Runs -/

/-- **The help resolver leaves the leniency setting exactly as it found it**, on the normal and
on the exceptional exit, whatever the setting was (also a leniency the user had enabled). -/
theorem help_restores (cur : Option Bool) (innerOk : Bool) : helpCreate cur innerOk = cur := by
  cases innerOk <;> simp [helpCreate, helpRestoresInFinally, helpRestoresPrevious, helpRestoresAfterReturn]

/-- what a run observes depends on the hidden state only through the leniency settings -/
theorem obs_of_step {Line Obs : Type} (helpTarget : Line → Option (List Str × Bool))
    (outcome : Line → (List Str → Option Bool) → Obs) (s : AppState) (line : Line) :
    (runStep helpTarget outcome s line).2 = outcome line (lenientOf s) := by
  unfold runStep
  cases helpTarget line with
  | none => rfl
  | some t => rfl

/-- a run never changes the hidden state observably: every later lookup sees what it saw before -/
theorem run_restores {Line Obs : Type} (helpTarget : Line → Option (List Str × Bool))
    (outcome : Line → (List Str → Option Bool) → Obs) (s : AppState) (line : Line) :
    lenientOf (runStep helpTarget outcome s line).1 = lenientOf s := by
  funext p
  unfold runStep
  cases ht : helpTarget line with
  | none => rfl
  | some t =>
    obtain ⟨path, ok⟩ := t
    simp only [help_restores, lenientOf, dictGet?_dictSet]
    by_cases hp : (path == p) = true
    · have := eq_of_beq hp; subst this
      simp [hp]
    · simp [hp]

/-- **History independence**: on one application object, every run of any sequence of command
lines - help requests, failing runs, valid runs - observes exactly what a fresh application
(same initial settings) observes for that line. -/
theorem history_independent {Line Obs : Type} (helpTarget : Line → Option (List Str × Bool))
    (outcome : Line → (List Str → Option Bool) → Obs) (s : AppState) (lines : List Line) :
    runHistory helpTarget outcome s lines = lines.map (fun l => (runStep helpTarget outcome s l).2) := by
  induction lines generalizing s with
  | nil => rfl
  | cons l r ih =>
    simp only [runHistory, List.map_cons]
    rw [ih]
    congr 1
    apply List.map_congr_left
    intro l' _
    rw [obs_of_step, obs_of_step, run_restores]

/-- the parser object shared through a config is covered by C05 -/
theorem parser_history_independent (σ : Parser.St) (rs : List Props.C05.Req) :
    Props.C05.history σ rs = rs.map (fun r => Parser.parse r.cv r.fmt r.lenient r.tokens) :=
  Props.C05.history_independent σ rs

/-! ## Styles -/

theorem heapSet_length (h : Heap) (r i : Nat) (v : String) : (heapSet h r i v).length = h.length := by
  unfold heapSet; split <;> simp

theorem heapSet_other (h : Heap) (r i : Nat) (v : String) (q : Nat) (hq : q ≠ r) : (heapSet h r i v)[q]? = h[q]? := by
  unfold heapSet
  split
  · rfl
  · simp [List.getElem?_set, Ne.symm hq]

theorem foldSet_other (sets : List (Nat × String)) (r q : Nat) (hq : q ≠ r) :
    ∀ h : Heap, (sets.foldl (fun hh (iv : Nat × String) => heapSet hh r iv.1 iv.2) h)[q]? = h[q]? := by
  induction sets with
  | nil => intro h; rfl
  | cons iv rest ih => intro h; simp only [List.foldl_cons]; rw [ih, heapSet_other _ _ _ _ _ hq]

theorem foldSet_length (sets : List (Nat × String)) (r : Nat) :
    ∀ h : Heap, (sets.foldl (fun hh (iv : Nat × String) => heapSet hh r iv.1 iv.2) h).length = h.length := by
  induction sets with
  | nil => intro h; rfl
  | cons iv rest ih => intro h; simp only [List.foldl_cons]; rw [ih, heapSet_length]

/-- a factory that copies only ever writes to the object it has just allocated -/
theorem makeStyle_other (spec : String × Nat × Bool × List (Nat × String)) (hc : spec.2.2.1 = true) (h : Heap)
    (q : Nat) (hq : q < h.length) : (makeStyle spec h).2[q]? = h[q]? ∧ h.length ≤ (makeStyle spec h).2.length := by
  unfold makeStyle
  simp only [hc, if_true]
  split <;>
  · refine ⟨?_, ?_⟩
    · rw [foldSet_other _ _ _ (by omega)]
      simp [List.getElem?_append_left hq]
    · rw [foldSet_length]; simp

/-- **Creating or customising one style object never changes another**: the border style at an
existing reference `q` is untouched by any sequence of factory calls and of customisations of
OTHER styles - provided every predefined factory copies the cached instance it starts from. -/
theorem style_noninterference_of_copies (specs : List (String × Nat × Bool × List (Nat × String)))
    (hc : ∀ s ∈ specs, s.2.2.1 = true) (ops : List StyleOp) :
    ∀ (h : Heap) (q : Nat), q < h.length → (∀ op ∈ ops, ∀ i v, op ≠ .custom q i v) →
    (runOps specs h ops)[q]? = h[q]? := by
  induction ops with
  | nil => intro h q _ _; rfl
  | cons op rest ih =>
    intro h q hq hops
    simp only [runOps, List.foldl_cons]
    have hrest : ∀ op' ∈ rest, ∀ i v, op' ≠ .custom q i v := fun o ho => hops o (List.mem_cons_of_mem _ ho)
    cases op with
    | make k =>
      simp only [applyOp]
      cases hk : specs[k]? with
      | none => exact ih h q hq hrest
      | some s =>
        have hs : s ∈ specs := List.mem_of_getElem? hk
        obtain ⟨h1, h2⟩ := makeStyle_other s (hc s hs) h q hq
        have := ih (makeStyle s h).2 q (by omega) hrest
        simp only [runOps] at this
        rw [this, h1]
    | custom r i v =>
      simp only [applyOp]
      have hne : q ≠ r := by
        intro hqr
        exact hops (.custom r i v) List.mem_cons_self i v (by rw [hqr])
      have := ih (heapSet h r i v) q (by rw [heapSet_length]; exact hq) hrest
      simp only [runOps] at this
      rw [this, heapSet_other _ _ _ _ _ hne]

/-- the predefined factories of the current source all copy -/
theorem factories_copy : ∀ s ∈ tableStyles, s.2.2.1 = true := by decide

/-- **Style non-interference for the code as it is.** -/
theorem style_noninterference (ops : List StyleOp) (h : Heap) (q : Nat) (hq : q < h.length)
    (hops : ∀ op ∈ ops, ∀ i v, op ≠ .custom q i v) : (runOps tableStyles h ops)[q]? = h[q]? :=
  style_noninterference_of_copies tableStyles factories_copy ops h q hq hops

/-! ## the hypotheses are decided / observed on every real case

`style_noninterference` is about "the border style at reference `q`" of a heap of border objects.
Two facts connect it with the real objects and used to be taken for granted by the correspondence
(which addressed the j-th created style as heap object `3 + j`): every factory copies
(`factories_copy`, proved from the regenerated table) and therefore every created style owns a
FRESH object.  `refsOf` computes the references in the model; the harness computes them on the real
objects by identity and compares (entry `c17.styles_wf`). -/

/-- a copying factory returns a fresh reference: the new style's border is a new heap object -/
theorem makeStyle_fresh (spec : String × Nat × Bool × List (Nat × String)) (hc : spec.2.2.1 = true)
    (h : Heap) : (makeStyle spec h).1 = h.length ∧ (makeStyle spec h).2.length = h.length + 1 := by
  unfold makeStyle
  simp only [hc, if_true]
  split <;> simp [foldSet_length]

/-- what the deciders of the model mean -/
theorem styles_wf_decides (specs : List (String × Nat × Bool × List (Nat × String))) (q : Nat)
    (ops : List StyleOp) :
    (copiesB specs = true ↔ ∀ s ∈ specs, s.2.2.1 = true) ∧
    (untouchedB q ops = true ↔ ∀ op ∈ ops, ∀ i v, op ≠ .custom q i v) := by
  constructor
  · simp [copiesB]
  · simp only [untouchedB, List.all_eq_true]
    constructor
    · intro h op hop i v he
      have := h op hop
      rw [he] at this
      simp at this
    · intro h op hop
      cases op with
      | make k => rfl
      | custom r i v =>
        simp only [bne_iff_ne, ne_eq]
        intro hr
        exact h _ hop i v (by rw [hr])

/-- **Every created style owns an object of its own**: when all factories copy, the references of
the styles a history creates are `|heap|, |heap| + 1, …` - pairwise distinct, distinct from the
cached instances and from every object that existed before. -/
theorem refs_fresh (specs : List (String × Nat × Bool × List (Nat × String)))
    (hc : copiesB specs = true) (ops : List StyleOp) :
    ∀ h : Heap, refsOf specs h ops = List.range' h.length (makesOf specs ops) := by
  have hc' := (styles_wf_decides specs 0 []).1.mp hc
  induction ops with
  | nil => intro h; simp [refsOf, makesOf]
  | cons op rest ih =>
    intro h
    cases op with
    | make k =>
      cases hk : specs[k]? with
      | none =>
        have hlen : ¬ k < specs.length := by
          intro hlt; rw [List.getElem?_eq_getElem hlt] at hk; cases hk
        have := ih h
        simp only [makesOf] at this ⊢
        simp [refsOf, hlen, this]
      | some sp =>
        have hlen : k < specs.length := by
          apply Classical.byContradiction
          intro hn
          rw [List.getElem?_eq_none (by omega)] at hk; cases hk
        obtain ⟨h1, h2⟩ := makeStyle_fresh sp (hc' sp (List.mem_of_getElem? hk)) h
        have := ih (makeStyle sp h).2
        rw [h2] at this
        simp only [makesOf] at this ⊢
        simp only [refsOf, hk, List.filter_cons, hlen, decide_true, if_true, List.length_cons,
          List.range'_succ, h1, this]
    | custom r i v =>
      have := ih (heapSet h r i v)
      simp only [makesOf] at this ⊢
      simp [refsOf, this, heapSet_length]

/-- ... for the code as it is: the j-th style created from the initial heap owns object `3 + j` -/
theorem refs_fresh_source (ops : List StyleOp) :
    refsOf tableStyles initialHeap ops = List.range' 3 (makesOf tableStyles ops) :=
  refs_fresh tableStyles (by decide) ops initialHeap

/-- `style_noninterference` with its side condition decided -/
theorem style_noninterference_dec (ops : List StyleOp) (h : Heap) (q : Nat) (hq : q < h.length)
    (hops : untouchedB q ops = true) : (runOps tableStyles h ops)[q]? = h[q]? :=
  style_noninterference ops h q hq ((styles_wf_decides tableStyles q ops).2.mp hops)

/-- the form the correspondence checks: whatever was created and customised before (`ops1`), any
further history (`ops2`) that does not customise the style at `q` leaves its border as it was. -/
theorem style_noninterference_after (ops1 ops2 : List StyleOp) (q : Nat)
    (hq : q < (runOps tableStyles initialHeap ops1).length) (hops : untouchedB q ops2 = true) :
    (runOps tableStyles initialHeap (ops1 ++ ops2))[q]? = (runOps tableStyles initialHeap ops1)[q]? := by
  have : runOps tableStyles initialHeap (ops1 ++ ops2) =
      runOps tableStyles (runOps tableStyles initialHeap ops1) ops2 := by
    simp [runOps, List.foldl_append]
  rw [this]
  exact style_noninterference_dec ops2 _ q hq hops

/-- D20 (repaired by "fix: table styles shared and mutated cached border styles"), kept as a proved
counterexample: with factories that alias the cached instance, creating `compact()` changes the
border style of a `borderless()` style created before. -/
theorem d20_aliasing_interferes :
    let specs := tableStyles.map fun s => (s.1, s.2.1, false, s.2.2.2)
    let h1 := runOps specs initialHeap [.make 0]            -- b = TableStyle.borderless()
    (runOps specs h1 [.make 1])[0]? ≠ h1[0]? := by          -- TableStyle.compact()
  decide

/-! Non-vacuity -/
example : (runOps tableStyles initialHeap [.make 0, .make 1, .custom 4 1 "x"])[3]?
    = (runOps tableStyles initialHeap [.make 0])[3]? := by decide
example : helpCreate (some true) false = some true := by decide

/-! ### every theorem with hypotheses, applied to concrete instances (all hypotheses discharged) -/

/-- `borderless()`, then `compact()` and a customisation of the SECOND style: the first one (object 3)
keeps its border -/
example : (runOps tableStyles (runOps tableStyles initialHeap [.make 0]) [.make 1, .custom 4 1 "x"])[3]?
    = (runOps tableStyles initialHeap [.make 0])[3]? :=
  style_noninterference_dec _ _ 3 (by decide) (by decide)
example := style_noninterference_after [.make 0] [.make 1, .custom 4 1 "x"] 3 (by decide) (by decide)
example := style_noninterference [.make 1, .custom 4 1 "x"] (runOps tableStyles initialHeap [.make 0]) 3
  (by decide) ((styles_wf_decides tableStyles 3 _).2.mp (by decide))
example := style_noninterference_of_copies tableStyles factories_copy [.make 1] initialHeap 0 (by decide)
  ((styles_wf_decides tableStyles 0 _).2.mp (by decide))
example := makeStyle_other ("compact", 0, true, [(1, ""), (4, " "), (10, "")]) rfl initialHeap 0 (by decide)
example := makeStyle_fresh ("compact", 0, true, [(1, ""), (4, " "), (10, "")]) rfl initialHeap
example : refsOf tableStyles initialHeap [.make 0, .custom 3 1 "*", .make 3, .make 7, .make 1] = [3, 4, 5] := by
  decide
/-- the deciders are not constantly true: an aliasing table, a history that customises `q` -/
example : copiesB (tableStyles.map fun s => (s.1, s.2.1, false, s.2.2.2)) = false ∧
    untouchedB 3 [.make 1, .custom 3 1 "x"] = false ∧
    refsOf (tableStyles.map fun s => (s.1, s.2.1, false, s.2.2.2)) initialHeap [.make 0, .make 1] = [0, 0] := by
  decide

/-- `history_independent` on a concrete application: the outcome of a line DOES read the leniency
setting, `help` lines reach the help resolver (succeeding or failing) - every run still observes
what a fresh application observes -/
example :
    let helpTarget : Nat → Option (List Str × Bool) := fun l =>
      if l = 1 then some ([['p']], true) else if l = 2 then some ([['p']], false) else none
    let outcome : Nat → (List Str → Option Bool) → Nat × Option Bool := fun l len => (l, len [['p']])
    runHistory helpTarget outcome [([['p']], some false)] [0, 1, 0, 2, 0] =
      [(0, some false), (1, some false), (0, some false), (2, some false), (0, some false)] := by
  decide

end Clikit.Props.C17

/-! ## History independence on the composed application model

`Model/AppState.lean`: `runAppS` is `ConsoleApplication.run` (the composed model `App.runApp` of C04/C09) on an
application OBJECT: it threads the state the real object keeps between runs - every command's leniency
setting (as configured / as it is now; the help resolver's toggle with the protocol of the source) and the
scratch dictionaries of installed parser objects (C05's `parseFrom`).  The theorems below say that none of it
reaches a later run. -/
namespace Clikit.Props.C17
open Clikit Clikit.Parser Clikit.Resolver Clikit.App Clikit.AppState

/-- **Every run leaves every command's leniency setting (and the parser wiring) as it found it** - on every exit
path: a handler that ran, a help page, a failing resolution, a parse error, and a help request whose lenient
parse raises (`ValueError` of a conversion) - whatever the settings and the scratch states were. -/
theorem app_run_restores_state (env : Env) (cv : Conv) (app : List Cmd) (hs : Handlers) (s : AppState) (toks : List Str) :
    (∀ p, lenEntry (runAppS env cv app hs s toks).2 p = lenEntry s p) ∧
    (runAppS env cv app hs s toks).2.parserOf = s.parserOf :=
  (runAppS_spec env cv app hs (SameLen.refl s) toks).1

/-- after any run on an application whose settings are the configured ones, they still are -/
theorem app_run_keeps_configured (env : Env) (cv : Conv) (app : List Cmd) (hs : Handlers) (s : AppState)
    (h : Restored s) (toks : List Str) : Restored (runAppS env cv app hs s toks).2 :=
  (runAppS_spec env cv app hs (SameLen.refl s) toks).1.restored h

/-- **a run on an application object whose settings are the configured ones is the pure run** - whatever its
parser objects hold (C05) -/
theorem app_run_stateless (env : Env) (cv : Conv) (app : List Cmd) (hs : Handlers) (s : AppState) (h : Restored s)
    (toks : List Str) : (runAppS env cv app hs s toks).1 = runApp env cv app hs toks :=
  (runAppS_spec env cv app hs (SameLen.refl s) toks).2 h

/-- every run of a history gives the result of the pure run of its line, and the settings stay the configured ones -/
theorem app_history_results (env : Env) (cv : Conv) (app : List Cmd) (hs : Handlers) (s : AppState) (h : Restored s)
    (hist : List (List Str)) :
    (runHistoryS env cv app hs s hist).1 = hist.map (runApp env cv app hs) ∧
    Restored (runHistoryS env cv app hs s hist).2 :=
  ⟨(runHistoryS_spec env cv app hs hist (SameLen.refl s)).2 h,
   (runHistoryS_spec env cv app hs hist (SameLen.refl s)).1.restored h⟩

/-- **History independence of a whole run**: for every application, every handler assignment, every history of
command lines run on ONE application object - valid lines, failing ones, help requests in both spellings, help
requests that fail - and every final line: the result of the final run (I/O configuration, what happened, status,
the handler that ran and the arguments it got) is the result of the pure run of that line. -/
theorem app_run_history_independent (env : Env) (cv : Conv) (app : List Cmd) (hs : Handlers) (s : AppState)
    (h : Restored s) (hist : List (List Str)) (final : List Str) :
    (runAppS env cv app hs (runHistoryS env cv app hs s hist).2 final).1 = runApp env cv app hs final :=
  app_run_stateless env cv app hs _ (app_history_results env cv app hs s h hist).2 final

/-- the property as stated, without hypothesis: **a re-used application gives what a fresh one gives**, for every
configuration of leniency settings and installed parser objects -/
theorem app_reused_eq_fresh (env : Env) (cv : Conv) (app : List Cmd) (hs : Handlers)
    (raw : List (List Str × Option Bool)) (parsers : List (List Str × Nat)) (hist : List (List Str)) (final : List Str) :
    (runAppS env cv app hs (runHistoryS env cv app hs (initState raw parsers) hist).2 final).1 =
      (runAppS env cv app hs (initState raw parsers) final).1 := by
  rw [app_run_history_independent env cv app hs _ (initState_restored raw parsers),
    app_run_stateless env cv app hs _ (initState_restored raw parsers)]

section AppDemo
/-- **the I/O of a run is decided by the tokens of that run alone**: whatever state the application object is in,
the I/O configuration a run builds (ANSI mode, verbosity, quiet, interaction - what its handler finds on entry) is
`create_io` of this line's tokens.  Nothing of an I/O object is part of the state a run leaves: the I/O is created per
run and handed to the handler, which may do to it what it likes (a handler is a parameter of the model). -/
theorem app_io_of_tokens (env : Env) (cv : Conv) (app : List Cmd) (hs : Handlers) (s : AppState) (toks : List Str) :
    (runAppS env cv app hs s toks).1.io = Switches.createIO toks env.debug := by
  unfold runAppS runAppSP
  simp only []
  split <;> rfl

/-- hence, after ANY history of lines (and handlers) on one application object, the handler of the next line finds
the I/O configuration a fresh application gives it -/
theorem app_io_history_independent (env : Env) (cv : Conv) (app : List Cmd) (hs : Handlers)
    (raw : List (List Str × Option Bool)) (parsers : List (List Str × Nat)) (hist : List (List Str)) (final : List Str) :
    (runAppS env cv app hs (runHistoryS env cv app hs (initState raw parsers) hist).2 final).1.io =
      (runApp env cv app hs final).io ∧
    (runApp env cv app hs final).io = Switches.createIO final env.debug := by
  refine ⟨?_, ?_⟩
  · rw [app_io_of_tokens]
    unfold runApp
    simp only []
    split <;> rfl
  · unfold runApp
    simp only []
    split <;> rfl

open Clikit.AppState.Demo

/-- **D21 as a proved counterexample**: with the protocol before the repair (leniency switched off, and only after
a normal return) the failing help request `probe --count=abc -h` leaves `probe` lenient, and `probe 1 2 3` then
RUNS the handler with status 0 - on a fresh application it is a parse error with status 1. -/
theorem d21_protocol_history_dependent :
    (lenEntry (runAppSP preD21 env cv app hs fresh helpFails).2 [Help.S "probe"]).current = some true ∧
    (runAppSP preD21 env cv app hs (runHistorySP preD21 env cv app hs fresh [helpFails]).2 tooMany).1.status = some 0 ∧
    (runAppSP preD21 env cv app hs (runHistorySP preD21 env cv app hs fresh [helpFails]).2 tooMany).1.invoked
      = [([Help.S "probe"], { args := [(Help.S "a", .scalar (.str (Help.S "1")))], opts := [] })] ∧
    (runAppSP preD21 env cv app hs fresh tooMany).1.status = some 1 ∧
    (runAppSP preD21 env cv app hs fresh tooMany).1.invoked = [] := by
  decide +kernel

/-! ### every theorem with a hypothesis, applied (the hypothesis discharged) on a concrete application: a help
request for a command whose lenient parse raises, followed by a normal run -/

/-- the help request fails inside the help resolver (`ValueError`, status 1) ... -/
example : (runApp env cv app hs helpFails).what = .error .valueError ∧ (runApp env cv app hs helpFails).status = some 1 := by
  decide +kernel
/-- ... and leaves the setting of `probe` as it was (`None`), the shared parser object dirty -/
example : lenEntry (runAppS env cv app hs fresh helpFails).2 [Help.S "probe"] = { configured := none, current := none } ∧
    scratchOf (runAppS env cv app hs fresh helpFails).2 0 ≠ St.empty := by
  decide +kernel
/-- the run after it is the pure run: a parse error -/
example : (runAppS env cv app hs (runHistoryS env cv app hs fresh [helpFails]).2 tooMany).1.what = .error .cannotParse :=
  (congrArg Result.what (app_run_history_independent env cv app hs fresh (initState_restored _ _) [helpFails] tooMany)).trans
    (by decide +kernel)
example : (runAppS env cv app hs (runHistoryS env cv app hs fresh [helpFails]).2 tooMany).1.status = some 1 :=
  (congrArg Result.status (app_reused_eq_fresh env cv app hs [] _ [helpFails] tooMany)).trans (by decide +kernel)
/-- on a used application object (explicit setting, dirty shared parser object) -/
example : (runAppS env cv app hs used [Help.S "probe", Help.S "--count=5", Help.S "x"]).1 =
    runApp env cv app hs [Help.S "probe", Help.S "--count=5", Help.S "x"] :=
  app_run_stateless env cv app hs used used_restored _
example : (runApp env cv app hs [Help.S "probe", Help.S "--count=5", Help.S "x"]).invoked =
    [([Help.S "probe"], { args := [(Help.S "a", .scalar (.str (Help.S "x")))], opts := [(Help.S "count", .scalar (.int 5))] })] := by
  decide +kernel
example : Restored (runAppS env cv app hs used helpFails).2 := app_run_keeps_configured env cv app hs used used_restored _
example : (runHistoryS env cv app hs used [helpFails, tooMany, [Help.S "help", Help.S "probe"], tooMany]).1 =
    [helpFails, tooMany, [Help.S "help", Help.S "probe"], tooMany].map (runApp env cv app hs) :=
  (app_history_results env cv app hs used used_restored _).1
/-- the hypothesis is not vacuous the other way either: a state whose setting is NOT the configured one -/
example : ¬ Restored (runAppSP preD21 env cv app hs fresh helpFails).2 := fun h => by
  have := h [Help.S "probe"]
  revert this
  decide +kernel

end AppDemo

/-! ## The I/O of a run: created per run from the configuration, changed by handlers

`Model/RunIO.lean`: `runAppIO` is `runAppS` together with the I/O objects of the run - `create_io` builds formatters
(copies of the configuration's style set), outputs and the I/O anew for every run; the handlers that are called may do
to them what they like (`RunIO.Handler`: any function of the I/O state).  What outlives a run is `RunIO.World`: the
configuration's style set and - only under the seeded protocol - formatter objects kept by the configuration. -/
section RunIO
open Clikit.RunIO

/-- what a run with result `r` shows on a world `w`: the handlers that were called work on `create_io` of `r.io` -/
def obsOf (e : IOEnv) (w : World) (hio : IOHandlers) (r : Result) : RunObs :=
  (r, (runIOP .perRun e w r.io (r.invoked.map fun pa => hio pa.1 pa.2)).1)

theorem runAppIO_obs (env : Env) (e : IOEnv) (cv : Conv) (app : List Cmd) (hs : Handlers) (hio : IOHandlers)
    (s : AppState) (w : World) (toks : List Str) :
    (runAppIO env e cv app hs hio (s, w) toks).1 = obsOf e w hio (runAppS env cv app hs s toks).1 := rfl

theorem runAppIO_state (env : Env) (e : IOEnv) (cv : Conv) (app : List Cmd) (hs : Handlers) (hio : IOHandlers)
    (s : AppState) (w : World) (toks : List Str) :
    (runAppIO env e cv app hs hio (s, w) toks).2 = ((runAppS env cv app hs s toks).2, w) := rfl

/-- a history of runs leaves the application state `runHistoryS` leaves, and the world - the configuration's style set,
the (unused) cache - as it was: nothing a handler did to its I/O is kept anywhere -/
theorem runHistoryIO_state (env : Env) (e : IOEnv) (cv : Conv) (app : List Cmd) (hs : Handlers) (hio : IOHandlers)
    (w : World) (hist : List (List Str)) (s : AppState) :
    (runHistoryIO env e cv app hs hio (s, w) hist).2 = ((runHistoryS env cv app hs s hist).2, w) := by
  induction hist generalizing s with
  | nil => rfl
  | cons l rest ih =>
    have := ih (runAppS env cv app hs s l).2
    simp only [runHistoryIO, runHistoryS, runHistoryIOP, runHistorySP] at this ⊢
    exact this

theorem runHistoryIO_obs (env : Env) (e : IOEnv) (cv : Conv) (app : List Cmd) (hs : Handlers) (hio : IOHandlers)
    (w : World) (hist : List (List Str)) (s : AppState) (h : Restored s) :
    (runHistoryIO env e cv app hs hio (s, w) hist).1 = hist.map (fun l => obsOf e w hio (runApp env cv app hs l)) := by
  induction hist generalizing s with
  | nil => rfl
  | cons l rest ih =>
    have h1 := ih (runAppS env cv app hs s l).2 (app_run_keeps_configured env cv app hs s h l)
    have h2 := app_run_stateless env cv app hs s h l
    simp only [runHistoryIO, runHistoryIOP, List.map_cons, List.cons.injEq] at h1 ⊢
    refine ⟨?_, h1⟩
    show obsOf e w hio (runAppS env cv app hs s l).1 = _
    rw [h2]

/-- the first handler call of a run finds the state the run started with -/
theorem runCalls_head (s : IOState) (calls : List Handler) : ∀ x ∈ (runCalls s calls).1.head?, x.1 = s := by
  cases calls with
  | nil => intro x hx; simp [runCalls] at hx
  | cons h r => intro x hx; simp only [runCalls, List.head?_cons, Option.mem_def, Option.some.injEq] at hx; rw [← hx]

/-- `create_io` of the code as it is reads the configuration's STYLE SET and nothing else of the world -/
theorem createIO_perRun_fresh (e : IOEnv) (w : World) (cfg : Switches.IOCfg) :
    (createIOP .perRun e w cfg).1 = freshIO e w.styleSet cfg := rfl

/-- **The I/O state a handler finds is that of a fresh application**: for every application, every assignment of
handlers that change the I/O they are given in ANY way (`hio`), every history of command lines run on ONE application
object and every final line, the handler of the final run is handed the I/O state `create_io` builds from the
configuration's style set and the tokens of THAT line - formatter registries (pastel's styles + the style set's),
which outputs hold which formatter object, verbosity, quiet, interaction, indentation 0 - whatever the world held
(`w` arbitrary, also a non-empty cache).  That is the state a freshly built application hands to it. -/
theorem io_state_fresh_per_run (env : Env) (e : IOEnv) (cv : Conv) (app : List Cmd) (hs : Handlers) (hio : IOHandlers)
    (raw : List (List Str × Option Bool)) (parsers : List (List Str × Nat)) (w : World)
    (hist : List (List Str)) (final : List Str) :
    (∀ x ∈ (runAppIO env e cv app hs hio
        (runHistoryIO env e cv app hs hio (initState raw parsers, w) hist).2 final).1.2.head?,
      x.1 = freshIO e w.styleSet (Switches.createIO final env.debug)) ∧
    (∀ x ∈ (runAppIO env e cv app hs hio (initState raw parsers, World.fresh w.styleSet) final).1.2.head?,
      x.1 = freshIO e w.styleSet (Switches.createIO final env.debug)) := by
  refine ⟨?_, ?_⟩
  · rw [runHistoryIO_state, runAppIO_obs]
    intro x hx
    have := runCalls_head _ _ x hx
    rw [this, createIO_perRun_fresh, app_io_of_tokens]
  · rw [runAppIO_obs]
    intro x hx
    have := runCalls_head _ _ x hx
    rw [this, createIO_perRun_fresh, app_io_of_tokens]
    rfl

/-- **What a handler did to its I/O does not leak**: for every history of runs whose handlers tweak their I/O
arbitrarily, the final run gives - result, the I/O state every handler call finds, every line shown - what it gives on
the application as built; every run of the history gives what it gives as the first run; and the world (the
configuration's style set) is afterwards what it was. -/
theorem tweaks_do_not_leak (env : Env) (e : IOEnv) (cv : Conv) (app : List Cmd) (hs : Handlers) (hio : IOHandlers)
    (raw : List (List Str × Option Bool)) (parsers : List (List Str × Nat)) (w : World)
    (hist : List (List Str)) (final : List Str) :
    (runAppIO env e cv app hs hio (runHistoryIO env e cv app hs hio (initState raw parsers, w) hist).2 final).1 =
      (runAppIO env e cv app hs hio (initState raw parsers, w) final).1 ∧
    (runHistoryIO env e cv app hs hio (initState raw parsers, w) hist).1 =
      hist.map (fun l => (runAppIO env e cv app hs hio (initState raw parsers, w) l).1) ∧
    (runHistoryIO env e cv app hs hio (initState raw parsers, w) hist).2.2 = w := by
  refine ⟨?_, ?_, ?_⟩
  · rw [runHistoryIO_state, runAppIO_obs, runAppIO_obs, app_reused_eq_fresh]
  · rw [runHistoryIO_obs _ _ _ _ _ _ _ _ _ (initState_restored raw parsers)]
    apply List.map_congr_left
    intro l _
    rw [runAppIO_obs, app_run_stateless env cv app hs _ (initState_restored raw parsers)]
  · rw [runHistoryIO_state]

/-- the cache of the world is not read by the code as it is: a world that holds cached formatters (an application that
ran under another protocol) gives what the fresh world gives -/
theorem world_cache_unread (env : Env) (e : IOEnv) (cv : Conv) (app : List Cmd) (hs : Handlers) (hio : IOHandlers)
    (s : AppState) (w : World) (toks : List Str) :
    (runAppIO env e cv app hs hio (s, w) toks).1 = (runAppIO env e cv app hs hio (s, World.fresh w.styleSet) toks).1 := rfl

namespace LeakDemo
def brand : Str := ['b', 'r', 'a', 'n', 'd']
def magenta : Look := ['m', 'a', 'g']
def info : Str := ['i', 'n', 'f', 'o']
/-- plain buffered streams, pastel registers `info` -/
def e : IOEnv := { pastel := [(info, ['g'])], streams := (false, false) }
def cfg : Switches.IOCfg := { ansi := .auto, verbosity := 0, quiet := false, interactive := true }
/-- run 1: the handler adds a private style to the formatter of ITS output and writes a line on both channels -/
def addsBrand : Handler := execOps [.addStyle .out brand magenta, .write .out brand 0, .write .err brand 0]
/-- run 2: the handler only writes -/
def looks : Handler := execOps [.write .out brand 0, .write .err brand 0]
def w0 : World := World.fresh [(['b'], ['b', 'o', 'l', 'd'])]
end LeakDemo
open LeakDemo in
/-- **The seeded change of round eight as a proved counterexample**: with ONE formatter object per configuration and
(class, arguments) the style `brand` added by the handler of run 1 is still registered in run 2 - `<brand>` is removed
there (styled) on BOTH channels (the cache also makes the two outputs share one object), where a freshly built
application shows the literal text; with a formatter per run (the code as it is) run 2 shows the literal text, and in
run 1 the error output - a formatter object of its own - does not know the style. -/
theorem cached_formatter_leaks :
    (runIOP .cachedPerConfig e (runIOP .cachedPerConfig e w0 cfg [addsBrand]).2 cfg [looks]).1.map (·.2) =
      [[⟨.out, brand, 0, some (0, .stripped magenta)⟩, ⟨.err, brand, 0, some (0, .stripped magenta)⟩]] ∧
    (runIOP .cachedPerConfig e w0 cfg [looks]).1.map (·.2) =
      [[⟨.out, brand, 0, some (0, .literal)⟩, ⟨.err, brand, 0, some (0, .literal)⟩]] ∧
    (runIOP .perRun e (runIOP .perRun e w0 cfg [addsBrand]).2 cfg [looks]).1.map (·.2) =
      [[⟨.out, brand, 0, some (0, .literal)⟩, ⟨.err, brand, 0, some (0, .literal)⟩]] ∧
    (runIOP .perRun e w0 cfg [addsBrand]).1.map (·.2) =
      [[⟨.out, brand, 0, some (0, .stripped magenta)⟩, ⟨.err, brand, 0, some (0, .literal)⟩]] := by
  decide

open LeakDemo in
/-- non-vacuity of `io_state_fresh_per_run`: under `--ansi` ONE forced ANSI formatter serves both outputs, it holds
pastel's styles and the style set's; a style added through the error output then shows, in colour, on the output -/
example : freshIO e w0.styleSet { cfg with ansi := .forced } =
    { fmts := [{ ansi := true, forced := true, styles := [(info, ['g']), (['b'], ['b', 'o', 'l', 'd'])] }],
      out := { fmt := 0, streamAnsi := false, formatOutput := true, verbosity := 0, quiet := false, indent := 0 },
      err := { fmt := 0, streamAnsi := false, formatOutput := true, verbosity := 0, quiet := false, indent := 0 },
      interactive := true } := by decide
open LeakDemo in
example : (execOps [.addStyle .err brand magenta, .indent none false 3, .write .out brand 0, .setQuiet none true,
      .write .out brand 0] (freshIO e w0.styleSet { cfg with ansi := .forced })).2 =
    [⟨.out, brand, 0, some (3, .ansi magenta)⟩, ⟨.out, brand, 0, none⟩] := by decide

end RunIO

/-! ## Renderings on one I/O: indentation scopes over outputs that may be ONE object

`Model/IndentShared.lean`: the outputs of an I/O are objects; `IO(input, out, out)` lists one object twice
in every scope `io.indent(n)` / `io.increment_indent(n)` opens (also the scopes components open while they
render). -/
section IndentShared
open Clikit.IndentShared

/-- **`Indent` gives every output back the indentation it had**, for ANY list of outputs - also one that
lists an output object twice (an I/O whose two channels are one `Output`) - and whatever was done to the
listed outputs inside the scope. -/
theorem indent_restores_shared (h : Heap) (refs : List Nat) (inc : Bool) (n : Nat) (h' : Heap)
    (hf : ∀ x, x ∉ refs → h' x = h x) :
    leave refs (enter h refs inc n).2 h' = h :=
  leave_restores refs h h' hf

/-- entering and leaving at once -/
theorem indent_enter_leave (h : Heap) (refs : List Nat) (inc : Bool) (n : Nat) :
    leave refs (enter h refs inc n).2 (enter h refs inc n).1 = h :=
  leave_restores refs h _ (fun x hx => apply_frame inc n refs h x hx)

/-- **Any history of renderings and nested scopes on one I/O - two output objects or one shared object,
scopes left normally or by an exception - leaves the indentation of every output object as it was, and
every rendering finds the indentation of the scopes that enclose it and of nothing that ran before.** -/
theorem render_history_restores (io : IORefs) (p : Prog) (h : Heap) :
    exec io p h = ((lexical io p h).1, h, (lexical io p h).2) := by
  induction p generalizing h with
  | skip => rfl
  | seq a b iha ihb =>
    simp only [exec, execP, lexical] at *
    rw [iha h]
    cases hr : (lexical io a h).2 with
    | true =>
      have : lexical io a h = ((lexical io a h).1, true) := by rw [← hr]
      rw [this]
    | false =>
      have : lexical io a h = ((lexical io a h).1, false) := by rw [← hr]
      rw [this]
      simp only
      rw [ihb h]
  | render c => rfl
  | scope t inc n body ih =>
    simp only [exec, execP, lexical, Bool.false_eq_true, if_false] at *
    rw [ih]
    simp only
    rw [indent_enter_leave]
  | raise => rfl
  | attempt body ih =>
    simp only [exec, execP, lexical] at *
    rw [ih h]

/-- the indentation after any history is the indentation before it -/
theorem render_history_indentation_kept (io : IORefs) (p : Prog) (h : Heap) : (exec io p h).2.1 = h := by
  rw [render_history_restores]

/-- **What a rendering finds does not depend on what was rendered before**: after any history `before`
that ended normally, the renderings of `p` find what they find when `p` is the first thing done with the
I/O. -/
theorem render_independent_of_history (io : IORefs) (before p : Prog) (h : Heap)
    (hn : (lexical io before h).2 = false) :
    (exec io (.seq before p) h).1 = (exec io before h).1 ++ (exec io p h).1 := by
  rw [render_history_restores, render_history_restores io before, render_history_restores io p]
  simp only [lexical]
  have : lexical io before h = ((lexical io before h).1, false) := by rw [← hn]
  rw [this]

/-- a component rendered twice finds the same both times, whatever is rendered in between -/
theorem render_twice_same (io : IORefs) (c : Nat) (between : Prog) (h : Heap)
    (hn : (lexical io between h).2 = false) :
    ∃ w, (exec io (.seq (.render c) (.seq between (.render c))) h).1 =
      [(c, h io.out, h io.err)] ++ w ++ [(c, h io.out, h io.err)] := by
  refine ⟨(lexical io between h).1, ?_⟩
  rw [render_history_restores]
  simp only [lexical]
  have : lexical io between h = ((lexical io between h).1, false) := by rw [← hn]
  rw [this]
  simp

/-- recording the value to restore inside the loop of `__init__` is the same protocol on an I/O with two
output OBJECTS ... -/
theorem late_snapshot_same_when_distinct (io : IORefs) (hne : io.out ≠ io.err) (p : Prog) (h : Heap) :
    execP true io p h = exec io p h := by
  have hnd : ∀ t, (io.refs t).Nodup := by
    intro t; cases t <;> simp [IORefs.refs, hne]
  induction p generalizing h with
  | skip => rfl
  | seq a b iha ihb => simp only [exec, execP] at *; rw [iha]; split <;> simp_all
  | render c => rfl
  | scope t inc n body ih =>
    simp only [exec, execP, if_true, Bool.false_eq_true, if_false] at *
    rw [enterLate_nodup inc n _ (hnd t)]
    simp only [enter, List.nil_append]
    rw [ih]
  | raise => rfl
  | attempt body ih => simp only [exec, execP] at *; rw [ih]

/-- ... **and leaks on an I/O whose two channels are one `Output` object**: while a component that
increments the indentation by 2 renders, the object (listed twice) is at 4 under either protocol; the late
protocol recorded 0 and then 2 and restores in that order, so the next rendering finds 2 where the code as it
is finds 0; after an empty `with io.indent(3)` the next rendering finds 3. -/
theorem late_snapshot_leaks_when_shared :
    (execP true { out := 0, err := 0 } (.seq (.scope .io true 2 (.render 0)) (.render 1)) (heapOf 0 0)).1
      = [(0, 4, 4), (1, 2, 2)] ∧
    (exec { out := 0, err := 0 } (.seq (.scope .io true 2 (.render 0)) (.render 1)) (heapOf 0 0)).1
      = [(0, 4, 4), (1, 0, 0)] ∧
    (execP true { out := 0, err := 0 } (.seq (.scope .io false 3 .skip) (.render 1)) (heapOf 0 0)).1 = [(1, 3, 3)] := by
  decide

/-- non-vacuity: a shared object, nested scopes, an exception caught outside -/
example : (exec { out := 0, err := 0 }
    (.seq (.attempt (.scope .io true 2 (.seq (.render 0) (.scope .out false 7 (.seq (.render 1) .raise))))) (.render 2))
    (heapOf 1 1)).1 = [(0, 5, 5), (1, 7, 7), (2, 1, 1)] := by decide
example : (exec { out := 0, err := 1 } (.seq (.scope .err true 2 (.render 0)) (.render 1)) (heapOf 0 3)).1
    = [(0, 0, 5), (1, 0, 3)] := by decide

end IndentShared

/-! ## Non-vacuity of the theorems added in rounds 8-9 (hypothesis audit) -/

section AuditR9
open Clikit Clikit.IndentShared

/-- `indent_restores_shared`, hypothesis discharged: the shared object 0 is listed twice (an I/O whose channels are one
`Output`); inside the scope somebody set it to 9; leaving gives the heap as it was (indentation 1) -/
example : leave [0, 0] (enter (heapOf 1 1) [0, 0] true 2).2
    (Heap.set (enter (heapOf 1 1) [0, 0] true 2).1 0 9) = heapOf 1 1 :=
  indent_restores_shared (heapOf 1 1) [0, 0] true 2 _ (by
    intro x hx
    have h0 : x ≠ 0 := by simpa using hx
    simp only [Heap.set, if_neg h0]
    exact apply_frame true 2 [0, 0] _ x hx)

private def before : Prog := .seq (.scope .io true 2 (.render 0)) (.attempt (.scope .out false 7 .raise))

/-- `render_independent_of_history` / `render_twice_same` on a shared object: `before` ends normally (its exception is
caught), so what `render 5` finds afterwards is what it finds first thing -/
example : (exec { out := 0, err := 0 } (.seq before (.render 5)) (heapOf 1 1)).1 =
    (exec { out := 0, err := 0 } before (heapOf 1 1)).1 ++ (exec { out := 0, err := 0 } (.render 5) (heapOf 1 1)).1 :=
  render_independent_of_history _ before (.render 5) (heapOf 1 1) (by decide)
example : ∃ w, (exec { out := 0, err := 0 } (.seq (.render 5) (.seq before (.render 5))) (heapOf 1 1)).1 =
    [(5, 1, 1)] ++ w ++ [(5, 1, 1)] :=
  render_twice_same { out := 0, err := 0 } 5 before (heapOf 1 1) (by decide)
/-- the hypothesis excludes a history that ends with a propagating exception -/
example : (lexical { out := 0, err := 0 } (.scope .out false 7 .raise) (heapOf 1 1)).2 = true := by decide

/-- `late_snapshot_same_when_distinct`: two output objects -/
example : (execP true { out := 0, err := 1 } before (heapOf 1 3)).1 = (exec { out := 0, err := 1 } before (heapOf 1 3)).1 := by
  rw [late_snapshot_same_when_distinct { out := 0, err := 1 } (by decide) before (heapOf 1 3)]

end AuditR9

end Clikit.Props.C17
