import Clikit.Lemmas.Builder
import Clikit.Lemmas.Flatten
import Clikit.Props.C01
import Clikit.Props.C02
/-!
# C06 - an args format can never be built into an inconsistent state

Theorems about `Clikit.ArgsFmt` (`Model/Builder.lean`), the executable model of
`ArgsFormatBuilder` / `ArgsFormat`, over **all** histories of builder calls and **all** chains
of base formats.

Vocabulary (defined in `Lemmas/Builder.lean`):

* `InvF f` - the invariant of a format `f` with its bases:
  `ok`   every level's tables are exactly the tables of some element lists (keys are the
         elements' own names, the short-name tables index the same elements, the two flags
         summarise the arguments);
  `keys` `f.keyChain.Nodup`: the keys of all four option tables of all levels are pairwise
         distinct, i.e. every long name, short name, long alias and short alias is a key of at
         most one option or command option across the format and its bases;
  `args` `ArgsOK` of the arguments in listing order (base first): names unique, only the last
         one may be multi-valued, no required argument after an optional one.
* `Inv b := InvF b.raw` for a builder (`b.raw` = the builder's fields read as a format).
* `Op.wf` - the elements carried by a call are what the element constructors produce: long
  names / long aliases have at least two characters, short names / short aliases exactly one
  (C07's subject).  Needed because the tables are keyed by plain strings.
-/
namespace Clikit.Props.C06
open Clikit.ArgsFmt

/-- **Every call of the public builder API preserves the invariant, a rejected single addition
leaves the builder exactly as it was, and only the two documented exceptions are raised.** -/
theorem step_atomic_inv (b : Builder) (op : Op) (hwf : op.wf) (h : Inv b) :
    Inv (step b op).1 ∧
    (op.isSingle = true → (step b op).2.isSome → (step b op).1 = b) ∧
    (∀ e, (step b op).2 = some e → e = .cannotAddOption ∨ e = .cannotAddArgument) :=
  ⟨step_inv b op hwf h, step_atomic b op, step_err b op⟩

/-- `set_*` is "clear the own tables, then `add_*`" - the state after a failing element is the
cleared builder plus the elements before it (`multi_add_prefix`). -/
theorem set_is_clear_then_add (b : Builder) :
    (∀ os, step b (.setOptions os) = step b.clearOptions (.addOptions os)) ∧
    (∀ cs, step b (.setCommandOptions cs) = step b.clearCommandOptions (.addCommandOptions cs)) ∧
    (∀ as, step b (.setArguments as) = step b.clearArguments (.addArguments as)) ∧
    (∀ ns, step b (.setCommandNames ns) = step b.clearCommandNames (.addCommandNames ns)) :=
  ⟨fun _ => rfl, fun _ => rfl, fun _ => rfl, fun _ => rfl⟩

/-- What `add_options(*es)` etc. do: either every element was added, or the elements before
the first rejected one were added (and stay added) and its exception is raised. -/
theorem multi_add_prefix {ε : Type} (add : Builder → ε → Except Err Builder) (es : List ε) (b : Builder) :
    (∃ b', es.foldlM add b = .ok b' ∧ addAll add b es = (b', none)) ∨
    (∃ pre e post b' err, es = pre ++ e :: post ∧ pre.foldlM add b = .ok b' ∧ add b' e = .error err ∧
      addAll add b es = (b', some err)) :=
  addAll_spec add es b

/-- **Every builder reachable from a fresh builder on a well-formed base satisfies the
invariant** - whatever calls were made and whichever of them were rejected. -/
theorem reachable_inv (base : Option FormatRec) (hbase : InvBase base) (ops : List Op)
    (hwf : ∀ op ∈ ops, op.wf) : Inv (run (Builder.empty base) ops) :=
  run_inv ops _ hwf (empty_inv hbase)

/-- The built format is again a well-formed base (so the hypothesis `InvBase` of
`reachable_inv` is met by every format that was itself built). -/
theorem format_inv (b : Builder) (h : Inv b) : InvF (format b) := by
  rw [format_eq_raw b h]; exact h

/-- **The built format answers every public query exactly as the builder does.** -/
theorem format_agrees (b : Builder) (h : Inv b) (q : Query) : queryF (format b) q = queryB b q := by
  rw [format_eq_raw b h]; exact queryF_raw b q

/-- **`ArgsFormat(elements, base)` = the format of the builder obtained by adding the elements
one by one to `ArgsFormatBuilder(base)`**, including which exception is raised. -/
theorem ctor_same_rules (es : List Elem) (base : Option FormatRec) :
    ctor es base = match seqAdd (Builder.empty base) es with
      | (b, none) => .ok (format b)
      | (_, some e) => .error e := by
  unfold ctor
  rw [createBuilder_seqAdd]
  cases hs : seqAdd (Builder.empty base) es with
  | mk b r =>
    cases r with
    | some e => rfl
    | none =>
      have hb : b.base = base := by
        have := createBuilder_base es (Builder.empty base) b (by rw [createBuilder_seqAdd, hs])
        simpa [Builder.empty] using this
      simp only [bind, Except.bind, pure, Except.pure]
      cases base with
      | none => simp [format, hb, FormatRec.own]
      | some g => simp [format, hb, FormatRec.own]

/-! ### Objects of user-defined subclasses of the public element classes -/

/-- An object is skipped by the element-list constructor iff its class derives from none of the
four public element classes. -/
theorem dispatch_none_iff (mro : List PubClass) : dispatch mro = none ↔ mro = [] := by
  constructor
  · intro h
    cases mro with
    | nil => rfl
    | cons c t =>
      exfalso
      have h' := List.find?_eq_none.1 h c (by cases c <;> simp [dispatchOrder])
      simp at h'
  · intro h; subst h; rfl

/-- The class an object is added as is one its class derives from ... -/
theorem dispatch_mem (mro : List PubClass) (c : PubClass) (h : dispatch mro = some c) : c ∈ mro := by
  have := List.find?_some h
  simpa using this

/-- ... namely the FIRST one in the order of the tests. -/
theorem dispatch_first (mro : List PubClass) (c d : PubClass) (h : dispatch mro = some c)
    (hd : dispatchOrder.idxOf d < dispatchOrder.idxOf c) : d ∉ mro := by
  have := find?_before (fun c => mro.contains c) dispatchOrder c d h hd
  simpa using this

/-- **An instance of ANY subclass of exactly one public element class - direct or indirect, with
or without mixins - is added as that class.** -/
theorem dispatch_subclass (mro : List PubClass) (c : PubClass) (hne : mro ≠ [])
    (h : ∀ x ∈ mro, x = c) : dispatch mro = some c := by
  cases hd : dispatch mro with
  | none => exact absurd ((dispatch_none_iff mro).1 hd) hne
  | some d => rw [h d (dispatch_mem mro d hd)]

/-- **`ArgsFormat(objects, base)` for objects of arbitrary subclasses of the public element
classes is the format of the builder obtained by adding, one by one, what the objects read as**,
including which exception is raised: the concrete class of an element never matters. -/
theorem ctor_objects_same_rules {Obj : Type} (mro : Obj → List PubClass) (kind : Obj → PubClass)
    (read : Obj → PubClass → Elem) (os : List Obj) (base : Option FormatRec)
    (hsub : ∀ o ∈ os, mro o ≠ [] ∧ ∀ x ∈ mro o, x = kind o) :
    ctor (elemsOf mro read os) base =
      match seqAdd (Builder.empty base) (os.map (fun o => read o (kind o))) with
      | (b, none) => .ok (format b)
      | (_, some e) => .error e := by
  have : elemsOf mro read os = os.map (fun o => read o (kind o)) := by
    unfold elemsOf
    apply List.map_congr_left
    intro o ho
    rw [dispatch_subclass (mro o) (kind o) (hsub o ho).1 (hsub o ho).2]
  rw [this, ctor_same_rules]

/-- what the answer `only` of the driver entry `c06.dispatch` means: the hypothesis of `dispatch_subclass` /
`ctor_objects_same_rules` for one object -/
theorem only_decides (mro : List PubClass) (c : PubClass) :
    onlyB mro c = true ↔ (mro ≠ [] ∧ ∀ x ∈ mro, x = c) := by
  cases mro <;> simp [onlyB]

/-- `ctor_objects_same_rules` from the decider (evaluated by `c06.dispatch` on the bases of the REAL class of
every element object of every case, for the public class the case means the object to be) -/
theorem ctor_objects_same_rules_decided {Obj : Type} (mro : Obj → List PubClass) (kind : Obj → PubClass)
    (read : Obj → PubClass → Elem) (os : List Obj) (base : Option FormatRec)
    (hsub : ∀ o ∈ os, onlyB (mro o) (kind o) = true) :
    ctor (elemsOf mro read os) base =
      match seqAdd (Builder.empty base) (os.map (fun o => read o (kind o))) with
      | (b, none) => .ok (format b)
      | (_, some e) => .error e :=
  ctor_objects_same_rules mro kind read os base (fun o ho => (only_decides _ _).mp (hsub o ho))

/-- non-vacuity: a direct subclass, a subclass with a mixin (the mixin is no public class and does
not occur), an object of a foreign class, and a class deriving from two public classes -/
example : dispatch [.option] = some .option ∧ dispatch [.argument, .argument] = some .argument ∧
    dispatch [] = none ∧ dispatch [.option, .commandOption] = some .commandOption := by decide

/-- non-vacuity of `dispatch_mem`, `dispatch_first`, `dispatch_subclass` (hypotheses discharged): a class deriving
from `Option` (twice in the bases: a diamond) is added as an option and derives from no class tested earlier; the
decider accepts it and rejects a foreign class and a class deriving from two public classes -/
example : PubClass.option ∈ [PubClass.option, .option] := dispatch_mem _ _ (by decide)
example : PubClass.commandOption ∉ [PubClass.option, .option] := dispatch_first _ .option _ (by decide) (by decide)
example : dispatch [.option, .option] = some .option := dispatch_subclass _ _ (by decide) (by decide)
example : onlyB [.option, .option] .option = true ∧ onlyB [] .option = false ∧
    onlyB [.option, .commandOption] .commandOption = false := by decide

/-- ... hence a format constructed directly from elements obeys the same rules. -/
theorem ctor_inv (es : List Elem) (base : Option FormatRec) (hbase : InvBase base)
    (hwf : ∀ e ∈ es, ∀ op, e.toOp? = some op → op.wf) (f : FormatRec) (h : ctor es base = .ok f) : InvF f := by
  rw [ctor_same_rules] at h
  have key : ∀ (es : List Elem) (b : Builder), (∀ e ∈ es, ∀ op, e.toOp? = some op → op.wf) → Inv b →
      Inv (seqAdd b es).1 := by
    intro es
    induction es with
    | nil => intro b _ hb; exact hb
    | cons e es ih =>
      intro b hw hb
      cases ho : e.toOp? with
      | none => simp only [seqAdd, ho]; exact ih b (fun x hx => hw x (by simp [hx])) hb
      | some op =>
        have hstep := step_inv b op (hw e (by simp) op ho) hb
        cases hr : step b op with
        | mk b' r =>
          rw [hr] at hstep
          cases r with
          | none => simp only [seqAdd, ho, hr]; exact ih b' (fun x hx => hw x (by simp [hx])) hstep
          | some err => simp only [seqAdd, ho, hr]; exact hstep
  have hi := key es (Builder.empty base) hwf (empty_inv hbase)
  cases hs : seqAdd (Builder.empty base) es with
  | mk b r =>
    rw [hs] at h hi
    cases r with
    | some e => cases h
    | none => injection h with h; subst h; exact format_inv b hi

/-- **Every predicate and lookup equals its declarative meaning over the listed elements**
(`QueriesMatch`, `Lemmas/Builder.lean`): with `os`, `cs`, `as`, `ns` the listings
`get_options`, `get_command_options`, `get_arguments`, `get_command_names` for the same
`include_base`,
`has_options ↔ os ≠ []`, `has_option n ↔ ∃ o ∈ os, n ∈ o.names`, `get_option n` = the first
(by `names_identify_at_most_one`: the only) `o ∈ os` with `n ∈ o.names`, else
`NoSuchOptionException`; the same for command options; `has_argument n ↔ ∃ a ∈ as, a.name = n`,
`has_argument i ↔ i < |as|`, `get_argument n / i` = that element, else `NoSuchArgumentException`;
`has_required / optional / multi_valued_argument ↔ ∃ a ∈ as, a.required / optional / multi`;
dictionary keys are the long names / argument names; `has_command_names ↔ ns ≠ []`.
Positions are natural numbers here; Python's negative (from-the-end) positions are modelled
(`pyIndex`) and compared by the correspondence run but have no declarative reading. -/
theorem queries_match_elements (f : FormatRec) (h : InvF f) (ib : Bool) : QueriesMatch f ib := by
  cases ib
  · exact queriesMatch_false f h
  · exact queriesMatch_true f h

/-- ... the same for a builder (its queries are those of its raw copy) and for the format built
from it. -/
theorem queries_match_elements_builder (b : Builder) (h : Inv b) (ib : Bool) :
    QueriesMatch b.raw ib ∧ QueriesMatch (format b) ib ∧ ∀ q, queryB b q = queryF b.raw q :=
  ⟨queries_match_elements _ h ib, queries_match_elements _ (format_inv b h) ib, fun q => (queryF_raw b q).symm⟩

/-- **Every long name, short name and alias identifies at most one option** across the format
and its bases - the `keys` part of the invariant read over the listed elements. -/
theorem names_identify_at_most_one (f : FormatRec) (h : InvF f) (n : Str) :
    (∀ o1 ∈ dictVals (f.getOptions true), ∀ o2 ∈ dictVals (f.getOptions true),
        n ∈ o1.names → n ∈ o2.names → o1 = o2) ∧
    (∀ c1 ∈ f.getCommandOptions true, ∀ c2 ∈ f.getCommandOptions true,
        n ∈ c1.names → n ∈ c2.names → c1 = c2) ∧
    (∀ o ∈ dictVals (f.getOptions true), ∀ c ∈ f.getCommandOptions true, n ∈ o.names → n ∉ c.names) :=
  names_unique f h n

/-- **At most one multi-valued argument and it is last, no required argument after an optional
one, unique names** - the `args` part of the invariant read over `get_arguments()`. -/
theorem argument_rules (f : FormatRec) (h : InvF f) : ArgsOK (dictVals (f.getArguments true)) := by
  rw [f.getArguments_eq h]; exact h.args

/-- **Listing order**: options and command options are listed own-first, arguments and command
names base-first, and nothing of the base is dropped or duplicated (the flattened view C01
uses). -/
theorem listing_order (g : FormatRec) (l : Level) (h : InvF (.mk (some g) l)) :
    (FormatRec.mk (some g) l).getOptions true = l.opts ++ g.getOptions true ∧
    (FormatRec.mk (some g) l).getCommandOptions true = dictVals l.copts ++ g.getCommandOptions true ∧
    (FormatRec.mk (some g) l).getArguments true = g.getArguments true ++ l.args ∧
    (FormatRec.mk (some g) l).getCommandNames true = g.getCommandNames true ++ l.names :=
  listings_compose g l h

/-- Lookups by name and by natural position raise the documented exceptions only (no
`KeyError` / `IndexError` escapes). -/
theorem lookups_raise_documented_only (f : FormatRec) (h : InvF f) (ib : Bool) (t : String) :
    (∀ n, f.getOption n ib ≠ .error (.other t)) ∧ (∀ n, f.getCommandOption n ib ≠ .error (.other t)) ∧
    (∀ n, f.getArgument n ib ≠ .error (.other t)) ∧ (∀ i : Nat, f.getArgumentAt (i : Int) ib ≠ .error (.other t)) := by
  have q := queries_match_elements f h ib
  have key : ∀ {α : Type} (r : Option α) (e : Err), (∀ t, e ≠ .other t) → lookup r e ≠ .error (.other t) := by
    intro α r e he
    cases r with
    | none => intro hh; injection hh with hh; exact he t hh
    | some a => intro hh; cases hh
  refine ⟨?_, ?_, ?_, ?_⟩
  · intro n; rw [q.getOption]; exact key _ _ (by intro t h; cases h)
  · intro n; rw [q.getCommandOption]; exact key _ _ (by intro t h; cases h)
  · intro n; rw [q.getArgument]; exact key _ _ (by intro t h; cases h)
  · intro i; rw [q.getArgumentAt]; exact key _ _ (by intro t h; cases h)

/-! ### The hypotheses, decided

`Op.wf` / the per-element hypothesis of `ctor_inv` are about the REAL element objects (what the
element constructors produced), `InvBase` is about the REAL base format.  The first two are decided
by `Op.wfB` / `Elem.wfB` (`Model/Builder.lean`; the driver answers them on the names read from the
real objects of every case, entry `c06.wf`); the third is discharged for every base that was itself
built with `ArgsFormat(elements, base)` from such elements (`built_bases_inv`) - there is no other
way to obtain an `ArgsFormat`. -/

/-- the executable deciders decide exactly the well-formedness hypotheses -/
theorem wf_decides :
    (∀ op : Op, op.wfB = true ↔ op.wf) ∧
    (∀ e : Elem, e.wfB = true ↔ ∀ op, e.toOp? = some op → op.wf) :=
  ⟨Op.wfB_iff, Elem.wfB_iff⟩

/-- **Every chain of base formats built with `ArgsFormat(elements, previous)` from well-formed
elements is a well-formed base** (on top of any well-formed base, in particular on none). -/
theorem built_bases_inv (levels : List (List Elem)) (base : Option FormatRec) (hbase : InvBase base)
    (hwf : ∀ es ∈ levels, ∀ e ∈ es, e.wfB = true) (base' : Option FormatRec)
    (h : ctorChain levels base = .ok base') : InvBase base' := by
  induction levels generalizing base with
  | nil => simp only [ctorChain] at h; injection h with h; subst h; exact hbase
  | cons es rest ih =>
    simp only [ctorChain] at h
    cases hc : ctor es base with
    | error e => rw [hc] at h; cases h
    | ok f =>
      rw [hc] at h
      have hf : InvF f :=
        ctor_inv es base hbase (fun e he => (Elem.wfB_iff e).1 (hwf es (by simp) e he)) f hc
      exact ih (some f) hf (fun es' h' => hwf es' (by simp [h'])) h

/-- `reachable_inv`, `format_inv`, `format_agrees`, `queries_match_elements` and `argument_rules`
with every hypothesis decided: for base levels and builder calls whose elements pass the deciders,
the builder after ANY history of calls on the built base satisfies the invariant, and so does the
format built from it, which answers every query as the builder does and as the listed elements
imply. -/
theorem reachable_inv_decided (levels : List (List Elem)) (ops : List Op)
    (hl : levels.all (fun es => es.all Elem.wfB) = true) (ho : ops.all Op.wfB = true)
    (base : Option FormatRec) (hb : ctorChain levels none = .ok base) :
    let b := run (Builder.empty base) ops
    Inv b ∧ InvF (format b) ∧ (∀ q, queryF (format b) q = queryB b q) ∧
    (∀ ib, QueriesMatch (format b) ib) ∧ ArgsOK (dictVals ((format b).getArguments true)) := by
  have hbase : InvBase base :=
    built_bases_inv levels none trivial
      (fun es hes e he => List.all_eq_true.1 (List.all_eq_true.1 hl es hes) e he) base hb
  have hi : Inv (run (Builder.empty base) ops) :=
    reachable_inv base hbase ops (fun op hop => (Op.wfB_iff op).1 (List.all_eq_true.1 ho op hop))
  exact ⟨hi, format_inv _ hi, format_agrees _ hi,
    fun ib => queries_match_elements _ (format_inv _ hi) ib, argument_rules _ (format_inv _ hi)⟩

/-- **Every format that can exist satisfies the invariant** (`Built`, `Lemmas/Builder.lean`: the
closure of `None` under `ArgsFormat(elements, base)` and `ArgsFormatBuilder(base)...format` with
elements that pass the deciders) - so `InvBase base` / `InvF f` is never an assumption about a
real format: `CommandConfig.build_args_format(parent_format)` stacks, element-list constructors
and builders can be mixed freely. -/
theorem built_inv (base : Option FormatRec) (h : Built base) : InvBase base := by
  induction h with
  | none => trivial
  | ctor _ hes hc ih =>
    exact ctor_inv _ _ ih (fun e he => (Elem.wfB_iff e).1 (List.all_eq_true.1 hes e he)) _ hc
  | format _ hops ih =>
    exact format_inv _ (reachable_inv _ ih _ (fun op hop => (Op.wfB_iff op).1 (List.all_eq_true.1 hops op hop)))

/-- every consequence of the invariant, for every format that can exist -/
theorem built_consistent (f : FormatRec) (h : Built (some f)) :
    InvF f ∧ (∀ ib, QueriesMatch f ib) ∧ ArgsOK (dictVals (f.getArguments true)) ∧
    (∀ n, (∀ o1 ∈ dictVals (f.getOptions true), ∀ o2 ∈ dictVals (f.getOptions true),
        n ∈ o1.names → n ∈ o2.names → o1 = o2) ∧
      (∀ c1 ∈ f.getCommandOptions true, ∀ c2 ∈ f.getCommandOptions true,
        n ∈ c1.names → n ∈ c2.names → c1 = c2) ∧
      (∀ o ∈ dictVals (f.getOptions true), ∀ c ∈ f.getCommandOptions true, n ∈ o.names → n ∉ c.names)) :=
  have hi : InvF f := built_inv (some f) h
  ⟨hi, queries_match_elements f hi, argument_rules f hi, names_identify_at_most_one f hi⟩

/-- `ctor_inv` with every hypothesis decided -/
theorem ctor_inv_decided (levels : List (List Elem)) (es : List Elem)
    (hl : levels.all (fun es => es.all Elem.wfB) = true) (he : es.all Elem.wfB = true)
    (base : Option FormatRec) (hb : ctorChain levels none = .ok base)
    (f : FormatRec) (h : ctor es base = .ok f) : InvF f :=
  built_bases_inv (levels ++ [es]) none trivial
    (by
      intro es' hes' e he'
      rcases List.mem_append.1 hes' with h1 | h1
      · exact List.all_eq_true.1 (List.all_eq_true.1 hl es' h1) e he'
      · rw [List.mem_singleton.1 h1] at he'; exact List.all_eq_true.1 he e he')
    (some f)
    (by
      have key : ∀ (ls : List (List Elem)) (b0 b1 : Option FormatRec), ctorChain ls b0 = .ok b1 →
          ctorChain (ls ++ [es]) b0 = (match ctor es b1 with | .ok f => .ok (some f) | .error e => .error e) := by
        intro ls
        induction ls with
        | nil => intro b0 b1 h0; simp only [ctorChain] at h0; injection h0 with h0; subst h0; rfl
        | cons l ls ih =>
          intro b0 b1 h0
          simp only [List.cons_append, ctorChain] at h0 ⊢
          cases hc : ctor l b0 with
          | error e => rw [hc] at h0; cases h0
          | ok g => rw [hc] at h0; exact ih (some g) b1 h0
      rw [key levels none base hb, h])

/-! ### Non-vacuity: a concrete base and builder with colliding names -/

section Examples

def oFoo : Opt := { long := "foo".toList, short := some "f".toList, tag := 1 }
def oBar : Opt := { long := "bar".toList, short := some "f".toList, tag := 2 }
def oBaz : Opt := { long := "baz".toList, short := some "b".toList, tag := 4 }
def cAdd : CmdOpt := { long := "add".toList, short := some "a".toList, longAliases := ["baz".toList],
                       shortAliases := ["g".toList], tag := 12 }
def aReq : Arg := { name := "src".toList, required := true, optional := false, multi := false, tag := 21 }
def aOpt : Arg := { name := "dst".toList, required := false, optional := true, multi := false, tag := 22 }
def aMul : Arg := { name := "rest".toList, required := false, optional := true, multi := true, tag := 25 }

/-- base format: option `--foo` / `-f`, required argument `src` -/
def exBase : Except Err FormatRec := ctor [.opt oFoo, .arg aReq] none

/-- the base is accepted; on top of it `--bar` / `-f` (short name taken by the base), `--baz` / `-b`,
the command option `add` with alias `baz` (taken), `dst`, a second required argument (after an
optional one), the multi-valued `rest`, and one more argument after it -/
example : (match exBase with
    | .error _ => []
    | .ok base =>
      let ops := [Op.addOption oBar, .addOption oBaz, .addCommandOption cAdd, .addArgument aOpt,
                  .addArgument aReq, .addArgument { aReq with name := "x".toList }, .addArgument aMul,
                  .addArgument { aOpt with name := "y".toList }]
      (ops.foldl (fun (acc : Builder × List (Option Err)) op =>
          let r := step acc.1 op; (r.1, acc.2 ++ [r.2])) (Builder.empty (some base), [])).2)
    = [some .cannotAddOption, none, some .cannotAddOption, none,
       some .cannotAddArgument, some .cannotAddArgument, none, some .cannotAddArgument] := by decide

/-- the invariant's hypotheses are satisfiable and its conclusion is not trivial: the builder
above lists `src, dst, rest` base-first and finds `--foo` through the base -/
example : (match exBase with
    | .error _ => none
    | .ok base =>
      let b := run (Builder.empty (some base)) [.addOption oBaz, .addArgument aOpt, .addArgument aMul]
      some (dictKeys (b.getArguments true), (b.getOption "f".toList true).toOption.map (·.tag),
            b.hasOption "b".toList false, b.hasOption "f".toList false))
    = some (["src".toList, "dst".toList, "rest".toList], some 1, true, false) := by decide

/-- Python's from-the-end indexing is part of the model: on an empty format `has_argument(-1)` is
true and `get_argument(-1)` raises `IndexError` (both classes behave the same). -/
example : (Builder.empty none).hasArgumentAt (-1) true = true ∧
    (Builder.empty none).getArgumentAt (-1) true = .error (.other "IndexError") := ⟨by decide, rfl⟩

example : Op.wf (.addCommandOption cAdd) := by
  simp [Op.wf, CmdOpt.wf, cAdd]

/-! the decided forms: ALL hypotheses are discharged by evaluation on a two-level base chain with
colliding names (the second level re-uses `-f`, rejected below) -/

def exLevels : List (List Elem) := [[.opt oFoo, .arg aReq], [.copt cAdd, .name ⟨"cmd".toList, [], 31⟩]]
def exOps : List Op :=
  [.addOption oBar, .setOptions [oBaz, oBar], .addArgument aOpt, .addCommandOptions [cAdd], .addArgument aMul]

example : ∃ base, ctorChain exLevels none = .ok base ∧
    let b := run (Builder.empty base) exOps
    Inv b ∧ InvF (format b) ∧ (∀ q, queryF (format b) q = queryB b q) ∧
    (∀ ib, QueriesMatch (format b) ib) ∧ ArgsOK (dictVals ((format b).getArguments true)) :=
  ⟨_, rfl, reachable_inv_decided exLevels exOps (by decide) (by decide) _ rfl⟩

/-- ... and the history above is not trivial: three of its five calls are rejected -/
example : (match ctorChain exLevels none with
    | .error _ => []
    | .ok base =>
      (exOps.foldl (fun (acc : Builder × List (Option Err)) op =>
          let r := step acc.1 op; (r.1, acc.2 ++ [r.2])) (Builder.empty base, [])).2)
    = [some .cannotAddOption, some .cannotAddOption, none, some .cannotAddOption, none] := by decide

/-- `ctor_objects_same_rules_decided` applied: object 0 is an instance of a subclass of `Option` (read as `--baz`),
object 1 of a mixin subclass of `Argument` (read as `dst`); the decider holds for both, and the constructor on the
two objects is the fold of `add_option(--baz)`, `add_argument(dst)` -/
example :
    ctor (elemsOf (fun o : Nat => if o = 0 then [.option] else [.argument, .argument])
        (fun o c => if c = .option then .opt { oBaz with tag := o } else .arg { aOpt with tag := o }) [0, 1]) none =
      (match seqAdd (Builder.empty none) [.opt { oBaz with tag := 0 }, .arg { aOpt with tag := 1 }] with
       | (b, none) => .ok (format b)
       | (_, some e) => .error e) :=
  ctor_objects_same_rules_decided (fun o : Nat => if o = 0 then [.option] else [.argument, .argument])
    (fun o => if o = 0 then .option else .argument)
    (fun o c => if c = .option then .opt { oBaz with tag := o } else .arg { aOpt with tag := o }) [0, 1] none
    (by decide)

example : ∃ f, ctor [.opt oBaz, .foreign, .arg aOpt] none = .ok f ∧ InvF f :=
  ⟨_, rfl, ctor_inv_decided [] [.opt oBaz, .foreign, .arg aOpt] (by decide) (by decide) none rfl _ rfl⟩

/-- `step_atomic_inv` on that builder: `--bar` / `-f` is rejected (the base owns `-f`) and the
builder is exactly what it was -/
example : ∃ base, ctorChain exLevels none = .ok base ∧
    (step (run (Builder.empty base) exOps) (.addOption oBar)).1 = run (Builder.empty base) exOps :=
  ⟨_, rfl, by
    have h := reachable_inv_decided exLevels exOps (by decide) (by decide) _ rfl
    have := step_atomic_inv _ (.addOption oBar) (by simp [Op.wf, Opt.wf, oBar]) h.1
    exact this.2.1 rfl (by decide)⟩

/-- a `CommandConfig.build_args_format`-like stack: a built format on top of a constructed one -/
example : ∃ f g, ctor [.opt oFoo, .arg aReq] none = .ok g ∧
    f = format (run (Builder.empty (some g)) [.addCommandName ⟨"cmd".toList, [], 31⟩, .addOptions [oBaz, oBar],
      .addArguments [aOpt]]) ∧ InvF f ∧ ArgsOK (dictVals (f.getArguments true)) := by
  refine ⟨_, _, rfl, rfl, ?_⟩
  have h := built_consistent _ (Built.format (ops := [.addCommandName ⟨"cmd".toList, [], 31⟩,
    .addOptions [oBaz, oBar], .addArguments [aOpt]])
    (Built.ctor (es := [.opt oFoo, .arg aReq]) Built.none (by decide) rfl) (by decide))
  exact ⟨h.1, h.2.2.1⟩

/-- the deciders reject what the constructors reject: a one-letter long name, a two-letter short
name, a one-letter long alias -/
example : Opt.wfB { long := "f".toList, short := none, tag := 0 } = false ∧
    Opt.wfB { long := "foo".toList, short := some "fo".toList, tag := 0 } = false ∧
    CmdOpt.wfB { cAdd with longAliases := ["b".toList] } = false ∧ CmdOpt.wfB cAdd = true := by decide

/-- `step_atomic_inv`, `listing_order`, `names_identify_at_most_one`, `lookups_raise_documented_only`
applied to a concrete built format (hypotheses discharged through `ctor_inv_decided`) -/
example : ∃ g l, ctor [.opt oBaz, .arg aOpt] (some g) = .ok (.mk (some g) l) ∧
    (FormatRec.mk (some g) l).getArguments true = g.getArguments true ++ l.args := by
  refine ⟨.mk none { opts := [("foo".toList, oFoo)], optsS := [("f".toList, oFoo)],
                      args := [("src".toList, aReq)] }, _, rfl, ?_⟩
  have hg : ctorChain [[.opt oFoo, .arg aReq]] none = .ok (some (.mk none
      { opts := [("foo".toList, oFoo)], optsS := [("f".toList, oFoo)], args := [("src".toList, aReq)] })) := rfl
  exact (listing_order _ _ (ctor_inv_decided [[.opt oFoo, .arg aReq]] [.opt oBaz, .arg aOpt] (by decide) (by decide)
    _ hg _ rfl)).2.2.1


end Examples

/-! ## The bridge to the parser: every format that can be built flattens to a format the parser theorems apply to

The parser theorems (C01, C02, C05, C13) are about the flattened format `Parser.Fmt` that `parse()`
reads from an `ArgsFormat`: command names, arguments base-first, options with the base.  They
assume facts about it - the multi-valued argument is last (`MultiLast f.fargs`), the argument keys
are distinct, an option is found under its long / short name (`LongOK`, `ShortOK`), `FmtWF`.  Until
here those facts were DECIDED on every real format the correspondence runs saw (`c01.wf`,
`c02.wf`).  Below they are PROVED for the flattening `flattenRec aa oa f` (`Model/Flatten.lean`) of
every format `f` of the builder model that satisfies the invariant - hence (`built_inv`) of every
format that can be built - and for EVERY choice `aa`, `oa` of the attributes the builder model
does not carry (types, nullability, defaults, the option value modes).  The flattening is tied to
what the harness reads from the real format objects by the driver entry `c06.flatten`.

What can NOT be derived, because the builder model does not carry the information, stays a
hypothesis (C07's subject): the option-mode normal form (`FmtWF.optModes`, about `oa`), the
defaults clause (`FmtWF.defaults`, about `oa`), and that a long name contains no `=` (second
component of `LongOK`; name validation of the `Option` constructor).  That a long name is not empty
and a short name is one character is not part of `InvF` either (hypothesis `hname` of `flat_long_ok`,
shape `some [c]` in `flat_short_ok`) but IS proved for every format that can be built
(`built_option_names`, from the element deciders inside `Built`). -/

section Bridge
open Clikit.Parser Clikit.Flatten

/-- the uniqueness of names (`names_identify_at_most_one`) in the form the lookup lemmas use -/
theorem flat_names_unique (f : FormatRec) (h : InvF f) : NamesUnique (dictVals (f.getOptions true)) :=
  fun n o1 h1 o2 h2 => (names_identify_at_most_one f h n).1 o1 h1 o2 h2

/-- **The multi-valued argument of a flattened built format is its last argument** (command-name
pseudo-arguments included) - hypothesis `hml` of `C01.positionals_in_order`,
`C01.command_names_realigned`, `C02.fault_surplus_positional`. -/
theorem flat_multi_last (aa : ArgsFmt.Arg → ArgAttrs) (oa : ArgsFmt.Opt → OptAttrs) (f : FormatRec)
    (h : InvF f) : MultiLast (flattenRec aa oa f).fargs :=
  multiLast_of_argsOK aa _ _ (argument_rules f h)

/-- the argument names of a flattened built format are distinct (across the whole base chain) -
clause `argNames` of `FmtWF` -/
theorem flat_arg_names_nodup (aa : ArgsFmt.Arg → ArgAttrs) (oa : ArgsFmt.Opt → OptAttrs) (f : FormatRec)
    (h : InvF f) : ((flattenRec aa oa f).args.map (·.name)).Nodup := by
  show (((dictVals (f.getArguments true)).map (flatArg aa)).map (·.name)).Nodup
  rw [flatArg_names]
  exact (argument_rules f h).names

/-- **The argument keys of a flattened built format are distinct**: real names across the base
chain, the pseudo keys of the command names among themselves and from the real ones - hypothesis
`hnd` of the same theorems and of `C01.positional_kth`. -/
theorem flat_keys_nodup (aa : ArgsFmt.Arg → ArgAttrs) (oa : ArgsFmt.Opt → OptAttrs) (f : FormatRec)
    (h : InvF f) : ((flattenRec aa oa f).fargs.map (·.key)).Nodup :=
  fargs_nodup (flat_arg_names_nodup aa oa f h)

/-- **Every listed option is found under its long name** (first component of `LongOK`): the
parser's lookup `getOpt?` (by long name first, then by short name, over the flattened listing own
options first) answers the option itself, because no other option of the chain carries the name. -/
theorem flat_long_names (aa : ArgsFmt.Arg → ArgAttrs) (oa : ArgsFmt.Opt → OptAttrs) (f : FormatRec)
    (h : InvF f) : ∀ o ∈ (flattenRec aa oa f).opts, (flattenRec aa oa f).getOpt? o.long = some o := by
  intro o ho
  obtain ⟨o0, ho0, rfl⟩ := List.mem_map.mp ho
  exact getOpt?_long oa _ _ _ (flat_names_unique f h) o0 ho0

/-- **Every listed option is found under its short name** (any non-empty one), although the lookup
tries the long names first: no long name of the chain equals a short name of the chain. -/
theorem flat_short_names (aa : ArgsFmt.Arg → ArgAttrs) (oa : ArgsFmt.Opt → OptAttrs) (f : FormatRec)
    (h : InvF f) : ∀ o ∈ (flattenRec aa oa f).opts, ∀ s, o.short = some s → s ≠ [] →
      (flattenRec aa oa f).getOpt? s = some o := by
  intro o ho s hs hne
  obtain ⟨o0, ho0, rfl⟩ := List.mem_map.mp ho
  exact getOpt?_short oa _ _ _ (flat_names_unique f h) o0 ho0 s hs hne

/-- **A name identifies at most one option of the flattened format**, whether it is used as a long
or as a (non-empty) short name. -/
theorem flat_names_identify_at_most_one (aa : ArgsFmt.Arg → ArgAttrs) (oa : ArgsFmt.Opt → OptAttrs)
    (f : FormatRec) (h : InvF f) (n : Str) :
    ∀ o1 ∈ (flattenRec aa oa f).opts, ∀ o2 ∈ (flattenRec aa oa f).opts,
      (o1.long = n ∨ (o1.short = some n ∧ n ≠ [])) → (o2.long = n ∨ (o2.short = some n ∧ n ≠ [])) → o1 = o2 := by
  intro o1 h1 o2 h2 hn1 hn2
  obtain ⟨a1, ha1, rfl⟩ := List.mem_map.mp h1
  obtain ⟨a2, ha2, rfl⟩ := List.mem_map.mp h2
  have e1 : n ∈ a1.names := (ArgsFmt.Opt.mem_names a1 n).mpr (hn1.imp (fun e => e.symm) id)
  have e2 : n ∈ a2.names := (ArgsFmt.Opt.mem_names a2 n).mpr (hn2.imp (fun e => e.symm) id)
  rw [flat_names_unique f h n a1 ha1 a2 ha2 e1 e2]

/-- `LongOK` of every listed option - given what the builder model does not carry: the long names
contain no `=` and are not empty (validated by the `Option` constructor, C07) -/
theorem flat_long_ok (aa : ArgsFmt.Arg → ArgAttrs) (oa : ArgsFmt.Opt → OptAttrs) (f : FormatRec) (h : InvF f)
    (hname : ∀ o ∈ dictVals (f.getOptions true), '=' ∉ o.long ∧ o.long ≠ []) :
    ∀ o ∈ (flattenRec aa oa f).opts, LongOK (flattenRec aa oa f) o := by
  intro o ho
  refine ⟨flat_long_names aa oa f h o ho, ?_⟩
  obtain ⟨o0, ho0, rfl⟩ := List.mem_map.mp ho
  exact hname o0 ho0

/-- `ShortOK` of every listed option with a one-character short name (no hypothesis on `oa`) -/
theorem flat_short_ok (aa : ArgsFmt.Arg → ArgAttrs) (oa : ArgsFmt.Opt → OptAttrs) (f : FormatRec) (h : InvF f) :
    ∀ o ∈ (flattenRec aa oa f).opts, ∀ c, o.short = some [c] → ShortOK (flattenRec aa oa f) o c :=
  fun o ho c hc => ⟨flat_short_names aa oa f h o ho [c] hc (by simp), flat_long_names aa oa f h o ho⟩

/-- **`FmtWF` of a flattened built format**: the first clause (distinct argument names) is proved;
the other two are about attributes the builder model does not carry and are exactly the
hypotheses `hmodes` (C07 normal form of the value modes) and `hdef` (the default of a single-valued
optional-value option converts inside the parser model). -/
theorem flat_fmt_wf (cv : Conv) (aa : ArgsFmt.Arg → ArgAttrs) (oa : ArgsFmt.Opt → OptAttrs) (f : FormatRec)
    (h : InvF f)
    (hmodes : ∀ o ∈ dictVals (f.getOptions true),
      (oa o).accepts = true → (oa o).valReq = true ∨ (oa o).valOpt = true ∨ (oa o).multi = true)
    (hdef : ∀ o ∈ dictVals (f.getOptions true), (oa o).valOpt = true → (oa o).multi = false →
      ∃ s, (oa o).default = .scalar s ∧ NoOther (conv cv (oa o).ty (oa o).nullable s)) :
    FmtWF cv (flattenRec aa oa f) :=
  { argNames := flat_arg_names_nodup aa oa f h
    optModes := by
      intro o ho
      obtain ⟨o0, ho0, rfl⟩ := List.mem_map.mp ho
      exact hmodes o0 ho0
    defaults := by
      intro o ho
      obtain ⟨o0, ho0, rfl⟩ := List.mem_map.mp ho
      exact hdef o0 ho0 }

/-! ### The parser theorems, with their format hypotheses discharged for every format that can be built -/

/-- **Every option listed by a format that can be built carries the names the constructors
validated**: a long name of at least two characters, a short name (if any) of exactly one.  (`InvF`
does not say this; the closure `Built` does, through `Elem.wfB` / `Op.wfB` of the added elements.) -/
theorem built_names_validated (base : Option FormatRec) (hb : Built base) : baseOptsWF base := by
  induction hb with
  | none => trivial
  | @ctor base es f _ hes hc ih =>
    rw [ctor_same_rules] at hc
    have hs := BOptsWF.seqAdd es (Builder.empty base)
      (fun e he => (Elem.wfB_iff e).1 (List.all_eq_true.1 hes e he)) (BOptsWF.empty ih)
    cases hq : seqAdd (Builder.empty base) es with
    | mk b r =>
      rw [hq] at hc hs
      cases r with
      | some e => cases hc
      | none => injection hc with hc; subst hc; exact hs.format
  | format _ hops ih =>
    exact (BOptsWF.run _ _ (fun op hop => (Op.wfB_iff op).1 (List.all_eq_true.1 hops op hop)) (BOptsWF.empty ih)).format

theorem built_option_names (f : FormatRec) (hb : Built (some f)) :
    ∀ o ∈ dictVals (f.getOptions true), 2 ≤ o.long.length ∧ ∀ s, o.short = some s → s.length = 1 := by
  rw [f.getOptions_eq (built_inv (some f) hb).keys]
  exact built_names_validated (some f) hb

/-- **`ShortOK` for every short name of every format that can be built** (what `C02.wf_short_names`
derives from the two deciders): the short name is one character and the parser finds the option
under it and under its long name. -/
theorem built_short_ok (aa : ArgsFmt.Arg → ArgAttrs) (oa : ArgsFmt.Opt → OptAttrs) (f : FormatRec)
    (hb : Built (some f)) :
    ∀ o ∈ (flattenRec aa oa f).opts, ∀ s, o.short = some s → ∃ c, s = [c] ∧ ShortOK (flattenRec aa oa f) o c := by
  intro o ho s hs
  obtain ⟨o0, ho0, rfl⟩ := List.mem_map.mp ho
  have hl := (built_option_names f hb o0 ho0).2 s hs
  match s, hl with
  | [c], _ => exact ⟨c, rfl, flat_short_ok aa oa f (built_inv (some f) hb) _ ho c hs⟩

/-- **`LongOK` for every option of every format that can be built** - up to the one fact the builder
model does not carry: the long names contain no `=` (name validation of the `Option` constructor, C07) -/
theorem built_long_ok (aa : ArgsFmt.Arg → ArgAttrs) (oa : ArgsFmt.Opt → OptAttrs) (f : FormatRec)
    (hb : Built (some f)) (heq : ∀ o ∈ dictVals (f.getOptions true), '=' ∉ o.long) :
    ∀ o ∈ (flattenRec aa oa f).opts, LongOK (flattenRec aa oa f) o := by
  apply flat_long_ok aa oa f (built_inv (some f) hb)
  intro o ho
  refine ⟨heq o ho, fun hnil => ?_⟩
  have := (built_option_names f hb o ho).1
  rw [hnil] at this
  simp at this

/-- everything the parser theorems assume about the format that the builder model can speak about,
for every format that can exist -/
theorem built_flat_wf (aa : ArgsFmt.Arg → ArgAttrs) (oa : ArgsFmt.Opt → OptAttrs) (f : FormatRec)
    (hb : Built (some f)) :
    MultiLast (flattenRec aa oa f).fargs ∧ ((flattenRec aa oa f).fargs.map (·.key)).Nodup ∧
    ((flattenRec aa oa f).args.map (·.name)).Nodup ∧
    (∀ o ∈ (flattenRec aa oa f).opts, (flattenRec aa oa f).getOpt? o.long = some o ∧ o.long ≠ []) ∧
    (∀ o ∈ (flattenRec aa oa f).opts, ∀ s, o.short = some s → ∃ c, s = [c] ∧ ShortOK (flattenRec aa oa f) o c) :=
  have hi : InvF f := built_inv (some f) hb
  ⟨flat_multi_last aa oa f hi, flat_keys_nodup aa oa f hi, flat_arg_names_nodup aa oa f hi,
   fun o ho => ⟨flat_long_names aa oa f hi o ho, by
      obtain ⟨o0, ho0, rfl⟩ := List.mem_map.mp ho
      intro hnil
      have := (built_option_names f hb o0 ho0).1
      rw [show o0.long = [] from hnil] at this
      simp at this⟩,
   built_short_ok aa oa f hb⟩

/-- **C01 `positionals_in_order` for every format that can be built** (no hypothesis about the
format left): the positionals of a line fill the arguments of the flattened format in order. -/
theorem built_positionals_in_order (aa : ArgsFmt.Arg → ArgAttrs) (oa : ArgsFmt.Opt → OptAttrs) (f : FormatRec)
    (hb : Built (some f)) (len : Bool) (sems : List Sem) (σ : St)
    (h : runSems (flattenRec aa oa f) len sems St.empty = .ok σ) :
    σ.args = fill (posVals sems) (flattenRec aa oa f).fargs :=
  have hi : InvF f := built_inv (some f) hb
  C01.positionals_in_order _ (flat_multi_last aa oa f hi) (flat_keys_nodup aa oa f hi) len sems σ h

/-- **C01 `command_names_realigned` for every format that can be built** -/
theorem built_command_names_realigned (cv : Conv) (aa : ArgsFmt.Arg → ArgAttrs) (oa : ArgsFmt.Opt → OptAttrs)
    (f : FormatRec) (hb : Built (some f)) (len : Bool) (line : List Str) (sems : List Sem) (σ : St)
    (hsp : SpellsLine (flattenRec aa oa f) line sems)
    (hrun : runSems (flattenRec aa oa f) len sems St.empty = .ok σ)
    (hfit : fits (posVals sems).length (flattenRec aa oa f).fargs = true) :
    parse cv (flattenRec aa oa f) len line =
      (finish cv (flattenRec aa oa f) len
        { args := fill (posVals sems) (flattenRec aa oa f).fargs, opts := σ.opts }).1 ∧
    insertMissing (flattenRec aa oa f) len
        { args := fill (posVals sems) (flattenRec aa oa f).fargs, opts := σ.opts } =
      (if fits (insertNames (flattenRec aa oa f).cmds (posVals sems)).length (flattenRec aa oa f).fargs || len then
        .ok { args := fill (insertNames (flattenRec aa oa f).cmds (posVals sems)) (flattenRec aa oa f).fargs,
              opts := σ.opts }
      else .error .cannotParse) :=
  have hi : InvF f := built_inv (some f) hb
  C01.command_names_realigned cv _ (flat_multi_last aa oa f hi) (flat_keys_nodup aa oa f hi) len line sems σ
    hsp hrun hfit

/-- **C02 `fault_surplus_positional` for every format that can be built** -/
theorem built_fault_surplus_positional (cv : Conv) (aa : ArgsFmt.Arg → ArgAttrs) (oa : ArgsFmt.Opt → OptAttrs)
    (f : FormatRec) (hb : Built (some f)) {toks rest : List Str} {sems : List Sem} (t : Str)
    (ht : posLike t = true) (hp : SpellsPrefix (flattenRec aa oa f) (t :: rest) toks sems) (σ' : St)
    (hrun : runSems (flattenRec aa oa f) false sems St.empty = .ok σ')
    (hfull : fits ((posVals sems).length + 1) (flattenRec aa oa f).fargs = false) :
    parse cv (flattenRec aa oa f) false (toks ++ t :: rest) = .error .cannotParse :=
  have hi : InvF f := built_inv (some f) hb
  C02.fault_surplus_positional cv _ (flat_multi_last aa oa f hi) (flat_keys_nodup aa oa f hi) t ht hp σ' hrun hfull

/-- `LongOK` of one option of a format that can be built whose long name has no `=` -/
theorem built_long_ok_one (aa : ArgsFmt.Arg → ArgAttrs) (oa : ArgsFmt.Opt → OptAttrs) (f : FormatRec)
    (hb : Built (some f)) (o : Parser.Opt) (ho : o ∈ (flattenRec aa oa f).opts) (heq : '=' ∉ o.long) :
    LongOK (flattenRec aa oa f) o := by
  refine ⟨flat_long_names aa oa f (built_inv (some f) hb) o ho, heq, fun hnil => ?_⟩
  obtain ⟨o0, ho0, rfl⟩ := List.mem_map.mp ho
  have := (built_option_names f hb o0 ho0).1
  rw [show o0.long = [] from hnil] at this
  simp at this

/-- **C02 `fault_value_for_flag` / `fault_required_value_missing` for every option of every format
that can be built**; `heq` (no `=` in the long name) is the part of `LongOK` the builder model does
not carry. -/
theorem built_fault_value_for_flag (cv : Conv) (aa : ArgsFmt.Arg → ArgAttrs) (oa : ArgsFmt.Opt → OptAttrs)
    (f : FormatRec) (hb : Built (some f)) (len : Bool) {toks rest : List Str} {sems : List Sem}
    (o : Parser.Opt) (ho : o ∈ (flattenRec aa oa f).opts) (heq : '=' ∉ o.long) (v : Str)
    (hflag : o.accepts = false)
    (hp : SpellsPrefix (flattenRec aa oa f) ((dd ++ o.long ++ '=' :: v) :: rest) toks sems) (σ' : St)
    (hrun : runSems (flattenRec aa oa f) len sems St.empty = .ok σ') :
    parse cv (flattenRec aa oa f) len (toks ++ (dd ++ o.long ++ '=' :: v) :: rest) =
      if len then (finish cv (flattenRec aa oa f) true σ').1 else .error .cannotParse :=
  C02.fault_value_for_flag cv _ len o v (built_long_ok_one aa oa f hb o ho heq) hflag hp σ' hrun

theorem built_fault_required_value_missing (cv : Conv) (aa : ArgsFmt.Arg → ArgAttrs)
    (oa : ArgsFmt.Opt → OptAttrs) (f : FormatRec) (hb : Built (some f)) (len : Bool)
    {toks rest : List Str} {sems : List Sem} (o : Parser.Opt) (ho : o ∈ (flattenRec aa oa f).opts)
    (heq : '=' ∉ o.long) (hreq : o.valReq = true) (hstop : stopsValue rest = true)
    (hp : SpellsPrefix (flattenRec aa oa f) ((dd ++ o.long) :: rest) toks sems) (σ' : St)
    (hrun : runSems (flattenRec aa oa f) len sems St.empty = .ok σ') :
    parse cv (flattenRec aa oa f) len (toks ++ (dd ++ o.long) :: rest) =
      if len then (finish cv (flattenRec aa oa f) true σ').1 else .error .cannotParse :=
  C02.fault_required_value_missing cv _ len o (built_long_ok_one aa oa f hb o ho heq) hreq hstop hp σ' hrun

/-- **C02 `no_foreign_exception` for every format that can be built**, under the two clauses of
`FmtWF` that are about attributes outside the builder model (`flat_fmt_wf`). -/
theorem built_no_foreign_exception (cv : Conv) (aa : ArgsFmt.Arg → ArgAttrs) (oa : ArgsFmt.Opt → OptAttrs)
    (f : FormatRec) (hb : Built (some f))
    (hmodes : ∀ o ∈ dictVals (f.getOptions true),
      (oa o).accepts = true → (oa o).valReq = true ∨ (oa o).valOpt = true ∨ (oa o).multi = true)
    (hdef : ∀ o ∈ dictVals (f.getOptions true), (oa o).valOpt = true → (oa o).multi = false →
      ∃ s, (oa o).default = .scalar s ∧ NoOther (conv cv (oa o).ty (oa o).nullable s))
    (lenient : Bool) (toks : List Str) :
    (∃ a, parse cv (flattenRec aa oa f) lenient toks = .ok a) ∨
      parse cv (flattenRec aa oa f) lenient toks = .error .cannotParse ∨
      parse cv (flattenRec aa oa f) lenient toks = .error .noSuchOption ∨
      parse cv (flattenRec aa oa f) lenient toks = .error .valueError :=
  C02.no_foreign_exception cv _ (flat_fmt_wf cv aa oa f (built_inv (some f) hb) hmodes hdef) lenient toks

end Bridge

/-! ### Non-vacuity of the bridge: a two-level format built the two possible ways

Base (element-list constructor): command name `server` (alias `srv`), the flag `--foo`/`-f`, the
required argument `src`.  On top (builder): command name `add`, the option `--baz`/`-b`, the
optional argument `dst` and the trailing multi-valued argument `rest`; the colliding `--bar`/`-f`
is rejected on the way.  `exOA` makes `--baz` a required-value option (the builder model does not
know). -/

section BridgeExamples
open Clikit.Parser Clikit.Flatten

def nSrv : ArgsFmt.CmdName := { name := "server".toList, aliases := ["srv".toList], tag := 31 }
def nAdd : ArgsFmt.CmdName := { name := "add".toList, aliases := [], tag := 32 }
def exG : FormatRec :=
  match ctor [.name nSrv, .opt oFoo, .arg aReq] none with
  | .ok g => g
  | .error _ => .mk none {}
def exTopOps : List Op :=
  [.addCommandName nAdd, .addOption oBar, .addOptions [oBaz], .addArguments [aOpt, aMul]]
def exF : FormatRec := format (run (Builder.empty (some exG)) exTopOps)

theorem exG_built : Built (some exG) :=
  Built.ctor (es := [.name nSrv, .opt oFoo, .arg aReq]) Built.none (by decide) rfl
theorem exF_built : Built (some exF) := Built.format exG_built (by decide)

/-- the attributes the builder model does not carry: `--baz` (tag 4) requires a value, everything
else is a flag -/
def exOA (o : ArgsFmt.Opt) : OptAttrs :=
  if o.tag = 4 then { plainOpt o with accepts := true, valReq := true } else plainOpt o
theorem exOA_valOpt (o : ArgsFmt.Opt) : (exOA o).valOpt = false := by unfold exOA; split <;> rfl
def exFlat : Fmt := flattenRec plainArg exOA exF
def pFoo : Parser.Opt := flatOpt exOA oFoo
def pBaz : Parser.Opt := flatOpt exOA oBaz

/-- the flattening: command names and arguments base-first, options own-first -/
example : exFlat.cmds = [⟨"server".toList, ["srv".toList]⟩, ⟨"add".toList, []⟩] ∧
    exFlat.fargs = [⟨.pseudo 0, true, false⟩, ⟨.pseudo 1, true, false⟩, ⟨.real "src".toList, true, false⟩,
                    ⟨.real "dst".toList, false, false⟩, ⟨.real "rest".toList, false, true⟩] ∧
    exFlat.opts = [pBaz, pFoo] := by decide

/-- `flat_multi_last`, `flat_keys_nodup`, `flat_arg_names_nodup`, `flat_long_names`, `flat_short_names`,
`flat_names_identify_at_most_one`, `flat_short_ok`, `built_flat_wf`: the hypothesis holds -/
theorem exF_inv : InvF exF := built_inv (some exF) exF_built
example : MultiLast exFlat.fargs := flat_multi_last plainArg exOA exF exF_inv
example : (exFlat.fargs.map (·.key)).Nodup := flat_keys_nodup plainArg exOA exF exF_inv
example : (exFlat.args.map (·.name)).Nodup := flat_arg_names_nodup plainArg exOA exF exF_inv
example : exFlat.getOpt? "foo".toList = some pFoo := flat_long_names plainArg exOA exF exF_inv pFoo (by decide)
example : exFlat.getOpt? "b".toList = some pBaz :=
  flat_short_names plainArg exOA exF exF_inv pBaz (by decide) _ rfl (by decide)
example (o : Parser.Opt) (ho : o ∈ exFlat.opts) (hs : o.short = some "f".toList) : o = pFoo :=
  flat_names_identify_at_most_one plainArg exOA exF exF_inv "f".toList o ho pFoo (by decide)
    (Or.inr ⟨hs, by decide⟩) (Or.inr ⟨rfl, by decide⟩)
theorem exF_names : ∀ o ∈ dictVals (exF.getOptions true), '=' ∉ o.long ∧ o.long ≠ [] := by decide
theorem pFoo_long : LongOK exFlat pFoo := flat_long_ok plainArg exOA exF exF_inv exF_names pFoo (by decide)
theorem pBaz_long : LongOK exFlat pBaz := flat_long_ok plainArg exOA exF exF_inv exF_names pBaz (by decide)
theorem pFoo_short : ShortOK exFlat pFoo 'f' := flat_short_ok plainArg exOA exF exF_inv pFoo (by decide) 'f' rfl
example : MultiLast exFlat.fargs ∧ (exFlat.fargs.map (·.key)).Nodup ∧ (exFlat.args.map (·.name)).Nodup ∧
    (∀ o ∈ exFlat.opts, exFlat.getOpt? o.long = some o ∧ o.long ≠ []) ∧
    (∀ o ∈ exFlat.opts, ∀ s, o.short = some s → ∃ c, s = [c] ∧ ShortOK exFlat o c) :=
  built_flat_wf plainArg exOA exF exF_built

/-- `built_option_names`, `built_short_ok`, `built_long_ok` on the example -/
example : ∀ o ∈ dictVals (exF.getOptions true), 2 ≤ o.long.length ∧ ∀ s, o.short = some s → s.length = 1 :=
  built_option_names exF exF_built
example : ∃ c, "b".toList = [c] ∧ ShortOK exFlat pBaz c :=
  built_short_ok plainArg exOA exF exF_built pBaz (by decide) _ rfl
example : LongOK exFlat pBaz :=
  built_long_ok plainArg exOA exF exF_built (by decide) pBaz (by decide)

/-- the clauses of `FmtWF` that stay hypotheses are satisfiable: they hold for `exOA` -/
theorem exF_fmt_wf : FmtWF C02.cv0 exFlat :=
  flat_fmt_wf C02.cv0 plainArg exOA exF exF_inv (by decide)
    (fun o _ hv => by rw [exOA_valOpt] at hv; cases hv)

/-- the line `srv a -f --baz=v b c d`: `add` was not typed -/
def exLine : List Str :=
  ["srv".toList, "a".toList, "-f".toList, "--baz=v".toList, "b".toList, "c".toList, "d".toList]
def exSems : List Sem :=
  [.pos "srv".toList, .pos "a".toList, .opt pFoo none, .opt pBaz (some "v".toList),
   .pos "b".toList, .pos "c".toList, .pos "d".toList]
def exσ : St :=
  { args := [(.pseudo 0, .one (.tok "srv".toList)), (.pseudo 1, .one (.tok "a".toList)),
             (.real "src".toList, .one (.tok "b".toList)), (.real "dst".toList, .one (.tok "c".toList)),
             (.real "rest".toList, .many [.tok "d".toList])],
    opts := [("foo".toList, .one (.bool true)), ("baz".toList, .one (.str "v".toList))] }

theorem exLine_spells : SpellsLine exFlat exLine exSems :=
  .cons (.pos rfl) (.cons (.pos rfl)
    (.cons (.short (take := none) (by decide) (.flag pFoo_short rfl .done))
      (.cons (.longEq pBaz_long rfl (by decide))
        (.cons (.pos rfl) (.cons (.pos rfl) (.cons (.pos rfl) .nil))))))

/-- `built_positionals_in_order`: the run of the items succeeds and its argument dictionary is the
`fill` of the five positionals (the options in between do not matter) -/
example : exσ.args = fill (posVals exSems) exFlat.fargs :=
  built_positionals_in_order plainArg exOA exF exF_built false exSems exσ rfl

/-- `built_command_names_realigned`: `add` is put back behind `srv`; `a`, `b`, `c`, `d` move on -/
example : insertMissing exFlat false { args := fill (posVals exSems) exFlat.fargs, opts := exσ.opts } =
    .ok { args := [(.pseudo 0, .one (.tok "srv".toList)), (.pseudo 1, .one (.cmd ⟨"add".toList, []⟩)),
                   (.real "src".toList, .one (.tok "a".toList)), (.real "dst".toList, .one (.tok "b".toList)),
                   (.real "rest".toList, .many [.tok "c".toList, .tok "d".toList])],
          opts := exσ.opts } :=
  (built_command_names_realigned C02.cv0 plainArg exOA exF exF_built false exLine exSems exσ exLine_spells rfl
    (by decide)).2

/-- `built_no_foreign_exception` with its two remaining hypotheses discharged for `exOA` -/
example : (∃ a, parse C02.cv0 exFlat true exLine = .ok a) ∨ parse C02.cv0 exFlat true exLine = .error .cannotParse ∨
    parse C02.cv0 exFlat true exLine = .error .noSuchOption ∨ parse C02.cv0 exFlat true exLine = .error .valueError :=
  built_no_foreign_exception C02.cv0 plainArg exOA exF exF_built (by decide)
    (fun o _ hv => by rw [exOA_valOpt] at hv; cases hv) true exLine

/-- the faults, on a second format on the same base without a multi-valued argument: `--baz`/`-b` and `dst` -/
def exH : FormatRec := format (run (Builder.empty (some exG)) [.addOption oBaz, .addArgument aOpt])
theorem exH_built : Built (some exH) := Built.format exG_built (by decide)
def exFlatH : Fmt := flattenRec plainArg exOA exH
def pFooH : Parser.Opt := flatOpt exOA oFoo
def pBazH : Parser.Opt := flatOpt exOA oBaz
def σH : St := { args := [(.pseudo 0, .one (.tok "srv".toList)), (.real "src".toList, .one (.tok "a".toList)),
                          (.real "dst".toList, .one (.tok "b".toList))], opts := [] }
theorem prefixH (next : List Str) :
    SpellsPrefix exFlatH next ["srv".toList, "a".toList, "b".toList]
      [.pos "srv".toList, .pos "a".toList, .pos "b".toList] :=
  .cons (toks' := ["a".toList, "b".toList]) (.pos rfl)
    (.cons (toks' := ["b".toList]) (.pos rfl) (.cons (toks' := []) (.pos rfl) .nil))

/-- `built_fault_surplus_positional`: `srv a b c` on a format with three argument slots -/
example : parse C02.cv0 exFlatH false ["srv".toList, "a".toList, "b".toList, "c".toList] = .error .cannotParse :=
  built_fault_surplus_positional C02.cv0 plainArg exOA exH exH_built "c".toList rfl
    (prefixH _) σH rfl (by decide)

/-- `built_fault_value_for_flag`: `srv a b --foo=v` -/
example : parse C02.cv0 exFlatH false ["srv".toList, "a".toList, "b".toList, "--foo=v".toList] = .error .cannotParse :=
  built_fault_value_for_flag C02.cv0 plainArg exOA exH exH_built false pFooH (by decide) (by decide)
    "v".toList rfl (prefixH _) σH rfl

/-- `built_fault_required_value_missing`: `srv a b --baz` at the end of the line -/
example : parse C02.cv0 exFlatH false ["srv".toList, "a".toList, "b".toList, "--baz".toList] = .error .cannotParse :=
  built_fault_required_value_missing C02.cv0 plainArg exOA exH exH_built false pBazH (by decide)
    (by decide) rfl rfl (prefixH _) σH rfl

/-- the hypothesis of the bridge is needed: a hand-made "format" with two multi-valued arguments
(which no history of builder calls produces) flattens to a format that is not `MultiLast` -/
example : ¬ MultiLast (flattenRec plainArg plainOpt
    (.mk none { args := [("rest".toList, aMul), ("dst".toList, aOpt)] })).fargs :=
  mt (multiLastB_iff _).mpr (by decide)

end BridgeExamples

end Clikit.Props.C06
