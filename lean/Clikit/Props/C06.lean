import Clikit.Lemmas.Builder
/-!
# C06 - an args format can never be built into an inconsistent state

Theorems about `Clikit.ArgsFmt` (`Model/Builder.lean`), the executable model of
`ArgsFormatBuilder` / `ArgsFormat`, over **all** histories of builder calls and **all** chains
of base formats.

Vocabulary (defined in `Lemmas/Builder.lean`):

* `InvF f` - the invariant of a format `f` with its bases:
  `ok`   every level's tables are exactly the tables of some element lists (keys are the
         elements' own names, the short-name tables index the same elements, the two flags
         summarise the arguments);
  `keys` `f.keyChain.Nodup`: the keys of all four option tables of all levels are pairwise
         distinct, i.e. every long name, short name, long alias and short alias is a key of at
         most one option or command option across the format and its bases;
  `args` `ArgsOK` of the arguments in listing order (base first): names unique, only the last
         one may be multi-valued, no required argument after an optional one.
* `Inv b := InvF b.raw` for a builder (`b.raw` = the builder's fields read as a format).
* `Op.wf` - the elements carried by a call are what the element constructors produce: long
  names / long aliases have at least two characters, short names / short aliases exactly one
  (C07's subject).  Needed because the tables are keyed by plain strings.
-/
namespace Clikit.Props.C06
open Clikit.ArgsFmt

/-- **Every call of the public builder API preserves the invariant, a rejected single addition
leaves the builder exactly as it was, and only the two documented exceptions are raised.** -/
theorem step_atomic_inv (b : Builder) (op : Op) (hwf : op.wf) (h : Inv b) :
    Inv (step b op).1 ∧
    (op.isSingle = true → (step b op).2.isSome → (step b op).1 = b) ∧
    (∀ e, (step b op).2 = some e → e = .cannotAddOption ∨ e = .cannotAddArgument) :=
  ⟨step_inv b op hwf h, step_atomic b op, step_err b op⟩

/-- `set_*` is "clear the own tables, then `add_*`" - the state after a failing element is the
cleared builder plus the elements before it (`multi_add_prefix`). -/
theorem set_is_clear_then_add (b : Builder) :
    (∀ os, step b (.setOptions os) = step b.clearOptions (.addOptions os)) ∧
    (∀ cs, step b (.setCommandOptions cs) = step b.clearCommandOptions (.addCommandOptions cs)) ∧
    (∀ as, step b (.setArguments as) = step b.clearArguments (.addArguments as)) ∧
    (∀ ns, step b (.setCommandNames ns) = step b.clearCommandNames (.addCommandNames ns)) :=
  ⟨fun _ => rfl, fun _ => rfl, fun _ => rfl, fun _ => rfl⟩

/-- What `add_options(*es)` etc. do: either every element was added, or the elements before
the first rejected one were added (and stay added) and its exception is raised. -/
theorem multi_add_prefix {ε : Type} (add : Builder → ε → Except Err Builder) (es : List ε) (b : Builder) :
    (∃ b', es.foldlM add b = .ok b' ∧ addAll add b es = (b', none)) ∨
    (∃ pre e post b' err, es = pre ++ e :: post ∧ pre.foldlM add b = .ok b' ∧ add b' e = .error err ∧
      addAll add b es = (b', some err)) :=
  addAll_spec add es b

/-- **Every builder reachable from a fresh builder on a well-formed base satisfies the
invariant** - whatever calls were made and whichever of them were rejected. -/
theorem reachable_inv (base : Option FormatRec) (hbase : InvBase base) (ops : List Op)
    (hwf : ∀ op ∈ ops, op.wf) : Inv (run (Builder.empty base) ops) :=
  run_inv ops _ hwf (empty_inv hbase)

/-- The built format is again a well-formed base (so the hypothesis `InvBase` of
`reachable_inv` is met by every format that was itself built). -/
theorem format_inv (b : Builder) (h : Inv b) : InvF (format b) := by
  rw [format_eq_raw b h]; exact h

/-- **The built format answers every public query exactly as the builder does.** -/
theorem format_agrees (b : Builder) (h : Inv b) (q : Query) : queryF (format b) q = queryB b q := by
  rw [format_eq_raw b h]; exact queryF_raw b q

/-- **`ArgsFormat(elements, base)` = the format of the builder obtained by adding the elements
one by one to `ArgsFormatBuilder(base)`**, including which exception is raised. -/
theorem ctor_same_rules (es : List Elem) (base : Option FormatRec) :
    ctor es base = match seqAdd (Builder.empty base) es with
      | (b, none) => .ok (format b)
      | (_, some e) => .error e := by
  unfold ctor
  rw [createBuilder_seqAdd]
  cases hs : seqAdd (Builder.empty base) es with
  | mk b r =>
    cases r with
    | some e => rfl
    | none =>
      have hb : b.base = base := by
        have := createBuilder_base es (Builder.empty base) b (by rw [createBuilder_seqAdd, hs])
        simpa [Builder.empty] using this
      simp only [bind, Except.bind, pure, Except.pure]
      cases base with
      | none => simp [format, hb, FormatRec.own]
      | some g => simp [format, hb, FormatRec.own]

/-- ... hence a format constructed directly from elements obeys the same rules. -/
theorem ctor_inv (es : List Elem) (base : Option FormatRec) (hbase : InvBase base)
    (hwf : ∀ e ∈ es, ∀ op, e.toOp? = some op → op.wf) (f : FormatRec) (h : ctor es base = .ok f) : InvF f := by
  rw [ctor_same_rules] at h
  have key : ∀ (es : List Elem) (b : Builder), (∀ e ∈ es, ∀ op, e.toOp? = some op → op.wf) → Inv b →
      Inv (seqAdd b es).1 := by
    intro es
    induction es with
    | nil => intro b _ hb; exact hb
    | cons e es ih =>
      intro b hw hb
      cases ho : e.toOp? with
      | none => simp only [seqAdd, ho]; exact ih b (fun x hx => hw x (by simp [hx])) hb
      | some op =>
        have hstep := step_inv b op (hw e (by simp) op ho) hb
        cases hr : step b op with
        | mk b' r =>
          rw [hr] at hstep
          cases r with
          | none => simp only [seqAdd, ho, hr]; exact ih b' (fun x hx => hw x (by simp [hx])) hstep
          | some err => simp only [seqAdd, ho, hr]; exact hstep
  have hi := key es (Builder.empty base) hwf (empty_inv hbase)
  cases hs : seqAdd (Builder.empty base) es with
  | mk b r =>
    rw [hs] at h hi
    cases r with
    | some e => cases h
    | none => injection h with h; subst h; exact format_inv b hi

/-! ### Non-vacuity: a concrete base and builder with colliding names -/

section Examples

def oFoo : Opt := { long := "foo".toList, short := some "f".toList, tag := 1 }
def oBar : Opt := { long := "bar".toList, short := some "f".toList, tag := 2 }
def oBaz : Opt := { long := "baz".toList, short := some "b".toList, tag := 4 }
def cAdd : CmdOpt := { long := "add".toList, short := some "a".toList, longAliases := ["baz".toList],
                       shortAliases := ["g".toList], tag := 12 }
def aReq : Arg := { name := "src".toList, required := true, optional := false, multi := false, tag := 21 }
def aOpt : Arg := { name := "dst".toList, required := false, optional := true, multi := false, tag := 22 }
def aMul : Arg := { name := "rest".toList, required := false, optional := true, multi := true, tag := 25 }

/-- base format: option `--foo` / `-f`, required argument `src` -/
def exBase : Except Err FormatRec := ctor [.opt oFoo, .arg aReq] none

/-- the base is accepted; on top of it `--bar` / `-f` (short name taken by the base), `--baz` / `-b`,
the command option `add` with alias `baz` (taken), `dst`, a second required argument (after an
optional one), the multi-valued `rest`, and one more argument after it -/
example : (match exBase with
    | .error _ => []
    | .ok base =>
      let ops := [Op.addOption oBar, .addOption oBaz, .addCommandOption cAdd, .addArgument aOpt,
                  .addArgument aReq, .addArgument { aReq with name := "x".toList }, .addArgument aMul,
                  .addArgument { aOpt with name := "y".toList }]
      (ops.foldl (fun (acc : Builder × List (Option Err)) op =>
          let r := step acc.1 op; (r.1, acc.2 ++ [r.2])) (Builder.empty (some base), [])).2)
    = [some .cannotAddOption, none, some .cannotAddOption, none,
       some .cannotAddArgument, some .cannotAddArgument, none, some .cannotAddArgument] := by decide

/-- the invariant's hypotheses are satisfiable and its conclusion is not trivial: the builder
above lists `src, dst, rest` base-first and finds `--foo` through the base -/
example : (match exBase with
    | .error _ => none
    | .ok base =>
      let b := run (Builder.empty (some base)) [.addOption oBaz, .addArgument aOpt, .addArgument aMul]
      some (dictKeys (b.getArguments true), (b.getOption "f".toList true).toOption.map (·.tag),
            b.hasOption "b".toList false, b.hasOption "f".toList false))
    = some (["src".toList, "dst".toList, "rest".toList], some 1, true, false) := by decide

example : Op.wf (.addCommandOption cAdd) := by
  simp [Op.wf, CmdOpt.wf, cAdd]

end Examples

end Clikit.Props.C06
