import Clikit.Lemmas.Builder
/-!
# C06 - an args format can never be built into an inconsistent state

Theorems about `Clikit.ArgsFmt` (`Model/Builder.lean`), the executable model of
`ArgsFormatBuilder` / `ArgsFormat`, over **all** histories of builder calls and **all** chains
of base formats.

Vocabulary (defined in `Lemmas/Builder.lean`):

* `InvF f` - the invariant of a format `f` with its bases:
  `ok`   every level's tables are exactly the tables of some element lists (keys are the
         elements' own names, the short-name tables index the same elements, the two flags
         summarise the arguments);
  `keys` `f.keyChain.Nodup`: the keys of all four option tables of all levels are pairwise
         distinct, i.e. every long name, short name, long alias and short alias is a key of at
         most one option or command option across the format and its bases;
  `args` `ArgsOK` of the arguments in listing order (base first): names unique, only the last
         one may be multi-valued, no required argument after an optional one.
* `Inv b := InvF b.raw` for a builder (`b.raw` = the builder's fields read as a format).
* `Op.wf` - the elements carried by a call are what the element constructors produce: long
  names / long aliases have at least two characters, short names / short aliases exactly one
  (C07's subject).  Needed because the tables are keyed by plain strings.
-/
namespace Clikit.Props.C06
open Clikit.ArgsFmt

/-- **Every call of the public builder API preserves the invariant, a rejected single addition
leaves the builder exactly as it was, and only the two documented exceptions are raised.** -/
theorem step_atomic_inv (b : Builder) (op : Op) (hwf : op.wf) (h : Inv b) :
    Inv (step b op).1 ∧
    (op.isSingle = true → (step b op).2.isSome → (step b op).1 = b) ∧
    (∀ e, (step b op).2 = some e → e = .cannotAddOption ∨ e = .cannotAddArgument) :=
  ⟨step_inv b op hwf h, step_atomic b op, step_err b op⟩

/-- `set_*` is "clear the own tables, then `add_*`" - the state after a failing element is the
cleared builder plus the elements before it (`multi_add_prefix`). -/
theorem set_is_clear_then_add (b : Builder) :
    (∀ os, step b (.setOptions os) = step b.clearOptions (.addOptions os)) ∧
    (∀ cs, step b (.setCommandOptions cs) = step b.clearCommandOptions (.addCommandOptions cs)) ∧
    (∀ as, step b (.setArguments as) = step b.clearArguments (.addArguments as)) ∧
    (∀ ns, step b (.setCommandNames ns) = step b.clearCommandNames (.addCommandNames ns)) :=
  ⟨fun _ => rfl, fun _ => rfl, fun _ => rfl, fun _ => rfl⟩

/-- What `add_options(*es)` etc. do: either every element was added, or the elements before
the first rejected one were added (and stay added) and its exception is raised. -/
theorem multi_add_prefix {ε : Type} (add : Builder → ε → Except Err Builder) (es : List ε) (b : Builder) :
    (∃ b', es.foldlM add b = .ok b' ∧ addAll add b es = (b', none)) ∨
    (∃ pre e post b' err, es = pre ++ e :: post ∧ pre.foldlM add b = .ok b' ∧ add b' e = .error err ∧
      addAll add b es = (b', some err)) :=
  addAll_spec add es b

/-- **Every builder reachable from a fresh builder on a well-formed base satisfies the
invariant** - whatever calls were made and whichever of them were rejected. -/
theorem reachable_inv (base : Option FormatRec) (hbase : InvBase base) (ops : List Op)
    (hwf : ∀ op ∈ ops, op.wf) : Inv (run (Builder.empty base) ops) :=
  run_inv ops _ hwf (empty_inv hbase)

/-- The built format is again a well-formed base (so the hypothesis `InvBase` of
`reachable_inv` is met by every format that was itself built). -/
theorem format_inv (b : Builder) (h : Inv b) : InvF (format b) := by
  rw [format_eq_raw b h]; exact h

/-- **The built format answers every public query exactly as the builder does.** -/
theorem format_agrees (b : Builder) (h : Inv b) (q : Query) : queryF (format b) q = queryB b q := by
  rw [format_eq_raw b h]; exact queryF_raw b q

/-- **`ArgsFormat(elements, base)` = the format of the builder obtained by adding the elements
one by one to `ArgsFormatBuilder(base)`**, including which exception is raised. -/
theorem ctor_same_rules (es : List Elem) (base : Option FormatRec) :
    ctor es base = match seqAdd (Builder.empty base) es with
      | (b, none) => .ok (format b)
      | (_, some e) => .error e := by
  unfold ctor
  rw [createBuilder_seqAdd]
  cases hs : seqAdd (Builder.empty base) es with
  | mk b r =>
    cases r with
    | some e => rfl
    | none =>
      have hb : b.base = base := by
        have := createBuilder_base es (Builder.empty base) b (by rw [createBuilder_seqAdd, hs])
        simpa [Builder.empty] using this
      simp only [bind, Except.bind, pure, Except.pure]
      cases base with
      | none => simp [format, hb, FormatRec.own]
      | some g => simp [format, hb, FormatRec.own]

/-- ... hence a format constructed directly from elements obeys the same rules. -/
theorem ctor_inv (es : List Elem) (base : Option FormatRec) (hbase : InvBase base)
    (hwf : ∀ e ∈ es, ∀ op, e.toOp? = some op → op.wf) (f : FormatRec) (h : ctor es base = .ok f) : InvF f := by
  rw [ctor_same_rules] at h
  have key : ∀ (es : List Elem) (b : Builder), (∀ e ∈ es, ∀ op, e.toOp? = some op → op.wf) → Inv b →
      Inv (seqAdd b es).1 := by
    intro es
    induction es with
    | nil => intro b _ hb; exact hb
    | cons e es ih =>
      intro b hw hb
      cases ho : e.toOp? with
      | none => simp only [seqAdd, ho]; exact ih b (fun x hx => hw x (by simp [hx])) hb
      | some op =>
        have hstep := step_inv b op (hw e (by simp) op ho) hb
        cases hr : step b op with
        | mk b' r =>
          rw [hr] at hstep
          cases r with
          | none => simp only [seqAdd, ho, hr]; exact ih b' (fun x hx => hw x (by simp [hx])) hstep
          | some err => simp only [seqAdd, ho, hr]; exact hstep
  have hi := key es (Builder.empty base) hwf (empty_inv hbase)
  cases hs : seqAdd (Builder.empty base) es with
  | mk b r =>
    rw [hs] at h hi
    cases r with
    | some e => cases h
    | none => injection h with h; subst h; exact format_inv b hi

/-- **Every predicate and lookup equals its declarative meaning over the listed elements**
(`QueriesMatch`, `Lemmas/Builder.lean`): with `os`, `cs`, `as`, `ns` the listings
`get_options`, `get_command_options`, `get_arguments`, `get_command_names` for the same
`include_base`,
`has_options ↔ os ≠ []`, `has_option n ↔ ∃ o ∈ os, n ∈ o.names`, `get_option n` = the first
(by `names_identify_at_most_one`: the only) `o ∈ os` with `n ∈ o.names`, else
`NoSuchOptionException`; the same for command options; `has_argument n ↔ ∃ a ∈ as, a.name = n`,
`has_argument i ↔ i < |as|`, `get_argument n / i` = that element, else `NoSuchArgumentException`;
`has_required / optional / multi_valued_argument ↔ ∃ a ∈ as, a.required / optional / multi`;
dictionary keys are the long names / argument names; `has_command_names ↔ ns ≠ []`.
Positions are natural numbers here; Python's negative (from-the-end) positions are modelled
(`pyIndex`) and compared by the correspondence run but have no declarative reading. -/
theorem queries_match_elements (f : FormatRec) (h : InvF f) (ib : Bool) : QueriesMatch f ib := by
  cases ib
  · exact queriesMatch_false f h
  · exact queriesMatch_true f h

/-- ... the same for a builder (its queries are those of its raw copy) and for the format built
from it. -/
theorem queries_match_elements_builder (b : Builder) (h : Inv b) (ib : Bool) :
    QueriesMatch b.raw ib ∧ QueriesMatch (format b) ib ∧ ∀ q, queryB b q = queryF b.raw q :=
  ⟨queries_match_elements _ h ib, queries_match_elements _ (format_inv b h) ib, fun q => (queryF_raw b q).symm⟩

/-- **Every long name, short name and alias identifies at most one option** across the format
and its bases - the `keys` part of the invariant read over the listed elements. -/
theorem names_identify_at_most_one (f : FormatRec) (h : InvF f) (n : Str) :
    (∀ o1 ∈ dictVals (f.getOptions true), ∀ o2 ∈ dictVals (f.getOptions true),
        n ∈ o1.names → n ∈ o2.names → o1 = o2) ∧
    (∀ c1 ∈ f.getCommandOptions true, ∀ c2 ∈ f.getCommandOptions true,
        n ∈ c1.names → n ∈ c2.names → c1 = c2) ∧
    (∀ o ∈ dictVals (f.getOptions true), ∀ c ∈ f.getCommandOptions true, n ∈ o.names → n ∉ c.names) :=
  names_unique f h n

/-- **At most one multi-valued argument and it is last, no required argument after an optional
one, unique names** - the `args` part of the invariant read over `get_arguments()`. -/
theorem argument_rules (f : FormatRec) (h : InvF f) : ArgsOK (dictVals (f.getArguments true)) := by
  rw [f.getArguments_eq h]; exact h.args

/-- **Listing order**: options and command options are listed own-first, arguments and command
names base-first, and nothing of the base is dropped or duplicated (the flattened view C01
uses). -/
theorem listing_order (g : FormatRec) (l : Level) (h : InvF (.mk (some g) l)) :
    (FormatRec.mk (some g) l).getOptions true = l.opts ++ g.getOptions true ∧
    (FormatRec.mk (some g) l).getCommandOptions true = dictVals l.copts ++ g.getCommandOptions true ∧
    (FormatRec.mk (some g) l).getArguments true = g.getArguments true ++ l.args ∧
    (FormatRec.mk (some g) l).getCommandNames true = g.getCommandNames true ++ l.names :=
  listings_compose g l h

/-- Lookups by name and by natural position raise the documented exceptions only (no
`KeyError` / `IndexError` escapes). -/
theorem lookups_raise_documented_only (f : FormatRec) (h : InvF f) (ib : Bool) (t : String) :
    (∀ n, f.getOption n ib ≠ .error (.other t)) ∧ (∀ n, f.getCommandOption n ib ≠ .error (.other t)) ∧
    (∀ n, f.getArgument n ib ≠ .error (.other t)) ∧ (∀ i : Nat, f.getArgumentAt (i : Int) ib ≠ .error (.other t)) := by
  have q := queries_match_elements f h ib
  have key : ∀ {α : Type} (r : Option α) (e : Err), (∀ t, e ≠ .other t) → lookup r e ≠ .error (.other t) := by
    intro α r e he
    cases r with
    | none => intro hh; injection hh with hh; exact he t hh
    | some a => intro hh; cases hh
  refine ⟨?_, ?_, ?_, ?_⟩
  · intro n; rw [q.getOption]; exact key _ _ (by intro t h; cases h)
  · intro n; rw [q.getCommandOption]; exact key _ _ (by intro t h; cases h)
  · intro n; rw [q.getArgument]; exact key _ _ (by intro t h; cases h)
  · intro i; rw [q.getArgumentAt]; exact key _ _ (by intro t h; cases h)

/-! ### The hypotheses, decided

`Op.wf` / the per-element hypothesis of `ctor_inv` are about the REAL element objects (what the
element constructors produced), `InvBase` is about the REAL base format.  The first two are decided
by `Op.wfB` / `Elem.wfB` (`Model/Builder.lean`; the driver answers them on the names read from the
real objects of every case, entry `c06.wf`); the third is discharged for every base that was itself
built with `ArgsFormat(elements, base)` from such elements (`built_bases_inv`) - there is no other
way to obtain an `ArgsFormat`. -/

/-- the executable deciders decide exactly the well-formedness hypotheses -/
theorem wf_decides :
    (∀ op : Op, op.wfB = true ↔ op.wf) ∧
    (∀ e : Elem, e.wfB = true ↔ ∀ op, e.toOp? = some op → op.wf) :=
  ⟨Op.wfB_iff, Elem.wfB_iff⟩

/-- **Every chain of base formats built with `ArgsFormat(elements, previous)` from well-formed
elements is a well-formed base** (on top of any well-formed base, in particular on none). -/
theorem built_bases_inv (levels : List (List Elem)) (base : Option FormatRec) (hbase : InvBase base)
    (hwf : ∀ es ∈ levels, ∀ e ∈ es, e.wfB = true) (base' : Option FormatRec)
    (h : ctorChain levels base = .ok base') : InvBase base' := by
  induction levels generalizing base with
  | nil => simp only [ctorChain] at h; injection h with h; subst h; exact hbase
  | cons es rest ih =>
    simp only [ctorChain] at h
    cases hc : ctor es base with
    | error e => rw [hc] at h; cases h
    | ok f =>
      rw [hc] at h
      have hf : InvF f :=
        ctor_inv es base hbase (fun e he => (Elem.wfB_iff e).1 (hwf es (by simp) e he)) f hc
      exact ih (some f) hf (fun es' h' => hwf es' (by simp [h'])) h

/-- `reachable_inv`, `format_inv`, `format_agrees`, `queries_match_elements` and `argument_rules`
with every hypothesis decided: for base levels and builder calls whose elements pass the deciders,
the builder after ANY history of calls on the built base satisfies the invariant, and so does the
format built from it, which answers every query as the builder does and as the listed elements
imply. -/
theorem reachable_inv_decided (levels : List (List Elem)) (ops : List Op)
    (hl : levels.all (fun es => es.all Elem.wfB) = true) (ho : ops.all Op.wfB = true)
    (base : Option FormatRec) (hb : ctorChain levels none = .ok base) :
    let b := run (Builder.empty base) ops
    Inv b ∧ InvF (format b) ∧ (∀ q, queryF (format b) q = queryB b q) ∧
    (∀ ib, QueriesMatch (format b) ib) ∧ ArgsOK (dictVals ((format b).getArguments true)) := by
  have hbase : InvBase base :=
    built_bases_inv levels none trivial
      (fun es hes e he => List.all_eq_true.1 (List.all_eq_true.1 hl es hes) e he) base hb
  have hi : Inv (run (Builder.empty base) ops) :=
    reachable_inv base hbase ops (fun op hop => (Op.wfB_iff op).1 (List.all_eq_true.1 ho op hop))
  exact ⟨hi, format_inv _ hi, format_agrees _ hi,
    fun ib => queries_match_elements _ (format_inv _ hi) ib, argument_rules _ (format_inv _ hi)⟩

/-- **Every format that can exist satisfies the invariant** (`Built`, `Lemmas/Builder.lean`: the
closure of `None` under `ArgsFormat(elements, base)` and `ArgsFormatBuilder(base)...format` with
elements that pass the deciders) - so `InvBase base` / `InvF f` is never an assumption about a
real format: `CommandConfig.build_args_format(parent_format)` stacks, element-list constructors
and builders can be mixed freely. -/
theorem built_inv (base : Option FormatRec) (h : Built base) : InvBase base := by
  induction h with
  | none => trivial
  | ctor _ hes hc ih =>
    exact ctor_inv _ _ ih (fun e he => (Elem.wfB_iff e).1 (List.all_eq_true.1 hes e he)) _ hc
  | format _ hops ih =>
    exact format_inv _ (reachable_inv _ ih _ (fun op hop => (Op.wfB_iff op).1 (List.all_eq_true.1 hops op hop)))

/-- every consequence of the invariant, for every format that can exist -/
theorem built_consistent (f : FormatRec) (h : Built (some f)) :
    InvF f ∧ (∀ ib, QueriesMatch f ib) ∧ ArgsOK (dictVals (f.getArguments true)) ∧
    (∀ n, (∀ o1 ∈ dictVals (f.getOptions true), ∀ o2 ∈ dictVals (f.getOptions true),
        n ∈ o1.names → n ∈ o2.names → o1 = o2) ∧
      (∀ c1 ∈ f.getCommandOptions true, ∀ c2 ∈ f.getCommandOptions true,
        n ∈ c1.names → n ∈ c2.names → c1 = c2) ∧
      (∀ o ∈ dictVals (f.getOptions true), ∀ c ∈ f.getCommandOptions true, n ∈ o.names → n ∉ c.names)) :=
  have hi : InvF f := built_inv (some f) h
  ⟨hi, queries_match_elements f hi, argument_rules f hi, names_identify_at_most_one f hi⟩

/-- `ctor_inv` with every hypothesis decided -/
theorem ctor_inv_decided (levels : List (List Elem)) (es : List Elem)
    (hl : levels.all (fun es => es.all Elem.wfB) = true) (he : es.all Elem.wfB = true)
    (base : Option FormatRec) (hb : ctorChain levels none = .ok base)
    (f : FormatRec) (h : ctor es base = .ok f) : InvF f :=
  built_bases_inv (levels ++ [es]) none trivial
    (by
      intro es' hes' e he'
      rcases List.mem_append.1 hes' with h1 | h1
      · exact List.all_eq_true.1 (List.all_eq_true.1 hl es' h1) e he'
      · rw [List.mem_singleton.1 h1] at he'; exact List.all_eq_true.1 he e he')
    (some f)
    (by
      have key : ∀ (ls : List (List Elem)) (b0 b1 : Option FormatRec), ctorChain ls b0 = .ok b1 →
          ctorChain (ls ++ [es]) b0 = (match ctor es b1 with | .ok f => .ok (some f) | .error e => .error e) := by
        intro ls
        induction ls with
        | nil => intro b0 b1 h0; simp only [ctorChain] at h0; injection h0 with h0; subst h0; rfl
        | cons l ls ih =>
          intro b0 b1 h0
          simp only [List.cons_append, ctorChain] at h0 ⊢
          cases hc : ctor l b0 with
          | error e => rw [hc] at h0; cases h0
          | ok g => rw [hc] at h0; exact ih (some g) b1 h0
      rw [key levels none base hb, h])

/-! ### Non-vacuity: a concrete base and builder with colliding names -/

section Examples

def oFoo : Opt := { long := "foo".toList, short := some "f".toList, tag := 1 }
def oBar : Opt := { long := "bar".toList, short := some "f".toList, tag := 2 }
def oBaz : Opt := { long := "baz".toList, short := some "b".toList, tag := 4 }
def cAdd : CmdOpt := { long := "add".toList, short := some "a".toList, longAliases := ["baz".toList],
                       shortAliases := ["g".toList], tag := 12 }
def aReq : Arg := { name := "src".toList, required := true, optional := false, multi := false, tag := 21 }
def aOpt : Arg := { name := "dst".toList, required := false, optional := true, multi := false, tag := 22 }
def aMul : Arg := { name := "rest".toList, required := false, optional := true, multi := true, tag := 25 }

/-- base format: option `--foo` / `-f`, required argument `src` -/
def exBase : Except Err FormatRec := ctor [.opt oFoo, .arg aReq] none

/-- the base is accepted; on top of it `--bar` / `-f` (short name taken by the base), `--baz` / `-b`,
the command option `add` with alias `baz` (taken), `dst`, a second required argument (after an
optional one), the multi-valued `rest`, and one more argument after it -/
example : (match exBase with
    | .error _ => []
    | .ok base =>
      let ops := [Op.addOption oBar, .addOption oBaz, .addCommandOption cAdd, .addArgument aOpt,
                  .addArgument aReq, .addArgument { aReq with name := "x".toList }, .addArgument aMul,
                  .addArgument { aOpt with name := "y".toList }]
      (ops.foldl (fun (acc : Builder × List (Option Err)) op =>
          let r := step acc.1 op; (r.1, acc.2 ++ [r.2])) (Builder.empty (some base), [])).2)
    = [some .cannotAddOption, none, some .cannotAddOption, none,
       some .cannotAddArgument, some .cannotAddArgument, none, some .cannotAddArgument] := by decide

/-- the invariant's hypotheses are satisfiable and its conclusion is not trivial: the builder
above lists `src, dst, rest` base-first and finds `--foo` through the base -/
example : (match exBase with
    | .error _ => none
    | .ok base =>
      let b := run (Builder.empty (some base)) [.addOption oBaz, .addArgument aOpt, .addArgument aMul]
      some (dictKeys (b.getArguments true), (b.getOption "f".toList true).toOption.map (·.tag),
            b.hasOption "b".toList false, b.hasOption "f".toList false))
    = some (["src".toList, "dst".toList, "rest".toList], some 1, true, false) := by decide

/-- Python's from-the-end indexing is part of the model: on an empty format `has_argument(-1)` is
true and `get_argument(-1)` raises `IndexError` (both classes behave the same). -/
example : (Builder.empty none).hasArgumentAt (-1) true = true ∧
    (Builder.empty none).getArgumentAt (-1) true = .error (.other "IndexError") := ⟨by decide, rfl⟩

example : Op.wf (.addCommandOption cAdd) := by
  simp [Op.wf, CmdOpt.wf, cAdd]

/-! the decided forms: ALL hypotheses are discharged by evaluation on a two-level base chain with
colliding names (the second level re-uses `-f`, rejected below) -/

def exLevels : List (List Elem) := [[.opt oFoo, .arg aReq], [.copt cAdd, .name ⟨"cmd".toList, [], 31⟩]]
def exOps : List Op :=
  [.addOption oBar, .setOptions [oBaz, oBar], .addArgument aOpt, .addCommandOptions [cAdd], .addArgument aMul]

example : ∃ base, ctorChain exLevels none = .ok base ∧
    let b := run (Builder.empty base) exOps
    Inv b ∧ InvF (format b) ∧ (∀ q, queryF (format b) q = queryB b q) ∧
    (∀ ib, QueriesMatch (format b) ib) ∧ ArgsOK (dictVals ((format b).getArguments true)) :=
  ⟨_, rfl, reachable_inv_decided exLevels exOps (by decide) (by decide) _ rfl⟩

/-- ... and the history above is not trivial: three of its five calls are rejected -/
example : (match ctorChain exLevels none with
    | .error _ => []
    | .ok base =>
      (exOps.foldl (fun (acc : Builder × List (Option Err)) op =>
          let r := step acc.1 op; (r.1, acc.2 ++ [r.2])) (Builder.empty base, [])).2)
    = [some .cannotAddOption, some .cannotAddOption, none, some .cannotAddOption, none] := by decide

example : ∃ f, ctor [.opt oBaz, .foreign, .arg aOpt] none = .ok f ∧ InvF f :=
  ⟨_, rfl, ctor_inv_decided [] [.opt oBaz, .foreign, .arg aOpt] (by decide) (by decide) none rfl _ rfl⟩

/-- `step_atomic_inv` on that builder: `--bar` / `-f` is rejected (the base owns `-f`) and the
builder is exactly what it was -/
example : ∃ base, ctorChain exLevels none = .ok base ∧
    (step (run (Builder.empty base) exOps) (.addOption oBar)).1 = run (Builder.empty base) exOps :=
  ⟨_, rfl, by
    have h := reachable_inv_decided exLevels exOps (by decide) (by decide) _ rfl
    have := step_atomic_inv _ (.addOption oBar) (by simp [Op.wf, Opt.wf, oBar]) h.1
    exact this.2.1 rfl (by decide)⟩

/-- a `CommandConfig.build_args_format`-like stack: a built format on top of a constructed one -/
example : ∃ f g, ctor [.opt oFoo, .arg aReq] none = .ok g ∧
    f = format (run (Builder.empty (some g)) [.addCommandName ⟨"cmd".toList, [], 31⟩, .addOptions [oBaz, oBar],
      .addArguments [aOpt]]) ∧ InvF f ∧ ArgsOK (dictVals (f.getArguments true)) := by
  refine ⟨_, _, rfl, rfl, ?_⟩
  have h := built_consistent _ (Built.format (ops := [.addCommandName ⟨"cmd".toList, [], 31⟩,
    .addOptions [oBaz, oBar], .addArguments [aOpt]])
    (Built.ctor (es := [.opt oFoo, .arg aReq]) Built.none (by decide) rfl) (by decide))
  exact ⟨h.1, h.2.2.1⟩

/-- the deciders reject what the constructors reject: a one-letter long name, a two-letter short
name, a one-letter long alias -/
example : Opt.wfB { long := "f".toList, short := none, tag := 0 } = false ∧
    Opt.wfB { long := "foo".toList, short := some "fo".toList, tag := 0 } = false ∧
    CmdOpt.wfB { cAdd with longAliases := ["b".toList] } = false ∧ CmdOpt.wfB cAdd = true := by decide

/-- `step_atomic_inv`, `listing_order`, `names_identify_at_most_one`, `lookups_raise_documented_only`
applied to a concrete built format (hypotheses discharged through `ctor_inv_decided`) -/
example : ∃ g l, ctor [.opt oBaz, .arg aOpt] (some g) = .ok (.mk (some g) l) ∧
    (FormatRec.mk (some g) l).getArguments true = g.getArguments true ++ l.args := by
  refine ⟨.mk none { opts := [("foo".toList, oFoo)], optsS := [("f".toList, oFoo)],
                      args := [("src".toList, aReq)] }, _, rfl, ?_⟩
  have hg : ctorChain [[.opt oFoo, .arg aReq]] none = .ok (some (.mk none
      { opts := [("foo".toList, oFoo)], optsS := [("f".toList, oFoo)], args := [("src".toList, aReq)] })) := rfl
  exact (listing_order _ _ (ctor_inv_decided [[.opt oFoo, .arg aReq]] [.opt oBaz, .arg aOpt] (by decide) (by decide)
    _ hg _ rfl)).2.2.1


end Examples

end Clikit.Props.C06
