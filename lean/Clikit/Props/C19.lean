import Clikit.Lemmas.Spinner
import Clikit.Model.SpinnerBuilt
/-!
# C19 - the automatic progress indicator is well-behaved under every interleaving

Theorems about `Clikit.Spinner` (Model/Spinner.lean): the two-thread small-step semantics of
`ProgressIndicator.auto()` and `_spin`, and the thread-free manual mode.  Every theorem of the
automatic mode quantifies over **all schedules** (any list of "main steps / spinner steps / the clock
advances by dt"), all body programs and all configurations; nothing is bounded.
-/
namespace Clikit.Props.C19
open Clikit Clikit.Spinner

/-- **Tie to the source.**  What the hand-written model hard-codes about `progress_indicator.py`, against the
facts regenerated from the current source on every run (`tools/genparts/c19.py`): `auto()` catches
`BaseException` (repair of D32) and its handler writes the newline, sets the event, joins, re-raises; the normal
exit is `finish(end, reset_indicator=True)`; `finish` sets the event and joins before it changes the message,
resets, draws the frame, writes the newline and clears `_started`; a frame is ONE stream write; the throttle
comparison is strict. -/
theorem source_shape :
    Gen.C19.caught = ["BaseException"] ∧
    Gen.C19.excPath = ["write_line", "set", "join", "raise"] ∧
    Gen.C19.exitResets = true ∧
    Gen.C19.finishStop = ["set", "join"] ∧
    Gen.C19.finishTail = ["message", "reset", "_display", "write_line", "stopped"] ∧
    Gen.C19.ansiWritesPerFrame = 1 ∧
    Gen.C19.throttleStrict = true := by decide

/-- Messages, indicator values and the literal parts of the format contain no character the terminal
interprets (CR, LF, ESC). -/
def CleanCfg (cfg : Cfg) : Prop :=
  (∀ m ∈ msgs cfg, clean m = true) ∧ (∀ v ∈ cfg.values, clean v = true) ∧
  (∀ s, Seg.lit s ∈ cfg.fmt → clean s = true)

/-- the executable decider of `CleanCfg` -/
theorem cleanCfgB_iff (cfg : Cfg) : cleanCfgB cfg = true ↔ CleanCfg cfg := by
  have hfmt : cfg.fmt.all cleanSegB = true ↔ ∀ s, Seg.lit s ∈ cfg.fmt → clean s = true := by
    rw [List.all_eq_true]
    constructor
    · intro h s hs
      exact h _ hs
    · intro h x hx
      cases x with
      | lit s => exact h s hx
      | indicator => rfl
      | message => rfl
  have hc : ∀ l : List Str, l.all cleanB = true ↔ ∀ m ∈ l, clean m = true := by
    intro l
    rw [List.all_eq_true]
    exact Iff.rfl
  unfold cleanCfgB CleanCfg
  rw [Bool.and_eq_true, Bool.and_eq_true, hfmt, hc, hc, and_assoc]

/-- **The hypotheses are checked on the real configurations.**  The driver evaluates `cleanCfgB` and
`hasValuesB` on the configuration of every correspondence case - the one the REAL `ProgressIndicator` was
constructed from and run with - (answer key `wf` of `c19.run` / `c19.manual`, compared with `true`); they
decide exactly the two hypotheses `CleanCfg cfg` and `0 < cfg.values.length` of the theorems below. -/
theorem wf_decides (cfg : Cfg) :
    (cleanCfgB cfg = true ∧ hasValuesB cfg = true) ↔ (CleanCfg cfg ∧ 0 < cfg.values.length) := by
  rw [cleanCfgB_iff, hasValuesB, decide_eq_true_eq]

theorem frameText_clean {cfg : Cfg} (hc : CleanCfg cfg) (t : Str) (h : FrameText cfg t) : clean t = true := by
  obtain ⟨i, m, hm, rfl⟩ := h
  exact clean_render _ _ _ (clean_value cfg i hc.2.1) (hc.1 m hm) hc.2.2

theorem frameText_isFrame {cfg : Cfg} (hv : 0 < cfg.values.length) (t : Str) (h : FrameText cfg t) :
    isFrame cfg t = true := by
  obtain ⟨i, m, hm, rfl⟩ := h
  simp only [isFrame, List.any_eq_true, beq_iff_eq]
  exact ⟨m, hm, value cfg i, value_mem cfg i hv, rfl⟩

/-- **No mixture.**  For every schedule and every prefix of the write trace, the line the terminal shows is
blank or exactly one frame (an indicator value and one of the run's messages in the format), and so is every
line completed so far.  Holds because a frame is a single write that begins with CR + erase-line. -/
theorem no_mixture (cfg : Cfg) (hc : CleanCfg cfg) (hv : 0 < cfg.values.length) (s : Schedule)
    (p : List (Tid × Str)) (hp : p <+: trace cfg s) :
    ((termOf (p.map (·.2))).line = [] ∨ isFrame cfg (termOf (p.map (·.2))).line = true) ∧
    (∀ l ∈ (termOf (p.map (·.2))).lines, l = [] ∨ isFrame cfg l = true) := by
  have hout := (reach_inv cfg s).2.out
  have hu : ∀ w ∈ p.map (·.2), UnitW cfg w := by
    intro w hw
    simp only [List.mem_map] at hw
    obtain ⟨x, hx, rfl⟩ := hw
    obtain ⟨t, ht⟩ := hp
    have : x ∈ (run cfg s init).out := by
      have : x ∈ trace cfg s := by rw [← ht]; simp [hx]
      simpa [trace, St.trace] using this
    exact hout x this
  have g := termOf_units (ansi := cfg.ansi) (F := FrameText cfg) (frameText_clean hc) _ hu
  refine ⟨?_, ?_⟩
  · rcases g.line with h | h
    · exact .inl h.1
    · exact .inr (frameText_isFrame hv _ h.1)
  · intro l hl
    rcases g.lines l hl with h | h
    · exact .inl h
    · exact .inr (frameText_isFrame hv _ h)

/-- Every write of the automatic mode is the newline or one whole frame: an indicator value, then one of the
messages of the run, in the format. -/
theorem frame_shape_auto (cfg : Cfg) (hv : 0 < cfg.values.length) (s : Schedule) :
    ∀ w ∈ trace cfg s, w.2 = nl ∨
      ∃ v ∈ cfg.values, ∃ m ∈ msgs cfg, w.2 = frameBytes cfg (render cfg.fmt v m) := by
  intro w hw
  have hout := (reach_inv cfg s).2.out w (by simpa [trace, St.trace] using hw)
  generalize w.2 = b at hout ⊢
  cases hout with
  | nl => exact .inl rfl
  | frame text hf =>
    obtain ⟨i, m, hm, rfl⟩ := hf
    exact .inr ⟨value cfg i, value_mem cfg i hv, m, hm, rfl⟩

/-- `no_mixture` with its two hypotheses replaced by the deciders the correspondence evaluates on every case. -/
theorem no_mixture_decided (cfg : Cfg) (hw : cleanCfgB cfg = true ∧ hasValuesB cfg = true) (s : Schedule)
    (p : List (Tid × Str)) (hp : p <+: trace cfg s) :
    ((termOf (p.map (·.2))).line = [] ∨ isFrame cfg (termOf (p.map (·.2))).line = true) ∧
    (∀ l ∈ (termOf (p.map (·.2))).lines, l = [] ∨ isFrame cfg l = true) :=
  no_mixture cfg ((wf_decides cfg).mp hw).1 ((wf_decides cfg).mp hw).2 s p hp

/-- `frame_shape_auto` with the decider. -/
theorem frame_shape_auto_decided (cfg : Cfg) (hw : hasValuesB cfg = true) (s : Schedule) :
    ∀ w ∈ trace cfg s, w.2 = nl ∨
      ∃ v ∈ cfg.values, ∃ m ∈ msgs cfg, w.2 = frameBytes cfg (render cfg.fmt v m) :=
  frame_shape_auto cfg (by simpa [hasValuesB] using hw) s

/-- **Always joined.**  Under every schedule, however main has left the block - normally, by an `Exception`,
a `KeyboardInterrupt`, `SystemExit` or any other `BaseException` raised in the body - the spinner's pc is `done`:
it was stopped and joined.  (No other outcome is reachable: the protocol itself never fails, and no exception
passes `auto()` unhandled.) -/
theorem always_joined (cfg : Cfg) (s : Schedule) (o : Outcome) (h : (run cfg s init).main = .exited o) :
    (run cfg s init).spin = .done := by
  have hi := (reach_inv cfg s).1
  cases o with
  | normal => exact hi.joined (by rw [h]; rfl)
  | raised k => exact hi.joined (by rw [h]; rfl)
  | error e => exact absurd h (hi.noErr e)
  | escaped k =>
    have := reach_notEscaped cfg s
    rw [h] at this
    simp [notEscaped] at this

/-- ... and every exception kind a body can raise is handled and re-raised as such. -/
theorem every_exit_is_handled (cfg : Cfg) (s : Schedule) (o : Outcome) (h : (run cfg s init).main = .exited o) :
    o = .normal ∨ ∃ k, o = .raised k := by
  cases o with
  | normal => exact .inl rfl
  | raised k => exact .inr ⟨k, rfl⟩
  | error e => exact absurd h ((reach_inv cfg s).1.noErr e)
  | escaped k =>
    have := reach_notEscaped cfg s
    rw [h] at this
    simp [notEscaped] at this

/-- The same for every variant of the code (also the pre-fix ones): exits that went through `finish()` or
through the `except` clause have stopped and joined the spinner. -/
theorem always_joined_handled (old : Proto) (cfg : Cfg) (s : Schedule) (o : Outcome)
    (h : (runG old cfg s init).main = .exited o)
    (ho : o = .normal ∨ ∃ k, o = .raised k) : (runG old cfg s init).spin = .done := by
  have hi := reach_invG old cfg s
  apply hi.joined
  rw [h]
  rcases ho with rfl | ⟨k, rfl⟩ <;> rfl

/-- In every variant: an exception that passes `auto()` unhandled leaves the block with the spinner started,
not stopped, and the event not set. -/
theorem escaped_leaves_spinner_running (old : Proto) (cfg : Cfg) (s : Schedule) (k : ExcKind)
    (h : (runG old cfg s init).main = .exited (.escaped k)) :
    (runG old cfg s init).spin ≠ .done ∧ (runG old cfg s init).spin ≠ .notStarted ∧
    (runG old cfg s init).flag = false := by
  have hi := reach_invG old cfg s
  have hf : (runG old cfg s init).flag = false := by
    cases hfl : (runG old cfg s init).flag with
    | false => rfl
    | true =>
      have := hi.flagIff.mp hfl
      rw [h] at this
      simp [afterSet] at this
  refine ⟨?_, ?_, hf⟩
  · intro hd
    have := hi.doneFlag hd
    rw [hf] at this; cases this
  · intro hn
    have := hi.spawned.mpr hn
    rw [h] at this
    simp [beforeSpawn] at this

/-- No failure of the protocol itself, under every schedule: the spinner thread never dies of
`RuntimeError` (`advance` on an indicator that is not started), `start`/`finish` never raise, `join` is never
called on a thread that was not started. -/
theorem no_foreign_error (old : Proto) (cfg : Cfg) (s : Schedule) :
    (runG old cfg s init).crashed = false ∧ ∀ e, (runG old cfg s init).main ≠ .exited (.error e) :=
  ⟨(reach_invG old cfg s).noCrash, (reach_invG old cfg s).noErr⟩

/-- **`join` cannot block for ever (1).**  From every reachable configuration in which the event is set, once
the schedule has given the spinner 4 enabled steps - whatever main and the clock do in between - the spinner
is `done`. -/
theorem spinner_stops_within (cfg : Cfg) (s s' : Schedule) (hf : (run cfg s init).flag = true)
    (h4 : 4 ≤ effSpin .now cfg s' (run cfg s init)) : (run cfg s' (run cfg s init)).spin = .done := by
  have hi := (reach_inv cfg s).1
  apply spin_done_within .now cfg s' _ hf
  · intro hn
    have h1 := hi.spawned.mpr hn
    have h2 := afterSet_not_beforeSpawn _ (hi.flagIff.mp hf)
    rw [h1] at h2; cases h2
  · exact Nat.le_trans (rank_le_four cfg s) h4

/-- **`join` cannot block for ever (1, sharp form).**  The same with the exact budget: `rank` of the spinner's
program counter (1 at the `is_set` test, 2 asleep or at the start, 4 before a frame write) instead of the
uniform 4.  `spinner_stops_within` follows from it by `rank_le_four`; in the code as it is no reachable
configuration with the event set lets the spinner take 4 enabled steps (it is `done` after at most 3), so
the hypothesis `4 ≤ effSpin …` of `spinner_stops_within` can only be read contrapositively ("a spinner that is
not done has taken fewer than 4 steps since the event was set"), whereas this form has instances (below). -/
theorem spinner_stops_within_rank (cfg : Cfg) (s s' : Schedule) (hf : (run cfg s init).flag = true)
    (hr : rank (run cfg s init).spin ≤ effSpin .now cfg s' (run cfg s init)) :
    (run cfg s' (run cfg s init)).spin = .done := by
  have hi := (reach_inv cfg s).1
  apply spin_done_within .now cfg s' _ hf
  · intro hn
    have h1 := hi.spawned.mpr hn
    have h2 := afterSet_not_beforeSpawn _ (hi.flagIff.mp hf)
    rw [h1] at h2; cases h2
  · exact hr

/-- **`join` cannot block for ever (2).**  While main is inside the block some choice makes progress: main or
the spinner is enabled, or everybody waits for the clock and advancing it enables one of them.  In particular a
main thread blocked in `join` always leaves the spinner (or the clock) able to move. -/
theorem never_stuck (old : Proto) (cfg : Cfg) (s : Schedule)
    (hm : ∀ o, (runG old cfg s init).main ≠ .exited o) :
    enabledMain (runG old cfg s init) = true ∨ enabledSpin (runG old cfg s init) = true ∨
    ∃ dt, enabledMain (stepG old cfg (runG old cfg s init) (.tick dt)) = true ∨
          enabledSpin (stepG old cfg (runG old cfg s init) (.tick dt)) = true := by
  generalize runG old cfg s init = c at hm
  cases hmain : c.main with
  | exited o => exact absurd hmain (hm o)
  | working w rest =>
    right; right
    refine ⟨w, .inl ?_⟩
    simp [enabledMain, stepG, hmain]
  | excJoin k =>
    cases hs : c.spin with
    | sleeping w => right; right; exact ⟨w, .inr (by simp [enabledSpin, stepG, hs])⟩
    | _ => simp [enabledMain, enabledSpin, hmain, hs]
  | finJoin =>
    cases hs : c.spin with
    | sleeping w => right; right; exact ⟨w, .inr (by simp [enabledSpin, stepG, hs])⟩
    | _ => simp [enabledMain, enabledSpin, hmain, hs]
  | _ => left; simp [enabledMain, hmain]

/-- **End message last.**  Under every schedule a normal exit ends the stream with the end-message frame (with
the first indicator value, `reset_indicator=True`) followed by the final newline, both written by main. -/
theorem end_message_last (cfg : Cfg) (s : Schedule) (h : (run cfg s init).main = .exited .normal) :
    ∃ pre, trace cfg s = pre ++ [(Tid.main, frameBytes cfg (render cfg.fmt (value cfg 0) cfg.endMsg)), (Tid.main, nl)] := by
  have he := reach_einv cfg s
  simp only [EInv, h] at he
  obtain ⟨r, hr⟩ := he
  refine ⟨r.reverse, ?_⟩
  simp [trace, St.trace, hr, endBytes, frameBytes, endText]

/-- ... and on the terminal: after a normal exit the line is blank and the last frame shown (the last completed
line, before the empty line that the plain output's extra newline produces) is the end message. -/
theorem end_message_shown (cfg : Cfg) (hc : CleanCfg cfg) (s : Schedule)
    (h : (run cfg s init).main = .exited .normal) :
    (termOf ((trace cfg s).map (·.2))).line = [] ∧
    ∃ ls, (termOf ((trace cfg s).map (·.2))).lines =
      ls ++ [render cfg.fmt (value cfg 0) cfg.endMsg] ++ (if cfg.ansi then [] else [[]]) := by
  obtain ⟨pre, hpre⟩ := end_message_last cfg s h
  have hu : ∀ w ∈ pre.map (·.2), UnitW cfg w := by
    intro w hw
    simp only [List.mem_map] at hw
    obtain ⟨x, hx, rfl⟩ := hw
    have : x ∈ (run cfg s init).out := by
      have : x ∈ trace cfg s := by rw [hpre]; simp [hx]
      simpa [trace, St.trace] using this
    exact (reach_inv cfg s).2.out x this
  have g := termOf_units (ansi := cfg.ansi) (F := FrameText cfg) (frameText_clean hc) _ hu
  have hce : clean (render cfg.fmt (value cfg 0) cfg.endMsg) = true :=
    frameText_clean hc _ ⟨0, cfg.endMsg, endMsg_mem cfg, rfl⟩
  rw [hpre]
  simp only [List.map_append, List.map_cons, List.map_nil, termOf, List.foldl_append, List.foldl_cons, List.foldl_nil]
  have g' : Term.Good cfg.ansi (FrameText cfg) (List.foldl Term.feed Term.init (pre.map (·.2))) := g
  generalize List.foldl Term.feed Term.init (pre.map (·.2)) = t at g'
  obtain ⟨lines, line, col, esc⟩ := t
  obtain ⟨ge, gp, _, _⟩ := g'
  simp only at ge gp
  subst ge
  cases ha : cfg.ansi with
  | true =>
    simp only [frameBytes, ha, if_true]
    rw [feed_frame _ _ _ _ hce, feed_nl]
    exact ⟨rfl, lines, by simp⟩
  | false =>
    obtain ⟨rfl, rfl⟩ := gp ha
    simp only [frameBytes, ha, Bool.false_eq_true, if_false]
    rw [feed_plain _ _ hce, feed_nl]
    exact ⟨rfl, lines, by simp⟩

/-- `end_message_shown` with the decider. -/
theorem end_message_shown_decided (cfg : Cfg) (hw : cleanCfgB cfg = true) (s : Schedule)
    (h : (run cfg s init).main = .exited .normal) :
    (termOf ((trace cfg s).map (·.2))).line = [] ∧
    ∃ ls, (termOf ((trace cfg s).map (·.2))).lines =
      ls ++ [render cfg.fmt (value cfg 0) cfg.endMsg] ++ (if cfg.ansi then [] else [[]]) :=
  end_message_shown cfg ((cleanCfgB_iff cfg).mp hw) s h

/-! ### Manual mode (no spinner thread) -/

/-- **Advance is throttled.**  For every sequence of calls and clock advances: a redraw made by `advance` comes
at least `interval` milliseconds after every earlier redraw made by `start` or by `advance`
(`set_message` and `finish` redraw unconditionally and are not "advancing"). -/
theorem advance_throttled (cfg : Cfg) (ops : List MOp) (l1 l2 : List MEv) (e : MEv)
    (h : (mrun cfg ops MSt.init).out = l1 ++ e :: l2) (he : e.kind = .advance) :
    ∀ e' ∈ l2, (e'.kind = .start ∨ e'.kind = .advance) → e'.time + cfg.interval ≤ e.time := by
  have ht := (minv_run cfg ops _ (minv_init cfg)).thr
  rw [h] at ht
  clear h
  induction l1 with
  | nil =>
    intro e' he' hk
    apply ht.1 he e' he'
    rcases hk with hk | hk <;> simp [isAnchor, hk]
  | cons x r ih => exact ih ht.2

/-- **Frame shape.**  Whatever the state, each call writes only the final newline (`finish`) and whole frames,
and a frame is one of the indicator values followed by the *current* message in the format - the message just
set by `start` / `set_message` / `finish`, else the one set before. -/
theorem frame_shape (cfg : Cfg) (hv : 0 < cfg.values.length) (c : MSt) (op : MOp) :
    ∃ new, (mstep cfg c op).1.out = new ++ c.out ∧
      (∀ e ∈ new, (e.kind = .newline ∧ e.bytes = nl) ∨
        ∃ v ∈ cfg.values, e.bytes = frameBytes cfg (render cfg.fmt v (mstep cfg c op).1.message)) ∧
      (mstep cfg c op).1.message =
        (match op, (mstep cfg c op).2 with
         | .start m, none | .setMessage m, none | .finish m _, none => m
         | _, _ => c.message) := by
  have hval : ∀ i, value cfg i ∈ cfg.values := fun i => value_mem cfg i hv
  cases op with
  | start m =>
    simp only [mstep]
    split
    · exact ⟨[], by simp, by simp, rfl⟩
    · rw [mdisplay_eq]
      exact ⟨[_], rfl, by intro e he; simp only [List.mem_singleton] at he; subst he; exact .inr ⟨_, hval _, rfl⟩, rfl⟩
  | advance =>
    simp only [mstep]
    repeat' split
    · exact ⟨[], by simp, by simp, rfl⟩
    · exact ⟨[], by simp, by simp, rfl⟩
    · exact ⟨[], by simp, by simp, rfl⟩
    · rw [mdisplay_eq]
      exact ⟨[_], rfl, by intro e he; simp only [List.mem_singleton] at he; subst he; exact .inr ⟨_, hval _, rfl⟩, rfl⟩
  | setMessage m =>
    simp only [mstep]
    rw [mdisplay_eq]
    exact ⟨[_], rfl, by intro e he; simp only [List.mem_singleton] at he; subst he; exact .inr ⟨_, hval _, rfl⟩, rfl⟩
  | finish m reset =>
    simp only [mstep]
    split
    · exact ⟨[], by simp, by simp, rfl⟩
    · rw [mdisplay_eq]
      refine ⟨[_, _], rfl, ?_, rfl⟩
      intro e he
      simp only [List.mem_cons, List.not_mem_nil, or_false] at he
      rcases he with rfl | rfl
      · exact .inl ⟨rfl, rfl⟩
      · exact .inr ⟨_, hval _, rfl⟩
  | tick dt => exact ⟨[], by simp [mstep], by simp, rfl⟩

/-- `frame_shape` with the decider. -/
theorem frame_shape_decided (cfg : Cfg) (hw : hasValuesB cfg = true) (c : MSt) (op : MOp) :
    ∃ new, (mstep cfg c op).1.out = new ++ c.out ∧
      (∀ e ∈ new, (e.kind = .newline ∧ e.bytes = nl) ∨
        ∃ v ∈ cfg.values, e.bytes = frameBytes cfg (render cfg.fmt v (mstep cfg c op).1.message)) ∧
      (mstep cfg c op).1.message =
        (match op, (mstep cfg c op).2 with
         | .start m, none | .setMessage m, none | .finish m _, none => m
         | _, _ => c.message) :=
  frame_shape cfg (by simpa [hasValuesB] using hw) c op

/-! ### Proved counterexamples -/
namespace Counter

/-- default-like configuration: ANSI, redraw on every cycle, two indicator values, `" {indicator} {message}"` -/
def cfg1 (body : List BodyOp) : Cfg :=
  { ansi := true, interval := 0, period := 100, values := [['-'], ['+']],
    fmt := [.lit [' '], .indicator, .lit [' '], .message],
    startMsg := ['a'], endMsg := ['z'], body := body }

/-- main: start frame (erase, text), `Thread.start`, then `set_message("b")`; spinner: begins and decides to redraw;
then the race of D23: spinner erase, main erase, spinner text, main text. -/
def raceSchedule : Schedule := [.main, .main, .main, .main, .spin, .spin, .spin, .main, .spin, .main]

/-- **D23 (pre-fix protocol): two frames on the line.**  With the erase sequence and the text written
separately the schedule above leaves `" + b - b"` on the terminal: not blank, not one frame. -/
theorem c19_mixture_old :
    (termOf (((runOld (cfg1 [.setMessage ['b']]) raceSchedule init).trace).map (·.2))).line
        = [' ', '+', ' ', 'b', ' ', '-', ' ', 'b'] ∧
    isFrame (cfg1 [.setMessage ['b']]) [' ', '+', ' ', 'b', ' ', '-', ' ', 'b'] = false := by
  decide

/-- the same schedule in the code as it is: one frame -/
example : (termOf ((trace (cfg1 [.setMessage ['b']]) raceSchedule).map (·.2))).line = [' ', '+', ' ', 'b'] := by
  decide

/-- **D32 (pre-fix exception handling): a body that raises `SystemExit` leaves the spinner running.**
With `except (Exception, KeyboardInterrupt)` the schedule main, main, main (start frame, `Thread.start`, the body
raises) leaves the block without running the handler, and whatever is scheduled afterwards the block stays left
and the spinner is never `done` (with real threads: it keeps printing and the process never exits). -/
theorem c19_uncaught_leaves_spinner_running_old (s : Schedule) :
    (runOldExcept (cfg1 [.raise .systemExit]) ([.main, .main, .main] ++ s) init).main = .exited (.escaped .systemExit) ∧
    (runOldExcept (cfg1 [.raise .systemExit]) ([.main, .main, .main] ++ s) init).spin ≠ .done := by
  have h0 : (runG .d32 (cfg1 [.raise .systemExit]) [.main, .main, .main] init).main = .exited (.escaped .systemExit) := by
    decide
  have h1 : (runOldExcept (cfg1 [.raise .systemExit]) ([.main, .main, .main] ++ s) init).main
      = .exited (.escaped .systemExit) := by
    unfold runOldExcept
    rw [runG_append]
    exact exited_stable _ _ _ s _ h0
  exact ⟨h1, (escaped_leaves_spinner_running .d32 _ _ _ h1).1⟩

/-- the same program in the code as it is: the handler runs, the spinner is stopped and joined -/
example : (run (cfg1 [.raise .systemExit]) [.main, .main, .main, .spin, .main, .main, .spin, .spin, .main] init).main
      = .exited (.raised .systemExit) ∧
    (run (cfg1 [.raise .systemExit]) [.main, .main, .main, .spin, .main, .main, .spin, .spin, .main] init).spin = .done := by
  decide

end Counter

/-! ### Non-vacuity -/

/-- a complete run: set_message while spinning, the spinner redraws once, normal exit -/
def demoSchedule : Schedule :=
  [.main, .main, .main, .main, .spin, .spin, .spin, .tick 100, .main, .main, .spin, .spin, .main, .main, .main]

example : (run (Counter.cfg1 [.setMessage ['b'], .work 100]) demoSchedule init).main = .exited .normal ∧
    (run (Counter.cfg1 [.setMessage ['b'], .work 100]) demoSchedule init).spin = .done ∧
    ((trace (Counter.cfg1 [.setMessage ['b'], .work 100]) demoSchedule).map (·.2)) =
      [crEl ++ [' ', '-', ' ', 'a'], crEl ++ [' ', '-', ' ', 'b'], crEl ++ [' ', '+', ' ', 'b'],
       crEl ++ [' ', '-', ' ', 'z'], nl] := by
  decide

/-- the exception path: newline first, then stop and join -/
example : (run (Counter.cfg1 [.raise .exception]) [.main, .main, .main, .spin, .main, .main, .spin, .spin, .main] init).main
      = .exited (.raised .exception) ∧
    (run (Counter.cfg1 [.raise .exception]) [.main, .main, .main, .spin, .main, .main, .spin, .spin, .main] init).spin = .done := by
  decide

/-- Observation (not demanded by the property, which speaks of the *normal* exit): on the exception path the
newline is written before the spinner is stopped, so there is a schedule in which the spinner draws once more
after it and the block is left with a frame on the cursor's line. -/
example : (termOf ((trace (Counter.cfg1 [.raise .exception])
      [.main, .main, .main, .spin, .spin, .main, .spin, .main, .tick 100, .spin, .spin, .main]).map (·.2))).line
      = [' ', '+', ' ', 'a'] ∧
    (run (Counter.cfg1 [.raise .exception])
      [.main, .main, .main, .spin, .spin, .main, .spin, .main, .tick 100, .spin, .spin, .main] init).main
      = .exited (.raised .exception) := by
  decide

/-- a main thread blocked in `join` does not move until the spinner is done -/
example : (run (Counter.cfg1 []) [.main, .main, .main, .main, .main, .main, .main] init).main = .finJoin := by decide

/-- manual mode: the second `advance` comes 99 ms after the first redraw and is throttled, the third redraws -/
example : ((mrun { Counter.cfg1 [] with interval := 100 }
      [.start ['a'], .tick 100, .advance, .tick 99, .advance, .tick 1, .advance] MSt.init).out.map (·.time)) = [200, 100, 0] := by
  decide

example : CleanCfg (Counter.cfg1 [.setMessage ['b']]) := by
  refine ⟨by decide, by decide, ?_⟩
  intro s hs
  simp only [Counter.cfg1, List.mem_cons, Seg.lit.injEq, List.not_mem_nil, or_false, reduceCtorEq, false_or] at hs
  rcases hs with rfl | rfl <;> decide

/-! Every theorem with hypotheses, applied to a concrete run that discharges all of them. -/

def demoCfg : Cfg := Counter.cfg1 [.setMessage ['b'], .work 100]
def excCfg : Cfg := Counter.cfg1 [.raise .exception]
def excSchedule : Schedule := [.main, .main, .main, .spin, .main, .main, .spin, .spin, .main]

/-- the deciders the correspondence evaluates hold for the demo configuration -/
example : cleanCfgB demoCfg = true ∧ hasValuesB demoCfg = true := by decide

/-- `no_mixture` on the whole trace of the demo run -/
example : (termOf ((trace demoCfg demoSchedule).map (·.2))).line = [] ∨
    isFrame demoCfg (termOf ((trace demoCfg demoSchedule).map (·.2))).line = true :=
  (no_mixture_decided demoCfg (by decide) demoSchedule _ (List.prefix_refl _)).1

/-- `frame_shape_auto` -/
example : ∀ w ∈ trace demoCfg demoSchedule, w.2 = nl ∨
    ∃ v ∈ demoCfg.values, ∃ m ∈ msgs demoCfg, w.2 = frameBytes demoCfg (render demoCfg.fmt v m) :=
  frame_shape_auto_decided demoCfg (by decide) demoSchedule

/-- `always_joined`, normal exit and exception -/
example : (run demoCfg demoSchedule init).spin = .done := always_joined demoCfg demoSchedule .normal (by decide)
example : (run excCfg excSchedule init).spin = .done :=
  always_joined excCfg excSchedule (.raised .exception) (by decide)

/-- `every_exit_is_handled` -/
example : Outcome.raised .exception = .normal ∨ ∃ k, Outcome.raised .exception = .raised k :=
  every_exit_is_handled excCfg excSchedule _ (by decide)

/-- `always_joined_handled` in the pre-fix variant D32 (an `Exception` is caught there, too) -/
example : (runG .d32 excCfg excSchedule init).spin = .done :=
  always_joined_handled .d32 excCfg excSchedule (.raised .exception) (by decide) (.inr ⟨_, rfl⟩)

/-- `spinner_stops_within_rank`: empty body, main sets the event while the spinner has not run yet (rank 2);
two spinner steps later it is done -/
example : (run (Counter.cfg1 []) [.spin, .spin] (run (Counter.cfg1 []) [.main, .main, .main, .main] init)).spin = .done :=
  spinner_stops_within_rank (Counter.cfg1 []) [.main, .main, .main, .main] [.spin, .spin] (by decide) (by decide)

/-- `never_stuck`: main blocked in `join` -/
example : enabledMain (runG .now (Counter.cfg1 []) (List.replicate 7 .main) init) = true ∨
    enabledSpin (runG .now (Counter.cfg1 []) (List.replicate 7 .main) init) = true ∨
    ∃ dt, enabledMain (stepG .now (Counter.cfg1 []) (runG .now (Counter.cfg1 []) (List.replicate 7 .main) init) (.tick dt)) = true ∨
          enabledSpin (stepG .now (Counter.cfg1 []) (runG .now (Counter.cfg1 []) (List.replicate 7 .main) init) (.tick dt)) = true :=
  never_stuck .now (Counter.cfg1 []) (List.replicate 7 .main) (by
    intro o h
    have e : (runG .now (Counter.cfg1 []) (List.replicate 7 .main) init).main = .finJoin := by decide
    rw [e] at h
    cases h)

/-- `end_message_last`, `end_message_shown` -/
example : ∃ pre, trace demoCfg demoSchedule =
    pre ++ [(Tid.main, frameBytes demoCfg (render demoCfg.fmt (value demoCfg 0) demoCfg.endMsg)), (Tid.main, nl)] :=
  end_message_last demoCfg demoSchedule (by decide)

example : (termOf ((trace demoCfg demoSchedule).map (·.2))).line = [] ∧
    ∃ ls, (termOf ((trace demoCfg demoSchedule).map (·.2))).lines =
      ls ++ [render demoCfg.fmt (value demoCfg 0) demoCfg.endMsg] ++ (if demoCfg.ansi then [] else [[]]) :=
  end_message_shown_decided demoCfg (by decide) demoSchedule (by decide)

/-- `advance_throttled`: the newest event of the manual run below is a redraw made by `advance` (at 200 ms) -/
def manCfg : Cfg := { Counter.cfg1 [] with interval := 100 }
def manOps : List MOp := [.start ['a'], .tick 100, .advance, .tick 99, .advance, .tick 1, .advance]

example : (mrun manCfg manOps MSt.init).out.map (fun e => (e.kind, e.time)) =
    [(.advance, 200), (.advance, 100), (.start, 0)] := by decide

example : ∀ e l2, (mrun manCfg manOps MSt.init).out = e :: l2 → e.kind = .advance →
    ∀ e' ∈ l2, (e'.kind = .start ∨ e'.kind = .advance) → e'.time + manCfg.interval ≤ e.time :=
  fun e l2 h he => advance_throttled manCfg manOps [] l2 e (by simpa using h) he

/-- `frame_shape`: its only hypothesis -/
example : hasValuesB manCfg = true := by decide

/-! ## What the indicator is built on

`Model/SpinnerBuilt.lean`: an `Output`, or an `IO` whose standard output and error output are configured
individually.  The frames are drawn on the error output of an I/O, and the format the component chooses when
none is given is the one for THAT output. -/
section Built

/-- the two formats of the model are the literals `NORMAL` / `NORMAL_NO_ANSI` of the source -/
theorem formats_from_source :
    fmtText normalFmt = Gen.C19.NORMAL ∧ fmtText plainFmt = Gen.C19.NORMAL_NO_ANSI := by decide

/-- **An indicator built on an I/O is the indicator built on the error output of that I/O** - whatever format
is or is not given.  Nothing depends on the standard output. -/
theorem built_on_io_eq_error_output (std err : Caps) (fmt : Option (List Seg)) (base : Cfg) :
    cfgBuilt (.io std err) fmt base = cfgBuilt (.output err) fmt base := rfl

/-- two I/Os with the same error output give the same indicator, however their standard outputs differ (ANSI
capability, verbosity, quiet) -/
theorem built_ignores_standard_output (std std' err : Caps) (fmt : Option (List Seg)) (base : Cfg) :
    cfgBuilt (.io std err) fmt base = cfgBuilt (.io std' err) fmt base := rfl

/-- the configuration of an indicator that was given no format: the way of drawing and the format are both
those of the output drawn on -/
theorem built_cfg (b : Built) (base cfg : Cfg) (h : cfgBuilt b none base = some cfg) :
    cfg = { base with ansi := b.drawn.ansi, fmt := if b.drawn.ansi then normalFmt else plainFmt } ∧
    b.drawn.verbosity = 0 ∧ b.drawn.quiet = false := by
  unfold cfgBuilt at h
  cases hq : b.drawn.quiet with
  | true => simp [hq] at h
  | false =>
    simp only [hq, Bool.false_eq_true, if_false, bestFormat] at h
    by_cases hv : b.drawn.verbosity ≥ 1
    · simp [hv] at h
    · simp only [hv, if_false, Option.map_some, Option.some.injEq] at h
      exact ⟨h.symm, by omega, rfl⟩

theorem render_normalFmt (v m : Str) : render normalFmt v m = [' '] ++ v ++ [' '] ++ m := by
  simp [render, renderSeg, normalFmt]

theorem render_plainFmt (v m : Str) : render plainFmt v m = [' '] ++ m := by
  simp [render, renderSeg, plainFmt]

/-- what one frame of such an indicator is on the stream: on an ANSI-capable output the line is erased and
` value message` drawn in its place; on a plain output ` message` is a line of its own -/
def builtFrame (b : Built) (v m : Str) : Str :=
  if b.drawn.ansi then crEl ++ ([' '] ++ v ++ [' '] ++ m) else [' '] ++ m ++ nl

theorem frameBytes_built (b : Built) (base cfg : Cfg) (h : cfgBuilt b none base = some cfg) (v m : Str) :
    frameBytes cfg (render cfg.fmt v m) = builtFrame b v m := by
  obtain ⟨rfl, -, -⟩ := built_cfg b base cfg h
  unfold frameBytes builtFrame
  cases b.drawn.ansi <;> simp [render_normalFmt, render_plainFmt]

/-- **Frame shape, no format given (manual mode).**  Built on an Output or on an I/O, whatever the standard
output of that I/O is: each call writes only the final newline and whole frames, and a frame is - for the
output it is DRAWN on - an indicator value followed by the current message (ANSI-capable: redrawn in place), or
the current message on a line of its own (plain). -/
theorem built_frame_shape (b : Built) (base cfg : Cfg) (h : cfgBuilt b none base = some cfg)
    (hv : 0 < base.values.length) (c : MSt) (op : MOp) :
    ∃ new, (mstep cfg c op).1.out = new ++ c.out ∧
      ∀ e ∈ new, (e.kind = .newline ∧ e.bytes = nl) ∨
        ∃ v ∈ base.values, e.bytes = builtFrame b v (mstep cfg c op).1.message := by
  have hvals : cfg.values = base.values := by rw [(built_cfg b base cfg h).1]
  obtain ⟨new, h1, h2, -⟩ := frame_shape cfg (by rw [hvals]; exact hv) c op
  refine ⟨new, h1, fun e he => ?_⟩
  rcases h2 e he with hn | ⟨v, hvm, hb⟩
  · exact .inl hn
  · exact .inr ⟨v, hvals ▸ hvm, by rw [hb, frameBytes_built b base cfg h]⟩

/-- **Frame shape, no format given (automatic mode), under every schedule.** -/
theorem built_frame_shape_auto (b : Built) (base cfg : Cfg) (h : cfgBuilt b none base = some cfg)
    (hv : 0 < base.values.length) (s : Schedule) :
    ∀ w ∈ trace cfg s, w.2 = nl ∨ ∃ v ∈ base.values, ∃ m ∈ msgs cfg, w.2 = builtFrame b v m := by
  have hvals : cfg.values = base.values := by rw [(built_cfg b base cfg h).1]
  intro w hw
  rcases frame_shape_auto cfg (by rw [hvals]; exact hv) s w hw with hn | ⟨v, hvm, m, hm, hb⟩
  · exact .inl hn
  · exact .inr ⟨v, hvals ▸ hvm, m, hm, by rw [hb, frameBytes_built b base cfg h]⟩

/-- the variant that asks the STANDARD output of an I/O which format to use while it draws on the error output
is a different component as soon as the two outputs differ: with a plain standard output and an ANSI-capable
error output it redraws the line in place WITHOUT an indicator value -/
theorem format_of_standard_output_differs :
    let std : Caps := ⟨false, 0, false⟩
    let err : Caps := ⟨true, 0, false⟩
    bestFormat std ≠ bestFormat (Built.io std err).drawn ∧
    (∀ v m, frameBytes { Counter.cfg1 [] with ansi := err.ansi, fmt := plainFmt } (render plainFmt v m) = crEl ++ ([' '] ++ m)) := by
  refine ⟨by decide, fun v m => ?_⟩
  simp [frameBytes, render_plainFmt]

/-- non-vacuity: `prog > out.txt` on a terminal -/
example : (cfgBuilt (.io ⟨false, 2, true⟩ ⟨true, 0, false⟩) none (Counter.cfg1 [])).map (fun c => (c.ansi, c.fmt)) =
    some (true, normalFmt) := by decide
example : cfgBuilt (.io ⟨true, 0, false⟩ ⟨true, 1, false⟩) none (Counter.cfg1 []) = none := by decide

end Built

/-! ### non-vacuity of the theorems about what the indicator is built on (hypothesis audit, rounds 8-9) -/
section BuiltAudit

/-- `prog > out.txt` on a terminal: the standard output is a plain file (verbose, quiet - irrelevant), the error output
an ANSI-capable terminal at normal verbosity -/
private def onRedirected : Built := .io ⟨false, 2, true⟩ ⟨true, 0, false⟩
/-- the other way round: the indicator draws on a plain error output -/
private def onPlainErr : Built := .io ⟨true, 0, false⟩ ⟨false, 0, false⟩

/-- `built_cfg` / `frameBytes_built`, hypothesis discharged (it binds the configuration the constructor arrives at) -/
example : ∃ cfg, cfgBuilt onRedirected none manCfg = some cfg ∧ cfg.ansi = true ∧ cfg.fmt = normalFmt ∧
    ∀ v m, frameBytes cfg (render cfg.fmt v m) = crEl ++ ([' '] ++ v ++ [' '] ++ m) := by
  refine ⟨_, rfl, ?_, ?_, fun v m => ?_⟩
  · exact ((built_cfg onRedirected manCfg _ rfl).1 ▸ rfl)
  · exact ((built_cfg onRedirected manCfg _ rfl).1 ▸ rfl)
  · exact frameBytes_built onRedirected manCfg _ rfl v m

/-- `built_frame_shape` applied, both hypotheses discharged: every frame of the manual history on the plain error
output is the newline or ` message` on a line of its own -/
example : ∀ cfg, cfgBuilt onPlainErr none manCfg = some cfg → ∀ c op, ∃ new, (mstep cfg c op).1.out = new ++ c.out ∧
    ∀ e ∈ new, (e.kind = .newline ∧ e.bytes = nl) ∨
      ∃ v ∈ manCfg.values, e.bytes = [' '] ++ (mstep cfg c op).1.message ++ nl :=
  fun cfg h c op => built_frame_shape onPlainErr manCfg cfg h (by decide) c op

/-- `built_frame_shape_auto` applied (every schedule) -/
example : ∀ cfg, cfgBuilt onRedirected none (Counter.cfg1 [.setMessage ['b']]) = some cfg → ∀ s, ∀ w ∈ trace cfg s,
    w.2 = nl ∨ ∃ v ∈ (Counter.cfg1 [.setMessage ['b']]).values, ∃ m ∈ msgs cfg, w.2 = crEl ++ ([' '] ++ v ++ [' '] ++ m) :=
  fun cfg h s => built_frame_shape_auto onRedirected _ cfg h (by decide) s

/-- the hypothesis `cfgBuilt .. = some cfg` excludes the outputs the model does not cover: a quiet error output -/
example : cfgBuilt (.io ⟨true, 0, false⟩ ⟨true, 0, true⟩) none manCfg = none := by decide

end BuiltAudit

end Clikit.Props.C19
