import Clikit.Lemmas.C11Sgr
import Clikit.Lemmas.C11Markup
import Clikit.Lemmas.C11Lex
import Clikit.Lemmas.C11Output
import Clikit.Lemmas.C11Indent
import Clikit.Lemmas.C11Balanced
import Clikit.Lemmas.SectionScopes
import Clikit.Props.C15
import Clikit.Model.StyleSets
/-!
# C11 - decoration changes only the look: same text, right codes, none when plain

Theorems about the models of `StyleConverter` + pastel's `Style.apply` (`Model/Style.lean`),
pastel's tag machine (`Model/Markup.lean`) and `Output` / `IO` / `SectionOutput` / `Indent`
(`Model/Output.lean`).  The colour / option tables, the converter's option names, the default
style set and the write gate are regenerated from the sources on every run.  Which style a tag
string denotes is a parameter (`rv : Resolver`): every theorem holds for every resolver.
-/
namespace Clikit.Props.C11
open Clikit Clikit.Style Clikit.Markup Clikit.Output Clikit.Gen.C11

/-- **Every colour and attribute of a style is rendered as exactly its SGR code** - the code
list is foreground (30 + colour index), background (40 + colour index), one code per attribute
and nothing else - **whichever way the style is supplied**: (1) the converted style itself;
(2) registered under its tag (style set at construction, or `add_style` later: the same
`register`), after which the formatter's registry holds exactly this style under the tag;
(3) a tag denoting the style wraps its text in these codes; (4) passed for a single call on text
without tags.  `wrap cs t` is `t` for `cs = []` and `ESC[c1;…;cn m t ESC[0m` otherwise. -/
theorem sgr_exact (s : Style) (cs : List Nat) (h : expectedCodes s = some cs) (text : Str) :
    ∃ ps, convert s = .ok ps ∧ codes ps = cs ∧ Style.apply ps text = wrap cs text ∧
      (∀ reg, register reg s = .ok (dictSet s.tag ps reg) ∧
              dictGet? s.tag (dictSet s.tag ps reg) = some ps) ∧
      (∀ (rv : Resolver) (t t' : Str) (st : Stack), rv t = .style ps → rv t' = .style ps →
          render rv true st [.open t, .text text, .close t'] =
            .ok (if text.isEmpty then [] else wrap cs text, st)) ∧
      (∀ (rv : Resolver) (st : Stack), hasTag (lex text) = false →
          ansiFormat rv st text (some s) =
            .ok (if (unescape text).isEmpty then [] else wrap cs (unescape text), st)) := by
  obtain ⟨ps, hc, h1, h2, h3, hcodes⟩ := mkStyle_spec s cs h
  refine ⟨ps, hc, hcodes, by simp [Style.apply, hcodes], ?_, ?_, ?_⟩
  · intro reg
    refine ⟨?_, dictGet?_dictSet_self _ _ _⟩
    simp only [register, hc, rebuild_spec s ps hc h1 h2 h3]
  · intro rv t t' st ht ht'
    simp only [render, ht, ht', popStyle_top ps ps st (eqv_refl ps)]
    cases text with
    | nil => simp [applyCur]
    | cons c r => simp [applyCur, cur, Style.apply, hcodes]
  · intro rv st hno
    simp only [ansiFormat, hc, colorize, hno]
    cases hu : unescape text with
    | nil => simp
    | cons c r => simp [cur, Style.apply, hcodes]

/-- **The decorated rendering with its escape sequences stripped is the plain rendering** - for
every token list pastel accepts *or rejects* (the same `ValueError`), every resolver and every
initial style stack: same text, same final stack. -/
theorem strip_eq_plain (rv : Resolver) (toks : List Tok) (st : Stack) (h : EscFree toks) :
    stripRes (render rv true st toks) = render rv false st toks :=
  render_strip rv toks st h

/-- **Balanced style tags**: the plain rendering is the concatenation of the texts (and of the
tags that are no styles), the decorated rendering stripped is the same string, nothing is
rejected and the style stack is left as it was found. -/
theorem balanced_text (rv : Resolver) (toks : List Tok) (hb : Balanced rv toks) (st : Stack) :
    render rv false st toks = .ok (texts rv toks, st) ∧
    ∃ o, render rv true st toks = .ok (o, st) ∧ (EscFree toks → stripAnsi o = texts rv toks) := by
  obtain ⟨o0, h0⟩ := balanced_run rv false toks hb st
  obtain ⟨o1, h1⟩ := balanced_run rv true toks hb st
  have e0 := render_plain_texts rv toks st o0 st h0
  refine ⟨by rw [h0, e0], o1, h1, ?_⟩
  intro hf
  have := render_strip rv toks st hf
  rw [h1, h0] at this
  simp only [stripRes, Except.ok.injEq, Prod.mk.injEq] at this
  rw [this.1, e0]

/-- **An undecorated output never emits an escape byte nor the markup of a style**: whatever a
non-colorized run prints is `texts` - every character comes from a text piece or from a tag that
denotes no style - and it is ESC-free when the message is. -/
theorem plain_no_escape (rv : Resolver) (toks : List Tok) (st st' : Stack) (o : Str)
    (h : render rv false st toks = .ok (o, st')) :
    o = texts rv toks ∧
    (∀ c ∈ o, ∃ t ∈ toks, c ∈ t.lit ∧
        (t.isTag = true → ∃ n, (t = .open n ∨ t = .close n) ∧ rv n = .unknown)) ∧
    (EscFree toks → ESC ∉ o) := by
  have e := render_plain_texts rv toks st o st' h
  refine ⟨e, ?_, ?_⟩
  · intro c hc
    rw [e] at hc
    exact texts_mem rv toks c hc
  · intro hf hm
    rw [e] at hm
    obtain ⟨t, ht, hl, _⟩ := texts_mem rv toks ESC hm
    exact hf t ht hl

/-- The same at the level of whole messages and of the formatter entry points
(`AnsiFormatter.format` vs `PlainFormatter.format` / `remove_format`): for every message without
ESC and without backslash (backslash-escaped tags are outside the property), every resolver and
every initial stack, stripping the decorated rendering gives the plain rendering - and both fail
together. -/
theorem message_strip_eq_plain (rv : Resolver) (st : Stack) (msg : Str)
    (he : ESC ∉ msg) (hb : '\\' ∉ msg) :
    stripRes (ansiFormat rv st msg none) = plainFormat rv st msg := by
  simp only [ansiFormat, plainFormat]
  rw [colorize_noBs _ _ _ _ hb, colorize_noBs _ _ _ _ hb]
  split
  · exact render_strip rv _ st (escFree_pieces msg he _)
  · simp [stripRes, stripAnsi_text' msg he]

/-- A message whose pieces are balanced: plain rendering = stripped decorated rendering = the
tag-stripped text (`texts` of its pieces), never an error, stack unchanged; a message without
any tag is its own rendering in both modes. -/
theorem message_balanced (rv : Resolver) (st : Stack) (msg : Str) (he : ESC ∉ msg) (hb : '\\' ∉ msg)
    (hbal : Balanced rv (seg (lastOr ' ' msg) (lex msg))) :
    plainFormat rv st msg =
      .ok (if hasTag (lex msg) then texts rv (seg (lastOr ' ' msg) (lex msg)) else msg, st) ∧
    stripRes (ansiFormat rv st msg none) =
      .ok (if hasTag (lex msg) then texts rv (seg (lastOr ' ' msg) (lex msg)) else msg, st) := by
  have h1 : plainFormat rv st msg =
      .ok (if hasTag (lex msg) then texts rv (seg (lastOr ' ' msg) (lex msg)) else msg, st) := by
    simp only [plainFormat]
    rw [colorize_noBs _ _ _ _ hb]
    split
    · exact (balanced_text rv _ hbal st).1
    · rfl
  exact ⟨h1, by rw [message_strip_eq_plain rv st msg he hb, h1]⟩

/-- **Every line-writing method emits the text followed by exactly one newline** (when the gate
lets it through): `write_line` writes what `write` writes plus one `"\n"`; `write_line_raw`
writes the text *without its own trailing newlines* (the code `rstrip`s them: `"a\n\n"` gives
`"a\n"`) plus one `"\n"`; on a section without ANSI support the same; on a section with ANSI
support `write`, `write_line` and `overwrite` all write the text plus one `"\n"` (the flags are
not passed on, the gate was applied before).  The `IO` methods are the same calls on its standard
/ error output (`io_delegates`). -/
theorem line_methods_newline (rv : Resolver) (o : Out) (s : Str) (flags : Option Nat)
    (hw : Gen.mayWrite o.quiet o.verbosity flags = true) :
    o.call rv .writeLine s flags = addNl (o.call rv .write s flags) ∧
    o.call rv .writeLineRaw s flags = .ok (rstripNl s ++ ['\n'], o) ∧
    o.call rv .writeRaw s flags = .ok (s, o) ∧
    ((∃ k, s = rstripNl s ++ List.replicate k '\n') ∧ (rstripNl s).getLast? ≠ some '\n') ∧
    o.sectionCall rv .writeLineRaw s flags = .ok (rstripNl s ++ ['\n'], o) ∧
    ((o.formatOutput = false ∧ o.fmt.forceAnsi = false) →
        o.sectionCall rv .writeLine s flags = addNl (o.call rv .write s flags) ∧
        o.sectionCall rv .write s flags = o.call rv .write s flags) ∧
    ((o.formatOutput = true ∨ o.fmt.forceAnsi = true) →
        o.sectionCall rv .writeLine s flags = addNl (o.write rv s none false true) ∧
        o.sectionCall rv .write s flags = addNl (o.write rv s none false true) ∧
        o.sectionCall rv .overwrite s flags = addNl (o.write rv s none false true)) := by
  have hn := mayWrite_none _ _ _ hw
  refine ⟨?_, ?_, ?_, rstripNl_spec s, ?_, ?_, ?_⟩
  · simp only [Out.call, Out.writeLine]; exact write_newline rv o s flags true hw
  · simp [Out.call, Out.writeLineRaw, hw]
  · simp [Out.call, Out.writeRaw, hw]
  · simp [Out.sectionCall, Out.writeLineRaw, hw]
  · rintro ⟨h1, h2⟩
    simp only [Out.sectionCall, Out.sectionWrite, h1, h2, Bool.not_false, Bool.and_self, if_true, Out.call]
    exact ⟨write_newline rv o s flags true hw, trivial⟩
  · intro hA
    have hcond : (!o.formatOutput && !o.fmt.forceAnsi) = false := by
      rcases hA with h | h <;> simp [h]
    have key : ∀ (f : Option Nat), Gen.mayWrite o.quiet o.verbosity f = true → ∀ nl,
        o.sectionWrite rv s f nl = addNl (o.write rv s none false true) := by
      intro f hf nl
      unfold Out.sectionWrite
      simp only [hcond, hf, Bool.not_true, if_false, Bool.false_eq_true]
      rw [write_newline rv o s none true hn]
      cases hr : o.write rv s none false true with
      | error e => rfl
      | ok p =>
        obtain ⟨b, o1⟩ := p
        have hq : o1.quiet = o.quiet ∧ o1.verbosity = o.verbosity := by
          unfold Out.write at hr
          simp only [hn, if_true] at hr
          cases hx : (if o.formatOutput then o.format rv (o.indented s true) none
                      else o.removeFormat rv (o.indented s true)) with
          | error e => simp [hx] at hr
          | ok q =>
            obtain ⟨b', st'⟩ := q
            simp only [hx, Except.ok.injEq, Prod.mk.injEq] at hr
            rw [← hr.2]; exact ⟨rfl, rfl⟩
        have he := write_empty rv o1 (by rw [hq.1, hq.2]; exact hn)
        simp only [addNl, he, List.append_nil]
    exact ⟨key flags hw true, key flags hw false, key none hn true⟩

/-- the `IO` writing methods are the `Output` methods of its standard / error output -/
theorem io_delegates (rv : Resolver) (io : IOm) (s : Str) (flags : Option Nat) :
    (∀ m ∈ [Method.write, .writeLine, .writeRaw, .writeLineRaw],
      io.call rv m s flags = match io.out.call rv m s flags with
        | .ok (b, o) => .ok (b, [], { io with out := o })
        | .error e => .error e) ∧
    io.call rv .error s flags = (match io.err.call rv .write s flags with
        | .ok (b, o) => .ok ([], b, { io with err := o }) | .error e => .error e) ∧
    io.call rv .errorLine s flags = (match io.err.call rv .writeLine s flags with
        | .ok (b, o) => .ok ([], b, { io with err := o }) | .error e => .error e) ∧
    io.call rv .errorRaw s flags = (match io.err.call rv .writeRaw s flags with
        | .ok (b, o) => .ok ([], b, { io with err := o }) | .error e => .error e) ∧
    io.call rv .errorLineRaw s flags = (match io.err.call rv .writeLineRaw s flags with
        | .ok (b, o) => .ok ([], b, { io with err := o }) | .error e => .error e) := by
  refine ⟨?_, rfl, rfl, rfl, rfl⟩
  intro m hm
  simp only [List.mem_cons, List.not_mem_nil, or_false] at hm
  rcases hm with rfl | rfl | rfl | rfl <;> rfl

/-- **Every non-empty line is prefixed by exactly the indentation in force**: what `Output.write`
hands to the formatter is the text with each non-empty line prefixed by `_indent` spaces and each
empty line left empty, line by line; with an unformatted output exactly these bytes reach the
stream; `indent_lines_rendered` carries this over to formatted writes. -/
theorem indent_lines (o : Out) (s : Str) :
    o.indented s true = indentText o.indent s ∧
    splitNl (indentText o.indent s) = (splitNl s).map (indentLine o.indent) ∧
    (∀ l, indentLine o.indent l = if l.isEmpty then [] else spaces o.indent ++ l) ∧
    (∀ l ∈ splitNl (indentText o.indent s), l ≠ [] → spaces o.indent <+: l) ∧
    (∀ (rv : Resolver) (flags : Option Nat) (nl : Bool), o.fmt = .null →
        Gen.mayWrite o.quiet o.verbosity flags = true →
        o.write rv s flags nl true = .ok (indentText o.indent s ++ (if nl then ['\n'] else []), o)) := by
  refine ⟨indented_eq o s, splitNl_indentText _ s, ?_, ?_, ?_⟩
  · intro l
    unfold indentLine
    cases l <;> simp
  · intro l hl hne
    rw [splitNl_indentText] at hl
    obtain ⟨l0, _, rfl⟩ := List.mem_map.mp hl
    unfold indentLine at hne ⊢
    split
    · rename_i h; rw [if_pos h] at hne; exact absurd (List.isEmpty_iff.mp h) hne
    · exact List.prefix_append _ _
  · intro rv flags nl hf hw
    have hi := indented_eq o s
    obtain ⟨fmt, fo, q, v, ind, stk⟩ := o
    simp only [] at hf hw hi
    subst hf
    unfold Out.write
    simp only [hw, if_true, hi, Out.format, Out.removeFormat]
    cases fo <;> simp

/-- ... and formatting keeps it: in what a formatted write of a backslash-free text puts on the
stream - plain, or decorated with the escape sequences stripped - every non-empty line starts
with the indentation in force (tags contain neither a blank nor a newline, so deleting them
keeps every line's prefix of blanks). -/
theorem indent_lines_rendered (rv : Resolver) (st st' : Stack) (n : Nat) (s o : Str) (hb : '\\' ∉ s) :
    (plainFormat rv st (indentText n s) = .ok (o, st') → LinesIndented n o) ∧
    (ESC ∉ s → ansiFormat rv st (indentText n s) none = .ok (o, st') → LinesIndented n (stripAnsi o)) := by
  have hb' : '\\' ∉ indentText n s := by
    intro h
    rcases indentText_chars n s _ h with h | h
    · revert h; decide
    · exact hb h
  refine ⟨fun h => plain_keeps_indent rv st st' n _ o hb' (linesIndented_indentText n s) h, ?_⟩
  intro he h
  have he' : ESC ∉ indentText n s := by
    intro h
    rcases indentText_chars n s _ h with h | h
    · revert h; decide
    · exact he h
  have := message_strip_eq_plain rv st (indentText n s) he' hb'
  rw [h] at this
  exact plain_keeps_indent rv st st' n _ _ hb' (linesIndented_indentText n s) this.symm

/-- **Under any nesting of indentation scopes, left normally or by an exception, the
indentation that held before holds again afterwards**, for every program (so in particular for
`scope t inc n body`, at any depth), and every line is indented by the scopes that enclose it
and by nothing that ran before: running the program writes exactly what the lexical reading
(`lexical`: indentation handed down, never handed back) says, each line being the text indented
by the indentation in force followed by one newline. -/
theorem scope_restores (p : Prog) (i : Ind) :
    (exec p i).2.1 = i ∧
    (exec p i).1 = (lexical p i).1 ∧
    (exec p i).2.2 = (lexical p i).2 ∧
    (∀ t inc n body, (exec (.scope t inc n body) i).2.1 = i) ∧
    (∀ e s, emitLine i e s = (e, indentText (if e then i.err else i.out) s ++ ['\n'])) := by
  rw [exec_eq_lexical]
  refine ⟨rfl, rfl, rfl, ?_, emitLine_eq i⟩
  intro t inc n body
  rw [exec_eq_lexical]

/-! ## Indentation scopes over several section outputs

`Model/SectionScopes.lean`: programs of scopes (on single sections and on the output they belong to) around
the creation of sections and the writes / overwrites / clears on them; a write on an earlier section re-draws
the sections shown below it.  The history a program performs runs on the section model of C15
(`Section.runI`); the theorems of C15 say what the screen shows. -/

/-- **Scopes over sections are lexical, and leave nothing behind.**  For every program (any nesting, exits by
exception included): the history it performs, read as a history of the base model, is the lexical reading -
every write carries its lines behind the indentation the ENCLOSING scopes fix for its section (an empty line
stays empty: `Section.emitLine` is `indentLine` of `indent_lines`), a section created inside scopes on the
output starts from what they fix -; afterwards the output and every section that existed before have the
indentation they had, and an exception propagates exactly when the lexical reading says so. -/
theorem section_scopes_lexical (p : SecScopes.SProg) (e : SecScopes.Env) :
    Section.flat e.ind (SecScopes.compile p e).1 = (SecScopes.lexical p e).1 ∧
    (SecScopes.compile p e).2.1 = { out := e.out, ind := e.ind ++ (SecScopes.lexical p e).2.1 } ∧
    (SecScopes.compile p e).2.2 = (SecScopes.lexical p e).2.2 ∧
    (∀ n l, Section.emitLine n l = indentLine n l) := by
  obtain ⟨h1, _, h3, h4⟩ := SecScopes.compile_lexical p e
  refine ⟨h1, h3, h4, ?_⟩
  intro n l
  rfl

/-- **A re-drawn line keeps the indentation that was in force when it was written.**  For every program over
sections of a decorated output, every width and whatever the output's own indentation `o` is: the sections and
the byte stream are those of the base model on the lexical reading; interpreting the stream on a terminal
shows, below what was there, exactly the contents of all sections in creation order; and these contents are
what the lexical reading asks for (`specStep`: a write appends its lines - each behind the indentation fixed
by the scopes around THAT write -, overwrite replaces, clear drops).  So no line on the screen, re-drawn by a
later operation on a section above it or not, carries any other indentation than the one in force on its
section at the moment it was written. -/
theorem section_redraw_keeps_indent (w : Nat) (hw : 1 ≤ w) (p : SecScopes.SProg) (o : Nat) (above : List Str) :
    let h := (SecScopes.compile p { out := o, ind := [] }).1
    let lx := (SecScopes.lexical p { out := o, ind := [] }).1
    let r := Section.runI true w { secs := [], ind := [] } h
    r.1.secs = (Section.run true w [] lx).1 ∧ r.2 = (Section.run true w [] lx).2 ∧
    (Term.execs w { rows := above, cur := above.length } r.2).rows = above ++ Section.stacked w r.1.secs ∧
    r.1.secs.reverse.map (·.content) = lx.foldl Section.specStep [] := by
  have hl := (section_scopes_lexical p { out := o, ind := [] }).1
  have hs := Clikit.Props.C15.indent_simulates true w (SecScopes.compile p { out := o, ind := [] }).1
  simp only at hl
  rw [hl] at hs
  refine ⟨hs.1, hs.2, ?_, ?_⟩
  · have := (Clikit.Props.C15.screen_refines_indented w hw (SecScopes.compile p { out := o, ind := [] }).1 above).1
    exact this
  · have := Clikit.Props.C15.contents_spec_indented w (SecScopes.compile p { out := o, ind := [] }).1
    rw [hl] at this
    exact this

/-! ## The hypotheses are decided on the real messages and styles

`Balanced`, `ESC ∉ msg`, `'\\' ∉ msg` and `expectedCodes s = some cs` are facts about the generated
messages, about what pastel makes of their tags (the resolver) and about the real `Style`
objects.  `Model/Markup.lean` and `Model/Style.lean` contain executable deciders (`balancedB`,
`cleanB`, `messageOkB`, `specCodes`); the driver evaluates them on every generated message with
the resolver pastel supplied (`c11.render` / `c11.write`, answer field `wf`) and on every style
of the exhaustive table (`c11.sgr`, field `spec`), and the correspondence compares the answers
with `true` resp. with the oracle's own code table. -/

/-- `balancedB` decides "balanced style tags" -/
theorem balanced_decides (rv : Resolver) (toks : List Tok) :
    balancedB rv toks = true ↔ Balanced rv toks :=
  balancedB_iff rv toks

/-- `messageOkB` decides exactly the three hypotheses of `message_balanced` -/
theorem message_ok_decides (rv : Resolver) (msg : Str) :
    messageOkB rv msg = true ↔
      (ESC ∉ msg ∧ '\\' ∉ msg ∧ Balanced rv (seg (lastOr ' ' msg) (lex msg))) :=
  messageOkB_iff rv msg

/-- `balanced_text` with its hypothesis decided -/
theorem balanced_text_decided (rv : Resolver) (toks : List Tok) (hb : balancedB rv toks = true)
    (st : Stack) :
    render rv false st toks = .ok (texts rv toks, st) ∧
    ∃ o, render rv true st toks = .ok (o, st) ∧ (EscFree toks → stripAnsi o = texts rv toks) :=
  balanced_text rv toks ((balancedB_iff rv toks).1 hb) st

/-- `message_balanced` and `message_strip_eq_plain` with all hypotheses decided: for a message the
decider accepts, on every initial stack, plain rendering = stripped decorated rendering = the
tag-stripped text, never an error, stack unchanged, and no escape byte in the plain rendering. -/
theorem message_balanced_decided (rv : Resolver) (st : Stack) (msg : Str)
    (h : messageOkB rv msg = true) :
    plainFormat rv st msg =
      .ok (if hasTag (lex msg) then texts rv (pieces msg) else msg, st) ∧
    stripRes (ansiFormat rv st msg none) = plainFormat rv st msg ∧
    ESC ∉ (if hasTag (lex msg) then texts rv (pieces msg) else msg) := by
  obtain ⟨he, hb, hbal⟩ := (messageOkB_iff rv msg).1 h
  obtain ⟨h1, h2⟩ := message_balanced rv st msg he hb hbal
  refine ⟨h1, message_strip_eq_plain rv st msg he hb, ?_⟩
  split
  · intro hm
    obtain ⟨t, ht, hl, _⟩ := texts_mem rv _ ESC hm
    exact escFree_pieces msg he _ t ht hl
  · exact he

/-- `indent_lines_rendered` with its hypotheses on the text decided -/
theorem indent_lines_rendered_decided (rv : Resolver) (st st' : Stack) (n : Nat) (s o : Str)
    (h : cleanB s = true) :
    (plainFormat rv st (indentText n s) = .ok (o, st') → LinesIndented n o) ∧
    (ansiFormat rv st (indentText n s) none = .ok (o, st') → LinesIndented n (stripAnsi o)) := by
  obtain ⟨he, hb⟩ := (cleanB_iff s).1 h
  obtain ⟨h1, h2⟩ := indent_lines_rendered rv st st' n s o hb
  exact ⟨h1, h2 he⟩

theorem specColour_eq (base : Nat) (o : Option Str) : specColour base o = colourCode base o := by
  cases o <;> rfl

/-- the executable specification the driver answers is the specification of `sgr_exact` -/
theorem spec_codes_decides (s : Style) : specCodes s = expectedCodes s := by
  have ha : specAttrCode = attrCode := by funext a; cases a <;> rfl
  have ho : specAttrOrder = attrOrder := rfl
  simp only [specCodes, expectedCodes, specColour_eq, ha, ho]
  cases colourCode 30 s.fg <;> cases colourCode 40 s.bg <;> rfl

/-- `sgr_exact` with its hypothesis in the executable form the driver evaluates on every style of
the table -/
theorem sgr_exact_decided (s : Style) (cs : List Nat) (h : specCodes s = some cs) (text : Str) :
    ∃ ps, convert s = .ok ps ∧ codes ps = cs ∧ Style.apply ps text = wrap cs text ∧
      (∀ reg, register reg s = .ok (dictSet s.tag ps reg) ∧
              dictGet? s.tag (dictSet s.tag ps reg) = some ps) ∧
      (∀ (rv : Resolver) (t t' : Str) (st : Stack), rv t = .style ps → rv t' = .style ps →
          render rv true st [.open t, .text text, .close t'] =
            .ok (if text.isEmpty then [] else wrap cs text, st)) ∧
      (∀ (rv : Resolver) (st : Stack), hasTag (lex text) = false →
          ansiFormat rv st text (some s) =
            .ok (if (unescape text).isEmpty then [] else wrap cs (unescape text), st)) :=
  sgr_exact s cs (by rw [← spec_codes_decides]; exact h) text

/-- A style passed for a single call is rendered with ITS OWN codes whatever its tag denotes in the
formatter the call goes to: no style, the style of the default set, a built-in one, or a style `r`
registered under the same tag with other colours and attributes (also the same object adjusted after
its registration: the registry holds the converted snapshot). -/
theorem sgr_call_ignores_registered_tag (s r : Style) (cs : List Nat) (h : specCodes s = some cs)
    (reg reg' : Registry) (_hr : r.tag = s.tag) (_hreg : register reg r = .ok reg')
    (st : Stack) (text : Str) (hno : hasTag (lex text) = false) :
    ansiFormat (registryResolver reg') st text (some s) =
      .ok (if (unescape text).isEmpty then [] else wrap cs (unescape text), st) ∧
    ansiFormat (registryResolver reg') st text (some s) = ansiFormat (registryResolver reg) st text (some s) := by
  obtain ⟨_, _, _, _, _, _, hcall⟩ := sgr_exact_decided s cs h text
  exact ⟨hcall _ st hno, by rw [hcall _ st hno, hcall _ st hno]⟩

/-! ## Formatters built from a given style set (round 10)

All message theorems above hold for EVERY resolver, hence for the formatters of every style set.  What a style set
contributes is the registry: only "no style set" (`None`) stands for the default set; a style set OBJECT - also one
holding no style - is registered as it stands, on top of pastel's own four styles, for the ANSI and the plain
formatter alike (both are `formatterRegistry` of the same argument). -/

/-- no style set given: the default one -/
theorem formatter_registry_none : formatterRegistry none = defaultRegistry := rfl

/-- **a style set of size 0 registers nothing**: the formatter knows pastel's own styles only -/
theorem formatter_registry_empty : formatterRegistry (some []) = pastelRegistry := by
  unfold formatterRegistry
  cases pastelRegistry <;> rfl

/-- a default set from which every style was removed is the empty set, whatever the order of the removals -/
theorem style_set_emptied (removed : List Str)
    (h : ∀ s ∈ defaultStyleList, ∃ t, s.tag = some t ∧ t ∈ removed) :
    styleSetOf defaultStyleList removed [] = [] := by
  unfold styleSetOf
  rw [List.append_nil, List.filter_eq_nil_iff]
  intro s hs
  obtain ⟨t, ht, hm⟩ := h s hs
  simp [ht, hm]

/-- **under an empty style set the default tag names that pastel does not know itself are text**: `b`, `u`, `c1`, `c2`
resolve to nothing (so `<b>bold</b>` is printed as it stands, decorated or not - `strip_eq_plain` - and no SGR code is
made up for it), while `info`, `comment`, `question`, `error` stay pastel's styles -/
theorem empty_set_default_tags_are_text :
    ∃ reg, formatterRegistry (some []) = .ok reg ∧
      registryResolver reg ['b'] = .unknown ∧ registryResolver reg ['u'] = .unknown ∧
      registryResolver reg ['c', '1'] = .unknown ∧ registryResolver reg ['c', '2'] = .unknown ∧
      (registryResolver reg ['i', 'n', 'f', 'o'] ≠ .unknown) := by
  rw [formatter_registry_empty]
  exact ⟨_, rfl, by decide, by decide, by decide, by decide, by decide⟩

/-- non-vacuity / the boundary case itself: `<b>x</b>` on the formatters of an empty style set -/
example : ∃ reg, formatterRegistry (some []) = .ok reg ∧
    ansiFormat (registryResolver reg) [] "<b>x</b>".toList none = .ok ("<b>x</b>".toList, []) ∧
    plainFormat (registryResolver reg) [] "<b>x</b>".toList = .ok ("<b>x</b>".toList, []) := by
  rw [formatter_registry_empty]
  exact ⟨_, rfl, by rfl, by rfl⟩

/-- `style_set_emptied` applies to the regenerated default style set with its eight tags removed -/
example : styleSetOf defaultStyleList
    [['i','n','f','o'], ['c','o','m','m','e','n','t'], ['q','u','e','s','t','i','o','n'], ['e','r','r','o','r'],
     ['b'], ['u'], ['c','1'], ['c','2']] [] = [] := by decide

/-- the hypothesis of `style_set_emptied` is decided by `emptiesB` on the regenerated default styles (hypothesis audit,
round 10) -/
theorem empties_decides (removed : List Str) :
    emptiesB defaultStyleList removed = true ↔ ∀ s ∈ defaultStyleList, ∃ t, s.tag = some t ∧ t ∈ removed := by
  unfold emptiesB
  rw [List.all_eq_true]
  constructor
  · intro h s hs
    have hh := h s hs
    cases ht : s.tag with
    | none => rw [ht] at hh; cases hh
    | some t =>
      rw [ht] at hh
      exact ⟨t, rfl, by simpa using hh⟩
  · intro h s hs
    obtain ⟨t, ht, hm⟩ := h s hs
    simp [ht, hm]

/-- ... and the hypothesis is exact: the set is empty after the removals if and only if the decider says so (a style
without a tag, or one whose tag was not removed, stays) -/
theorem style_set_emptied_iff (removed : List Str) :
    styleSetOf defaultStyleList removed [] = [] ↔ emptiesB defaultStyleList removed = true := by
  unfold styleSetOf emptiesB
  rw [List.append_nil, List.filter_eq_nil_iff, List.all_eq_true]
  constructor
  · intro h s hs
    have hh := h s hs
    cases ht : s.tag with
    | none => simp [ht] at hh
    | some t => simpa [ht] using hh
  · intro h s hs
    have hh := h s hs
    cases ht : s.tag with
    | none => rw [ht] at hh; cases hh
    | some t => rw [ht] at hh; simpa [ht] using hh

/-- `style_set_emptied` taking the decider the driver evaluates (`emptied` of `c11.render`, compared with whether the real
`StyleSet` holds no style after the same `remove` calls) -/
theorem style_set_emptied_decided (removed : List Str) (h : emptiesB defaultStyleList removed = true) :
    styleSetOf defaultStyleList removed [] = [] :=
  style_set_emptied removed ((empties_decides removed).mp h)

/-- `style_set_emptied` applied: the eight default tags removed in another order, one of them twice -/
example := style_set_emptied_decided
    [['c','2'], ['b'], ['i','n','f','o'], ['c','o','m','m','e','n','t'], ['b'], ['q','u','e','s','t','i','o','n'],
     ['e','r','r','o','r'], ['u'], ['c','1']] (by decide)
example := style_set_emptied [['c','2'], ['b'], ['i','n','f','o'], ['c','o','m','m','e','n','t'],
     ['q','u','e','s','t','i','o','n'], ['e','r','r','o','r'], ['u'], ['c','1']] ((empties_decides _).mp (by decide))

/-- the decider is not constantly true: with `b` left in, the set is not empty (it holds exactly that style) -/
example : emptiesB defaultStyleList [['i','n','f','o'], ['c','o','m','m','e','n','t'], ['q','u','e','s','t','i','o','n'],
      ['e','r','r','o','r'], ['u'], ['c','1'], ['c','2']] = false ∧
    (styleSetOf defaultStyleList [['i','n','f','o'], ['c','o','m','m','e','n','t'], ['q','u','e','s','t','i','o','n'],
      ['e','r','r','o','r'], ['u'], ['c','1'], ['c','2']] []).map (·.tag) = [some ['b']] ∧
    emptiesB defaultStyleList [] = false ∧ emptiesB [] [] = true := by decide

/-! ## Non-vacuity -/

/-- `sgr_call_ignores_registered_tag`: `zz` is registered as red, the call passes a bold `zz` -/
example : ∃ reg', register [] { tag := some ['z', 'z'], fg := some ['r', 'e', 'd'] } = .ok reg' ∧
    ansiFormat (registryResolver reg') [] ['T'] (some { tag := some ['z', 'z'], bold := true }) =
      .ok (wrap [1] ['T'], []) :=
  ⟨_, rfl, (sgr_call_ignores_registered_tag { tag := some ['z', 'z'], bold := true }
    { tag := some ['z', 'z'], fg := some ['r', 'e', 'd'] } [1] (by decide) [] _ rfl rfl [] ['T'] (by decide)).1⟩

/-- red + bold + underlined: codes 31, 1, 4 in this order, `ESC[31;1;4mT ESC[0m` -/
example : (convert { fg := some ['r', 'e', 'd'], bold := true, underlined := true }).toOption.map
      (fun p => (codes p, Style.apply p ['T'])) =
    some ([31, 1, 4], [ESC, '[', '3', '1', ';', '1', ';', '4', 'm', 'T', ESC, '[', '0', 'm']) := by decide

example : expectedCodes { fg := some ['r', 'e', 'd'], bg := some ['w', 'h', 'i', 't', 'e'], hidden := true } =
    some [31, 107, 8] := by decide

/-- a colour name outside the table is not a style of the quantifier (pastel raises ValueError) -/
example : expectedCodes { fg := some ['p', 'i', 'n', 'k'] } = none ∧
    (convert { fg := some ['p', 'i', 'n', 'k'] }).toOption = none := by decide

def exResolver : Resolver := fun t =>
  if t = ['b'] then .style { opts := [(1, ['b', 'o', 'l', 'd'])] }
  else if t = ['i'] then .style { fg := some 32 }
  else .unknown

/-- `x<i>a<b>c</b></>z<q>`: scanned, cut, rendered in both modes -/
example :
    let msg := ['x', '<', 'i', '>', 'a', '<', 'b', '>', 'c', '<', '/', 'b', '>', '<', '/', '>', 'z', '<', 'q', '>']
    lex msg = [.text ['x'], .open ['i'], .text ['a'], .open ['b'], .text ['c'], .close ['b'], .closeAny,
               .text ['z'], .open ['q']] ∧
    (colorize exResolver false [] msg).toOption = some (['x', 'a', 'c', 'z', '<', 'q', '>'], []) ∧
    (colorize exResolver true [] msg).toOption.map (fun p => stripAnsi p.1) =
      some ['x', 'a', 'c', 'z', '<', 'q', '>'] ∧
    (colorize exResolver true [] msg).toOption.map (fun p => p.1.length) = some 24 := by decide

example : Balanced exResolver [.text ['x'], .open ['i'], .text ['a'], .open ['b'], .text ['c'], .close ['b'],
    .closeAny, .text ['z'], .open ['q']] :=
  .text _ _ (.pairAny ['i'] { fg := some 32 } [.text ['a'], .open ['b'], .text ['c'], .close ['b']] _ (by decide)
    (.text _ _ (.pair ['b'] ['b'] { opts := [(1, ['b', 'o', 'l', 'd'])] } { opts := [(1, ['b', 'o', 'l', 'd'])] }
      [.text ['c']] [] (by decide) (by decide) (by decide)
      (.text _ _ .nil) .nil))
    (.text _ _ (.unknownOpen _ _ (by decide) .nil)))

/-- wrongly nested tags are rejected in both modes -/
example : (render exResolver false [] [.open ['i'], .close ['b']]).toOption = none ∧
    (render exResolver true [] [.open ['i'], .close ['b']]).toOption = none := by decide

/-- indentation 2 on three lines, the middle one empty -/
example : indentText 2 ['a', '\n', '\n', 'b'] = [' ', ' ', 'a', '\n', '\n', ' ', ' ', 'b'] := by decide

example : rstripNl ['a', '\n', 'b', '\n', '\n'] = ['a', '\n', 'b'] := by decide

/-- Two sections; the later-created one shows `bottom` (indentation 0, inside a scope of its own: 2).  The
earlier one writes `top` inside `with top.indent(4)` and - the scope left through an exception that is caught
- `t2` at its own indentation again.  Each write re-draws the lower section AS IT IS: `  bottom` stays behind
two blanks, it does not get the 4 of the writer. -/
private def demoSP : SecScopes.SProg :=
  .seq .create (.seq .create
    (.seq (.scope (.sec 1) false 2 (.act (.write 1 ["bottom".toList])))
      (.seq (.attempt (.scope (.sec 0) false 4 (.seq (.act (.write 0 ["top".toList, []])) .raise)))
        (.act (.write 0 ["t2".toList])))))

example : (SecScopes.compile demoSP { out := 0, ind := [] }).1 =
    [.create 0, .create 0, .indent 1 2, .op (.write 1 ["bottom".toList]), .indent 1 0,
     .indent 0 4, .op (.write 0 ["top".toList, []]), .indent 0 0, .op (.write 0 ["t2".toList])] := by decide

example : (SecScopes.lexical demoSP { out := 0, ind := [] }).1 =
    [.create, .create, .write 1 ["  bottom".toList], .write 0 ["    top".toList, []], .write 0 ["t2".toList]] := by
  decide

example : (Section.runI true 20 { secs := [], ind := [] } (SecScopes.compile demoSP { out := 0, ind := [] }).1).2 =
    [.print "  bottom".toList, .up 1, .eraseBelow, .print "    top".toList, .print [], .print "  bottom".toList,
     .up 1, .eraseBelow, .print "t2".toList, .print "  bottom".toList] := by decide

example := section_scopes_lexical demoSP { out := 0, ind := [] }
example := section_redraw_keeps_indent 20 (by decide) demoSP 0 ["$ run".toList]

/-- what would go wrong if a re-draw went through the writer's indentation again: the lower line would stand
behind 2 + 4 blanks - not what the lexical reading (and the model of the code) says -/
example : Section.emitLine 4 (Section.emitLine 2 "bottom".toList) ≠ Section.emitLine 2 "bottom".toList := by decide

/-- a section created inside a scope on the output inherits what the scope fixes; the scope itself leaves
nothing behind -/
example : SecScopes.compile (.seq (.scope .out true 3 .create) .create) { out := 1, ind := [] } =
    ([.create 4, .create 1], { out := 1, ind := [4, 1] }, false) := by decide

/-- a scope left by an exception that is caught further out: the line after it is back at the
old indentation -/
example :
    exec (.seq (.attempt (.scope .io true 3 (.seq (.line false ['a']) .raise))) (.line false ['b']))
        { out := 1, err := 0 } =
      ([(false, [' ', ' ', ' ', ' ', 'a', '\n']), (false, [' ', 'b', '\n'])], { out := 1, err := 0 }, false) := by
  decide

/-! ### every hypothesis of every theorem above is satisfiable (instances through the theorems) -/

private def exMsg : Str :=
  ['x', '<', 'i', '>', 'a', '<', 'b', '>', 'c', '<', '/', 'b', '>', '<', '/', '>', 'z', '<', 'q', '>']

/-- the decider accepts the example message: no ESC, no backslash, balanced pieces -/
example : messageOkB exResolver exMsg = true := by decide

/-- ... so `message_balanced` (all three hypotheses) applies to it -/
example : plainFormat exResolver [] exMsg = .ok (['x', 'a', 'c', 'z', '<', 'q', '>'], []) := by
  have h := (message_balanced_decided exResolver [] exMsg (by decide)).1
  rw [h]
  rfl

/-- the decider rejects wrongly nested and unclosed tags -/
example : balancedB exResolver [.open ['i'], .close ['b']] = false ∧
    balancedB exResolver [.open ['i'], .text ['a']] = false ∧
    balancedB exResolver [.closeAny] = false := by decide

/-- `strip_eq_plain`: an ESC-free token list -/
example : stripRes (render exResolver true [] [.text ['x'], .open ['i'], .text ['a'], .closeAny]) =
    render exResolver false [] [.text ['x'], .open ['i'], .text ['a'], .closeAny] :=
  strip_eq_plain exResolver _ [] (by unfold EscFree; decide)

/-- `plain_no_escape`: a run that succeeds -/
example : ESC ∉ (['x', 'a'] : Str) :=
  (plain_no_escape exResolver [.text ['x'], .open ['i'], .text ['a'], .closeAny] [] [] ['x', 'a'] rfl).2.2
    (by unfold EscFree; decide)

/-- `message_strip_eq_plain`: a message without ESC and backslash -/
example : stripRes (ansiFormat exResolver [] exMsg none) = plainFormat exResolver [] exMsg :=
  message_strip_eq_plain exResolver [] exMsg (by decide) (by decide)

/-- `sgr_exact`: red, bold -/
example : ∃ ps, convert { fg := some ['r', 'e', 'd'], bold := true } = .ok ps ∧ codes ps = [31, 1] := by
  obtain ⟨ps, h1, h2, _⟩ := sgr_exact_decided { fg := some ['r', 'e', 'd'], bold := true } [31, 1] (by decide) []
  exact ⟨ps, h1, h2⟩

/-- `line_methods_newline`: a VERBOSE message on a verbose plain output passes the gate -/
example : ({ fmt := .plain, formatOutput := false, verbosity := 1 } : Out).call exResolver .writeLineRaw
      ['a', '\n', '\n'] (some 1) =
    .ok (['a', '\n'], { fmt := .plain, formatOutput := false, verbosity := 1 }) :=
  (line_methods_newline exResolver { fmt := .plain, formatOutput := false, verbosity := 1 } ['a', '\n', '\n'] (some 1)
    (by decide)).2.1

/-- `indent_lines_rendered`: a text without backslash and ESC -/
example : LinesIndented 2 [' ', ' ', 'a', '\n', '\n', ' ', ' ', 'b'] :=
  (indent_lines_rendered_decided exResolver [] [] 2 ['a', '\n', '\n', 'b'] _ (by decide)).1 rfl

end Clikit.Props.C11
