import Clikit.Model.Parser
/-!
# C05 - parsing is a pure function of the command line, the format and the mode

`parseFrom prev …` is the model of `DefaultArgsParser.parse` on a parser object whose scratch
dictionaries still hold `prev` from an earlier parse.  Which dictionaries `parse()` re-initialises
is read from the current source on every run (`Gen/C05.lean`), so these theorems are re-checked
against the code as it is: deleting one of the two resets makes `parseFrom_fresh` fail to check.
-/
namespace Clikit.Props.C05
open Clikit Clikit.Parser

/-- Whatever an earlier parse left behind, the result (and the state left behind) is that of a
fresh parser. -/
theorem parseFrom_fresh (prev : St) (cv : Conv) (f : Fmt) (lenient : Bool) (tokens : List Str) :
    parseFrom prev cv f lenient tokens = parseFrom St.empty cv f lenient tokens := by
  simp [parseFrom, parseFromR, Gen.C05.resetsArguments, Gen.C05.resetsOptions]

/-- The result of a parse request issued to a re-used parser object. -/
theorem parseFrom_result (prev : St) (cv : Conv) (f : Fmt) (lenient : Bool) (tokens : List Str) :
    (parseFrom prev cv f lenient tokens).1 = parse cv f lenient tokens := by
  rw [parseFrom_fresh]; rfl

/-- A parse request: conversion tables, format, mode, tokens. -/
structure Req where
  cv : Conv
  fmt : Fmt
  lenient : Bool
  tokens : List Str

/-- Issue a list of requests to ONE parser object, threading its scratch state. -/
def history : St → List Req → List (Except Err Args)
  | _, [] => []
  | σ, r :: rs =>
    let (res, σ') := parseFrom σ r.cv r.fmt r.lenient r.tokens
    res :: history σ' rs

/-- **History independence**: for every sequence of requests - successful or failing, same or
different formats - and every initial state of the parser object, each request gets exactly what
a fresh parser gives for it. -/
theorem history_independent (σ : St) (rs : List Req) :
    history σ rs = rs.map (fun r => parse r.cv r.fmt r.lenient r.tokens) := by
  induction rs generalizing σ with
  | nil => rfl
  | cons r rs ih =>
    simp only [history, List.map_cons]
    rw [ih]
    congr 1

/-! ### The defect D1 (repaired in /repo by "fix: reset the parsed options…"), kept as a proved
counterexample against the pre-fix behaviour: without the reset of `_options` the second of two
requests on one parser differs from a fresh parse. -/

def fooFmt : Fmt :=
  { cmds := [], args := [{ name := "a".toList, required := false, multi := false, ty := .string,
                            nullable := false, default := .scalar .none }],
    opts := [{ long := "foo".toList, short := none, accepts := false, valReq := false, valOpt := false,
               multi := false, ty := .string, nullable := false, default := .scalar .none }] }

def noConv : Conv := { intOf := fun _ => none, floatOf := fun _ => none }

/-- `--foo x` then `y` on one parser object that does not reset `_options`: the second result
reports `foo` as set. -/
theorem leak_without_reset :
    (parseFromR true false
        (parseFromR true false St.empty noConv fooFmt false ["--foo".toList, "x".toList]).2
        noConv fooFmt false ["y".toList]).1
      = .ok { args := [("a".toList, .scalar (.str "y".toList))],
              opts := [("foo".toList, .scalar (.bool true))] }
    ∧ parse noConv fooFmt false ["y".toList]
      = .ok { args := [("a".toList, .scalar (.str "y".toList))], opts := [] } := by
  constructor <;> rfl

/-- Non-vacuity: the history of the witness on the code as it is. -/
example : history St.empty [⟨noConv, fooFmt, false, ["--foo".toList, "x".toList]⟩,
                            ⟨noConv, fooFmt, false, ["y".toList]⟩]
    = [parse noConv fooFmt false ["--foo".toList, "x".toList], parse noConv fooFmt false ["y".toList]] :=
  history_independent _ _

/-- `parseFrom_fresh` / `parseFrom_result` on a parser object whose scratch dictionaries are NOT empty
(none of the C05 theorems has a hypothesis: they hold for every state, request and format) -/
def dirty : St := { args := [(.real "a".toList, .one (.tok "old".toList))], opts := [("foo".toList, .one (.bool true))] }
example : parseFrom dirty noConv fooFmt false ["y".toList] = parseFrom St.empty noConv fooFmt false ["y".toList] :=
  parseFrom_fresh _ _ _ _ _
example : (parseFrom dirty noConv fooFmt false ["y".toList]).1
    = .ok { args := [("a".toList, .scalar (.str "y".toList))], opts := [] } := by
  rw [parseFrom_result]; rfl
example : history dirty [⟨noConv, fooFmt, false, ["y".toList]⟩] = [parse noConv fooFmt false ["y".toList]] :=
  history_independent _ _

end Clikit.Props.C05
