import Clikit.Model.Parser
import Clikit.Model.CommandParse
/-!
# C05 - parsing is a pure function of the command line, the format and the mode

`parseFrom prev …` is the model of `DefaultArgsParser.parse` on a parser object whose scratch
dictionaries still hold `prev` from an earlier parse.  Which dictionaries `parse()` re-initialises
is read from the current source on every run (`Gen/C05.lean`), so these theorems are re-checked
against the code as it is: deleting one of the two resets makes `parseFrom_fresh` fail to check.
-/
namespace Clikit.Props.C05
open Clikit Clikit.Parser

/-- Whatever an earlier parse left behind, the result (and the state left behind) is that of a
fresh parser. -/
theorem parseFrom_fresh (prev : St) (cv : Conv) (f : Fmt) (lenient : Bool) (tokens : List Str) :
    parseFrom prev cv f lenient tokens = parseFrom St.empty cv f lenient tokens := by
  simp [parseFrom, parseFromR, Gen.C05.resetsArguments, Gen.C05.resetsOptions]

/-- The result of a parse request issued to a re-used parser object. -/
theorem parseFrom_result (prev : St) (cv : Conv) (f : Fmt) (lenient : Bool) (tokens : List Str) :
    (parseFrom prev cv f lenient tokens).1 = parse cv f lenient tokens := by
  rw [parseFrom_fresh]; rfl

/-- A parse request: conversion tables, format, mode, tokens. -/
structure Req where
  cv : Conv
  fmt : Fmt
  lenient : Bool
  tokens : List Str

/-- Issue a list of requests to ONE parser object, threading its scratch state. -/
def history : St → List Req → List (Except Err Args)
  | _, [] => []
  | σ, r :: rs =>
    let (res, σ') := parseFrom σ r.cv r.fmt r.lenient r.tokens
    res :: history σ' rs

/-- **History independence**: for every sequence of requests - successful or failing, same or
different formats - and every initial state of the parser object, each request gets exactly what
a fresh parser gives for it. -/
theorem history_independent (σ : St) (rs : List Req) :
    history σ rs = rs.map (fun r => parse r.cv r.fmt r.lenient r.tokens) := by
  induction rs generalizing σ with
  | nil => rfl
  | cons r rs ih =>
    simp only [history, List.map_cons]
    rw [ih]
    congr 1

/-! ### Through `Command.parse(args, lenient=None)`

`Model/CommandParse.lean`: `commandParse σ r` is `Command.parse` of a request `r` (optional explicit mode, what the
command's config answers) on a command whose parser object holds `σ`; the mode handed to the parser is
`Gen.C05.commandMode`, read from the current source of `Command.parse`. -/

/-- An explicitly given mode is the mode of the parse: whatever the command's configuration says and whatever the
parser object parsed before, the result is the fresh parse of (tokens, format, that mode). -/
theorem command_parse_explicit (σ : St) (r : CReq) (b : Bool) (h : r.explicit = some b) :
    (commandParse σ r).1 = parse r.cv r.fmt b r.tokens := by
  simp only [commandParse, h, Gen.C05.commandMode]
  exact parseFrom_result _ _ _ _ _

/-- With the mode omitted the configured leniency is the mode. -/
theorem command_parse_default (σ : St) (r : CReq) (h : r.explicit = none) :
    (commandParse σ r).1 = parse r.cv r.fmt r.configured r.tokens := by
  simp only [commandParse, h, Gen.C05.commandMode]
  exact parseFrom_result _ _ _ _ _

/-- The configuration switch is invisible to a request with an explicit mode: two requests that differ only in
what the config answers give the same result, on any two parser states. -/
theorem command_parse_config_irrelevant (σ σ' : St) (r r' : CReq) (b : Bool)
    (h : r.explicit = some b) (h' : r'.explicit = some b)
    (hcv : r'.cv = r.cv) (hf : r'.fmt = r.fmt) (ht : r'.tokens = r.tokens) :
    (commandParse σ r).1 = (commandParse σ' r').1 := by
  rw [command_parse_explicit σ r b h, command_parse_explicit σ' r' b h', hcv, hf, ht]

/-- **History independence through commands**: for every sequence of requests to commands sharing one parser object
- configuration switched on and off in between, modes given or omitted - each request gets the fresh parse of its
tokens, its format and its mode (the explicit one, else the configured one). -/
theorem command_history_independent (σ : St) (rs : List CReq) :
    commandHistory σ rs
      = rs.map (fun r => parse r.cv r.fmt (r.explicit.getD r.configured) r.tokens) := by
  induction rs generalizing σ with
  | nil => rfl
  | cons r rs ih =>
    simp only [commandHistory, List.map_cons]
    rw [ih]
    congr 1
    cases h : r.explicit with
    | none => simpa [h] using command_parse_default σ r h
    | some b => simpa [h] using command_parse_explicit σ r b h

/-! ### The defect D1 (repaired in /repo by "fix: reset the parsed options…"), kept as a proved
counterexample against the pre-fix behaviour: without the reset of `_options` the second of two
requests on one parser differs from a fresh parse. -/

def fooFmt : Fmt :=
  { cmds := [], args := [{ name := "a".toList, required := false, multi := false, ty := .string,
                            nullable := false, default := .scalar .none }],
    opts := [{ long := "foo".toList, short := none, accepts := false, valReq := false, valOpt := false,
               multi := false, ty := .string, nullable := false, default := .scalar .none }] }

def noConv : Conv := { intOf := fun _ => none, floatOf := fun _ => none }

/-- `--foo x` then `y` on one parser object that does not reset `_options`: the second result
reports `foo` as set. -/
theorem leak_without_reset :
    (parseFromR true false
        (parseFromR true false St.empty noConv fooFmt false ["--foo".toList, "x".toList]).2
        noConv fooFmt false ["y".toList]).1
      = .ok { args := [("a".toList, .scalar (.str "y".toList))],
              opts := [("foo".toList, .scalar (.bool true))] }
    ∧ parse noConv fooFmt false ["y".toList]
      = .ok { args := [("a".toList, .scalar (.str "y".toList))], opts := [] } := by
  constructor <;> rfl

/-- Non-vacuity: the history of the witness on the code as it is. -/
example : history St.empty [⟨noConv, fooFmt, false, ["--foo".toList, "x".toList]⟩,
                            ⟨noConv, fooFmt, false, ["y".toList]⟩]
    = [parse noConv fooFmt false ["--foo".toList, "x".toList], parse noConv fooFmt false ["y".toList]] :=
  history_independent _ _

/-- `parseFrom_fresh` / `parseFrom_result` on a parser object whose scratch dictionaries are NOT empty
(none of the C05 theorems has a hypothesis: they hold for every state, request and format) -/
def dirty : St := { args := [(.real "a".toList, .one (.tok "old".toList))], opts := [("foo".toList, .one (.bool true))] }
example : parseFrom dirty noConv fooFmt false ["y".toList] = parseFrom St.empty noConv fooFmt false ["y".toList] :=
  parseFrom_fresh _ _ _ _ _
example : (parseFrom dirty noConv fooFmt false ["y".toList]).1
    = .ok { args := [("a".toList, .scalar (.str "y".toList))], opts := [] } := by
  rw [parseFrom_result]; rfl
example : history dirty [⟨noConv, fooFmt, false, ["y".toList]⟩] = [parse noConv fooFmt false ["y".toList]] :=
  history_independent _ _

/-- Non-vacuity of the command theorems: a strict request (`y z`: one positional too many) to a command whose config
has lenient parsing switched on is rejected exactly like by a fresh strict parser; omitted, the mode is the config's. -/
example : (commandParse dirty ⟨noConv, fooFmt, some false, true, ["y".toList, "z".toList]⟩).1
    = parse noConv fooFmt false ["y".toList, "z".toList] :=
  command_parse_explicit _ _ false rfl
example : parse noConv fooFmt false ["y".toList, "z".toList] = .error .cannotParse := by rfl
example : (commandParse dirty ⟨noConv, fooFmt, none, true, ["y".toList, "z".toList]⟩).1
    = .ok { args := [("a".toList, .scalar (.str "y".toList))], opts := [] } := by
  rw [command_parse_default _ _ rfl]; rfl
example : commandHistory dirty [⟨noConv, fooFmt, some false, true, ["y".toList, "z".toList]⟩,
                                ⟨noConv, fooFmt, none, true, ["y".toList, "z".toList]⟩]
    = [parse noConv fooFmt false ["y".toList, "z".toList], parse noConv fooFmt true ["y".toList, "z".toList]] :=
  command_history_independent _ _

/-! ## Non-vacuity of the theorems added in rounds 8-9 (hypothesis audit) -/

section AuditR9
open Clikit Clikit.Parser

/-- `command_parse_config_irrelevant` applied: the same strict request to a command configured lenient (parser object
`dirty`) and to one configured strict (fresh parser object) -/
example : (commandParse dirty ⟨noConv, fooFmt, some false, true, ["y".toList, "z".toList]⟩).1
    = (commandParse St.empty ⟨noConv, fooFmt, some false, false, ["y".toList, "z".toList]⟩).1 :=
  command_parse_config_irrelevant _ _ _ _ false rfl rfl rfl rfl rfl

end AuditR9

end Clikit.Props.C05
