import Clikit.Model.Gate
/-!
# C10 - quiet and verbosity gate every write path identically

Theorems about `Gen.mayWrite`, the Lean translation of `Output._may_write` regenerated
from `/repo` on every run (tools/gen_lean.py).  They hold for **all** flag words and all
verbosity values, not only the 4 x 9 table the correspondence run enumerates.
-/
namespace Clikit.Props.C10
open Clikit.Gen Clikit.Gate

/-- The gate lets text through iff the output is not quiet and its verbosity is at least
the lowest level the flags request. -/
theorem mayWrite_iff (q : Bool) (v : Nat) (f : Option Nat) :
    mayWrite q v f = true ↔ (q = false ∧ v ≥ lowest f) := by
  cases f with
  | none => cases q <;> simp [mayWrite, lowest, requested, levels, IOFlags.VERBOSE,
      IOFlags.VERY_VERBOSE, IOFlags.DEBUG, IOFlags.NORMAL]
  | some f =>
    cases h1 : (f &&& 1 != 0) <;> cases h2 : (f &&& 2 != 0) <;> cases h4 : (f &&& 4 != 0) <;>
    cases q <;>
    simp only [mayWrite, lowest, requested, levels, IOFlags.VERBOSE, IOFlags.VERY_VERBOSE,
      IOFlags.DEBUG, IOFlags.NORMAL, Option.getD, List.filter, h1, h2, h4] <;> simp <;> omega

/-- The executable statement of the property agrees with the translated code. -/
theorem mayWrite_eq_shouldWrite (q : Bool) (v : Nat) (f : Option Nat) :
    mayWrite q v f = shouldWrite q v f := by
  have h := mayWrite_iff q v f
  unfold shouldWrite
  cases hq : q <;> cases hm : mayWrite q v f <;> simp_all

/-- Raising the verbosity never removes anything that was shown before. -/
theorem mayWrite_mono_verbosity (q : Bool) (v v' : Nat) (f : Option Nat) (h : v ≤ v')
    (hw : mayWrite q v f = true) : mayWrite q v' f = true := by
  rw [mayWrite_iff] at *
  exact ⟨hw.1, Nat.le_trans hw.2 h⟩

/-- A quiet output writes nothing. -/
theorem quiet_writes_nothing (v : Nat) (f : Option Nat) : mayWrite true v f = false := by
  have := mayWrite_iff true v f
  cases h : mayWrite true v f <;> simp_all

/-- Leaving quiet mode never removes anything that was shown before. -/
theorem mayWrite_unquiet_mono (q : Bool) (v : Nat) (f : Option Nat)
    (hw : mayWrite q v f = true) : mayWrite false v f = true := by
  rw [mayWrite_iff] at *
  exact ⟨rfl, hw.2⟩

/-- Consequence stated in the property: raising the verbosity and/or leaving quiet mode. -/
theorem raising_never_removes (q : Bool) (v v' : Nat) (f : Option Nat) (h : v ≤ v')
    (hw : mayWrite q v f = true) : mayWrite false v' f = true :=
  mayWrite_unquiet_mono q v' f (mayWrite_mono_verbosity q v v' f h hw)

/-- `lowest` really is the least requested level: it is requested (when anything is) and
no requested level is below it. -/
theorem lowest_is_least (f : Option Nat) :
    (requested f = [] → lowest f = IOFlags.NORMAL) ∧
    (requested f ≠ [] → lowest f ∈ requested f) ∧
    (∀ l ∈ requested f, lowest f ≤ l) := by
  cases f with
  | none => simp [lowest, requested, levels, IOFlags.VERBOSE, IOFlags.VERY_VERBOSE, IOFlags.DEBUG]
  | some f =>
    cases h1 : (f &&& 1 != 0) <;> cases h2 : (f &&& 2 != 0) <;> cases h4 : (f &&& 4 != 0) <;>
    simp only [lowest, requested, levels, IOFlags.VERBOSE, IOFlags.VERY_VERBOSE,
      IOFlags.DEBUG, IOFlags.NORMAL, Option.getD, List.filter, h1, h2, h4] <;> simp

/-- The facade: a write through an entry point of the I/O reaches the stream of the output it writes
to iff THAT output is not quiet and ITS verbosity is at least the lowest requested level - whatever
the settings of the other output are - and never reaches the other stream. -/
theorem facade_gated_by_own_output (std err : OutCfg) (f : Option Nat) :
    ((facadeWrite std err .std f).1 = true ↔ (std.quiet = false ∧ std.verbosity ≥ lowest f)) ∧
    (facadeWrite std err .std f).2 = false ∧
    ((facadeWrite std err .err f).2 = true ↔ (err.quiet = false ∧ err.verbosity ≥ lowest f)) ∧
    (facadeWrite std err .err f).1 = false := by
  refine ⟨?_, rfl, ?_, rfl⟩
  · exact mayWrite_iff std.quiet std.verbosity f
  · exact mayWrite_iff err.quiet err.verbosity f

/-- The settings of the other output never matter to a write through the facade. -/
theorem facade_other_irrelevant (std std' err err' : OutCfg) (f : Option Nat) :
    facadeWrite std err .std f = facadeWrite std err' .std f ∧
    facadeWrite std err .err f = facadeWrite std' err .err f := ⟨rfl, rfl⟩

/-- Every writing entry point of the facade writes to one of the two outputs: the four
`write*` to the standard output, the four `error*` to the error output. -/
theorem facade_entry_points :
    (["write", "write_line", "write_raw", "write_line_raw"].map facadeChan).all (· == some .std) = true ∧
    (["error", "error_line", "error_raw", "error_line_raw"].map facadeChan).all (· == some .err) = true := by
  decide

/-- Non-vacuity: a quiet standard output next to a talking error output - `error` shows, `write`
does not; and the other way round. -/
example : facadeWrite ⟨true, 0⟩ ⟨false, 0⟩ .err none = (false, true) ∧
    facadeWrite ⟨true, 0⟩ ⟨false, 0⟩ .std none = (false, false) ∧
    facadeWrite ⟨false, 0⟩ ⟨true, 4⟩ .err none = (false, false) ∧
    facadeWrite ⟨false, 0⟩ ⟨false, 4⟩ .err (some 4) = (false, true) ∧
    facadeWrite ⟨false, 0⟩ ⟨false, 4⟩ .std (some 4) = (false, false) := by decide

/-- Non-vacuity: a DEBUG|VERY_VERBOSE message is shown at VERY_VERBOSE, not at VERBOSE. -/
example : mayWrite false 2 (some 6) = true ∧ mayWrite false 1 (some 6) = false ∧
    lowest (some 6) = 2 := by decide

/-- Non-vacuity of the monotonicity theorems (hypotheses `v ≤ v'` and "was shown before"
discharged): what VERY_VERBOSE shows, DEBUG shows; a quiet output shows nothing, so the premise
of `mayWrite_unquiet_mono` / `raising_never_removes` can only hold for `q = false`. -/
example : mayWrite false 4 (some 6) = true :=
  mayWrite_mono_verbosity false 2 4 (some 6) (by decide) (by decide)

example : mayWrite false 4 (some 1) = true :=
  raising_never_removes false 1 4 (some 1) (by decide) (by decide)

example : mayWrite false 1 (some 5) = true :=
  mayWrite_unquiet_mono false 1 (some 5) (by decide)

/-- `lowest_is_least` on a word with two levels and on the empty word -/
example : requested (some 6) = [2, 4] ∧ lowest (some 6) = 2 ∧ requested none = [] ∧ lowest none = 0 := by
  decide

end Clikit.Props.C10
