import Clikit.Lemmas.Section
import Clikit.Lemmas.SectionIndent
import Clikit.Lemmas.SectionGate
import Clikit.Props.C10
import Clikit.Gen.C15
/-!
# C15 - section outputs keep the screen equal to the stacked section contents

`Clikit.Section` models `SectionOutput` as the code is now (D12, D16 repaired), `Clikit.Term` a
terminal at the level of rows (validated against a character-level emulator with deferred wrap
by the harness).  All theorems quantify over EVERY operation history (any length, any number of
sections, any interleaving of `create | write | overwrite | clear | clear(n)`, also indices
that name no section - those operations do nothing) and every width `w ≥ 1`.

Scope, fixed by the model types and stated where a theorem needs it: a section's content is a
list of logical lines; lines are tab-free and tag-free (the formatter is the identity, a
character is one cell), indentation is 0; for the byte-level statements (`lex_emit`,
`stream_refines`) the written lines contain neither a newline nor ESC (`TextOk`).
Cursor-up is not clamped in the model: the sections are assumed to fit on the visible screen.
-/
namespace Clikit.Props.C15
open Clikit Clikit.Term Clikit.Section

/-! ## the wrapping function is a wrapping function -/

/-- The rows of a printed line, put together, are the line; every row fits the terminal; and
there are `max 1 ⌈ℓ/w⌉` of them - exactly what `SectionOutput._count_rows` computes.  In
particular a line of exactly `w` characters is ONE row (deferred wrap). -/
theorem rows_of_line (w : Nat) (hw : 1 ≤ w) (l : Str) :
    (chunk w l).flatten = l ∧ (∀ r ∈ chunk w l, r.length ≤ w) ∧
    (chunk w l).length = countRows w l ∧
    countRows w l = max 1 ((l.length + w - 1) / w) := by
  refine ⟨chunk_flatten w l, chunk_rows hw l, chunk_length hw l, ?_⟩
  unfold countRows
  generalize (l.length + w - 1) / w = c
  simp only []
  split <;> omega

/-! ## ANSI outputs -/

/-- **The screen always shows the stacked contents.**  Start with any rows `above` on the screen
and the cursor below them (the anchor).  After interpreting everything an arbitrary history
writes, the screen is `above` followed by the contents of all sections in creation order, each
logical line wrapped at the width - nothing stale, nothing lost -, the cursor is on the row after
the last one, and every section's `lines` counter is exactly the number of rows its content
occupies.  `clear(n)` is covered for every `n`, also `0` (= all) and `n` larger than the number
of content lines (= all, see `clearN_beyond`). -/
theorem screen_refines (w : Nat) (hw : 1 ≤ w) (ops : List Op) (above : List Str) :
    let r := run true w [] ops
    let scr := execs w { rows := above, cur := above.length } r.2
    scr.rows = above ++ stacked w r.1 ∧
    scr.cur = scr.rows.length ∧
    ∀ s ∈ r.1, s.rows = (linesRows w s.content).length := by
  have h := run_inv hw above ops [] { rows := above, cur := above.length }
    ⟨by simp [stacked], rfl, by simp⟩
  exact h

/-- The same from any reachable situation (the invariant is inductive): if the screen shows the
stacked contents and the counters are exact, any further history keeps it so. -/
theorem screen_refines_from (w : Nat) (hw : 1 ≤ w) (ops : List Op) (above : List Str)
    (secs : List Sec) (scr : Screen)
    (h1 : scr.rows = above ++ stacked w secs) (h2 : scr.cur = scr.rows.length)
    (h3 : ∀ s ∈ secs, s.rows = (linesRows w s.content).length) :
    let r := run true w secs ops
    let scr' := execs w scr r.2
    scr'.rows = above ++ stacked w r.1 ∧
    scr'.cur = scr'.rows.length ∧
    ∀ s ∈ r.1, s.rows = (linesRows w s.content).length :=
  run_inv hw above ops secs scr ⟨h1, h2, h3⟩

/-- **Nothing lost, nothing kept that was cleared.**  The contents of the sections, in creation
order, are what the operations ask for (`specStep`: write appends, overwrite replaces, clear
empties, clear(n) drops the last n lines) - whatever the newest-first bookkeeping does. -/
theorem contents_spec (w : Nat) (ops : List Op) :
    (run true w [] ops).1.reverse.map (·.content) = ops.foldl specStep [] :=
  run_contents w ops []

/-- `screen_refines` and `contents_spec` together: the screen is a function of the requested
contents alone. -/
theorem screen_is_spec (w : Nat) (hw : 1 ≤ w) (ops : List Op) (above : List Str) :
    (execs w { rows := above, cur := above.length } (run true w [] ops).2).rows
      = above ++ (ops.foldl specStep []).flatMap (linesRows w) := by
  rw [(screen_refines w hw ops above).1, ← contents_spec w ops]
  simp only [stacked]
  generalize (run true w [] ops).1.reverse = l
  induction l with
  | nil => rfl
  | cons s r ih => simp only [List.flatMap_cons, List.map_cons, List.append_cancel_left_eq]; simpa using ih

/-- `clear(n)` beyond the number of content lines is well-behaved: it is a full clear (content
empty, counter 0 when it was exact), and it writes what `clear()` writes. -/
theorem clearN_beyond (w : Nat) (hw : 1 ≤ w) (newer : List Sec) (s : Sec) (n : Nat)
    (hn : s.content.length ≤ n) (hg : s.rows = (linesRows w s.content).length) :
    clearSec w newer s n = clearSec w newer s 0 ∨
    (s.content ≠ [] ∧ (clearSec w newer s n).1 = { content := [], rows := 0 } ∧
      (clearSec w newer s n).2 = (clearSec w newer s 0).2) := by
  by_cases h0 : n = 0
  · subst h0; exact Or.inl rfl
  · cases hc : s.content with
    | nil => left; simp [clearSec, hc]
    | cons a b =>
      right
      have hk : s.content.length - n = 0 := by omega
      have hsum : (s.content.map (countRows w)).sum = s.rows := by
        rw [hg, linesRows_length hw]
      refine ⟨by simp, ?_, ?_⟩
      · simp only [clearSec, h0, if_false, hk, List.take_zero, List.drop_zero, hsum]
        simp [hc]
      · simp only [clearSec, h0, if_false, hk, List.drop_zero, hsum]
        simp

/-! ## bytes and commands -/

/-- Lexing the emitted byte stream gives the command list back (for printed lines without
newline and ESC), so the stream and the command list are interchangeable. -/
theorem lex_emit (cmds : List Cmd) (h : ∀ c ∈ cmds, CmdOk c) : lex (emit cmds) = some cmds :=
  lexF_emit cmds _ (by have := emit_length_ge cmds; omega) h

/-- Everything a history writes lexes back to its command list when the written lines are text. -/
theorem lex_emit_run (ansi : Bool) (w : Nat) (ops : List Op) (hops : ∀ op ∈ ops, OpOk op) :
    lex (emit (run ansi w [] ops).2) = some (run ansi w [] ops).2 :=
  lex_emit _ (run_keeps ansi w ops [] (by simp) hops).2

/-- `screen_refines` stated on the BYTES: the stream of any history of text lines is a sequence
of lines, cursor-up and erase-below codes whose interpretation shows the stacked contents. -/
theorem stream_refines (w : Nat) (hw : 1 ≤ w) (ops : List Op) (hops : ∀ op ∈ ops, OpOk op)
    (above : List Str) :
    ∃ cmds, lex (emit (run true w [] ops).2) = some cmds ∧
      (execs w { rows := above, cur := above.length } cmds).rows
        = above ++ stacked w (run true w [] ops).1 ∧
      (execs w { rows := above, cur := above.length } cmds).cur
        = (above ++ stacked w (run true w [] ops).1).length := by
  refine ⟨_, lex_emit_run true w ops hops, ?_⟩
  have h := screen_refines w hw ops above
  exact ⟨h.1, by rw [h.2.1, h.1]⟩

/-- The control codes of the model are the ones in the source now: `Gen.C15` is regenerated
from `_pop_stream_content_until_current_section` on every run (`"\x1b[{}A".format(n)` with
`str(n)` = decimal digits, and `"\x1b[0J"`). -/
theorem codes_match_source (n : Nat) :
    emitCmd (.up n) = Gen.C15.cursorUpPrefix ++ Nat.toDigits 10 n ++ Gen.C15.cursorUpSuffix ∧
    emitCmd .eraseBelow = Gen.C15.eraseCode := by
  constructor
  · simp [emitCmd, Gen.C15.cursorUpPrefix, Gen.C15.cursorUpSuffix, ESC]
  · decide

/-! ## outputs without ANSI support -/

/-- **Plain outputs degrade to appended lines.**  On an output without ANSI support the stream
of any history is exactly the written lines (of `write` and `overwrite` on existing sections, in
order), each followed by one newline; `clear` writes nothing; nothing is recorded in the sections;
and the stream contains no ESC unless a written line does. -/
theorem plain_degrades (w : Nat) (ops : List Op) :
    let r := run false w [] ops
    emit r.2 = (plainLines 0 ops).flatMap (fun l => l ++ ['\n']) ∧
    (validOps 0 ops = true → emit r.2 = (ops.flatMap opLines).flatMap (fun l => l ++ ['\n'])) ∧
    (∀ s ∈ r.1, s = { content := [], rows := 0 }) ∧
    ((∀ op ∈ ops, ∀ i ls, (op = .write i ls ∨ op = .overwrite i ls) → ∀ l ∈ ls, ESC ∉ l) →
      ESC ∉ emit r.2) := by
  have hc := run_plain_cmds w ops []
  have he : emit (run false w [] ops).2 = (plainLines 0 ops).flatMap (fun l => l ++ ['\n']) := by
    rw [hc, emit_prints]; rfl
  refine ⟨he, ?_, run_plain_state w ops [] (by simp), ?_⟩
  · intro hv
    rw [he, plainLines_valid ops 0 hv]
  · intro hno hmem
    rw [he] at hmem
    simp only [List.mem_flatMap, List.mem_append, List.mem_singleton] at hmem
    obtain ⟨l, hl, hm⟩ := hmem
    rcases hm with hm | hm
    · rcases plainLines_mem ops 0 l hl with h0 | ⟨op, hop, i, ls, hk, hls⟩
      · subst h0; simp at hm
      · exact hno op hop i ls hk l hls hm
    · exact absurd hm (by decide)

/-! ## the hypotheses are decided by the model on every real case

`1 ≤ w` (the width `Terminal().width` reports), "the written lines are text" (`OpOk`) and "the
cursor starts on the row after the rows shown" are facts about the REAL run the model is compared
with.  They are executable (`wfB`, `anchoredB` in Model/Section.lean); the driver answers them for
every generated history (`wf`, `anchored` of entry `c15.run`) and the harness compares with `true`,
so a real case outside the hypotheses shows up as a disagreement instead of passing vacuously. -/

/-- what the driver's `wf` / `anchored` answers mean -/
theorem wf_decides (w : Nat) (ops : List Op) (pre : List Str) :
    (wfB w ops = true ↔ 1 ≤ w ∧ ∀ op ∈ ops, OpOk op) ∧
    (∀ scr : Screen, anchoredB scr = true ↔ scr.cur = scr.rows.length) ∧
    anchoredB (execs w { rows := [], cur := 0 } (pre.map .print)) = true := by
  refine ⟨wfB_iff w ops, fun scr => by simp [anchoredB], ?_⟩
  simpa [anchoredB] using prints_anchored w pre { rows := [], cur := 0 } rfl

/-- `stream_refines` with its hypotheses replaced by the decider the driver evaluates, and started
from ANY anchored screen (e.g. the one the `pre` lines of a harness case leave behind): the byte
stream lexes to commands whose interpretation appends exactly the stacked contents. -/
theorem stream_refines_dec (w : Nat) (ops : List Op) (scr : Screen)
    (hwf : wfB w ops = true) (ha : anchoredB scr = true) :
    ∃ cmds, lex (emit (run true w [] ops).2) = some cmds ∧
      (execs w scr cmds).rows = scr.rows ++ stacked w (run true w [] ops).1 ∧
      (execs w scr cmds).cur = (scr.rows ++ stacked w (run true w [] ops).1).length := by
  obtain ⟨hw, hops⟩ := (wfB_iff w ops).mp hwf
  have hc : scr.cur = scr.rows.length := by simpa [anchoredB] using ha
  have hscr : scr = { rows := scr.rows, cur := scr.rows.length } := by rw [← hc]
  rw [hscr]
  exact stream_refines w hw ops hops scr.rows

/-- On an output without ANSI support the stream of a well-formed history contains no ESC at all
(`plain_degrades` with its side condition decided). -/
theorem plain_no_esc_dec (w : Nat) (ops : List Op) (hwf : wfB w ops = true) :
    ESC ∉ emit (run false w [] ops).2 := by
  obtain ⟨_, hops⟩ := (wfB_iff w ops).mp hwf
  refine (plain_degrades w ops).2.2.2 ?_
  intro op hop i ls hk l hl
  have := hops op hop
  rcases hk with hk | hk <;> subst hk <;> exact (this l hl).2

/-- `clearN_beyond` for every section of every reachable state (its hypothesis `hg` is the third
conjunct of `screen_refines`). -/
theorem clearN_beyond_reachable (w : Nat) (hw : 1 ≤ w) (ops : List Op) (newer : List Sec) (s : Sec)
    (hs : s ∈ (run true w [] ops).1) (n : Nat) (hn : s.content.length ≤ n) :
    clearSec w newer s n = clearSec w newer s 0 ∨
    (s.content ≠ [] ∧ (clearSec w newer s n).1 = { content := [], rows := 0 } ∧
      (clearSec w newer s n).2 = (clearSec w newer s 0).2) :=
  clearN_beyond w hw newer s n hn ((screen_refines w hw ops []).2.2 s hs)

/-! ## sections with indentation

`Model/SectionIndent.lean`: a section inherits the indentation of its output at creation and can change
it later; the recorded lines carry the indentation, an empty line is printed without it. -/

/-- **An indented history is the base history on the indented lines.**  The sections (contents and row
counters) and the stream of any history with indentation are those of the base model after `flat` of it:
every written non-empty line behind the blanks of the section's indentation at that moment, an empty line
as it is. -/
theorem indent_simulates (ansi : Bool) (w : Nat) (iops : List IOp) :
    (runI ansi w { secs := [], ind := [] } iops).1.secs = (run ansi w [] (flat [] iops)).1 ∧
    (runI ansi w { secs := [], ind := [] } iops).2 = (run ansi w [] (flat [] iops)).2 :=
  runI_sim ansi w iops { secs := [], ind := [] }

/-- **The screen shows the stacked (indented) contents.**  `screen_refines` for EVERY history over sections
with indentation - inherited at creation, changed in the middle, smaller or larger than the width, empty
lines included -: the screen is `above` followed by the contents of all sections in creation order (a
redrawn section is NOT indented again: it shows what it holds), the cursor is below, the row counters are
exact. -/
theorem screen_refines_indented (w : Nat) (hw : 1 ≤ w) (iops : List IOp) (above : List Str) :
    let r := runI true w { secs := [], ind := [] } iops
    let scr := execs w { rows := above, cur := above.length } r.2
    scr.rows = above ++ stacked w r.1.secs ∧
    scr.cur = scr.rows.length ∧
    ∀ s ∈ r.1.secs, s.rows = (linesRows w s.content).length := by
  have h := indent_simulates true w iops
  simp only [h.1, h.2]
  exact screen_refines w hw (flat [] iops) above

/-- The contents of indented sections are what the operations ask for: the written lines behind the
indentation the section had when they were written. -/
theorem contents_spec_indented (w : Nat) (iops : List IOp) :
    (runI true w { secs := [], ind := [] } iops).1.secs.reverse.map (·.content)
      = (flat [] iops).foldl specStep [] := by
  rw [(indent_simulates true w iops).1]
  exact contents_spec w (flat [] iops)

/-- A history without any indentation is the base history: all theorems above speak about what the
driver computes for it. -/
theorem indent_free_is_base (ansi : Bool) (w : Nat) (ops : List Op) : ∀ (secs : List Sec),
    (runI ansi w { secs := secs, ind := [] } (ops.map .op)).1.secs = (run ansi w secs ops).1 ∧
    (runI ansi w { secs := secs, ind := [] } (ops.map .op)).2 = (run ansi w secs ops).2 := by
  induction ops with
  | nil => intro secs; exact ⟨rfl, rfl⟩
  | cons o r ih =>
    intro secs
    have h0 : indOf [] (target o) = 0 := by simp [indOf]
    have hstep : stepI ansi w secs 0 o = step ansi w secs o := by
      rw [stepI_eq ansi w secs 0 o, step_padOp_zero]
    simp only [List.map_cons, runI, stepIO, run, h0, hstep]
    exact ⟨(ih _).1, by rw [(ih _).2]⟩

/-! ## sections with the gate (quiet / verbosity / message-level flags)

`Model/SectionGate.lean`: every section has its own quiet flag and verbosity (inherited at creation, set
later); `write_line(text, flags)` asks C10's gate `Gen.mayWrite` BEFORE anything is recorded. -/

/-- **A write the gate suppresses is no operation at all**: the sections (contents, row counters,
indentation, settings) are what they were and nothing reaches the stream - on ANSI and plain outputs, for
every flag word; in the words of the property statement of C10: when the section is quiet or its verbosity
is below the lowest level the flags request. -/
theorem suppressed_write_noop (ansi : Bool) (w : Nat) (g : GState) (i : Nat) (ls : List Str) (f : Option Nat)
    (h : (cfgOf g.cfg i).quiet = true ∨ (cfgOf g.cfg i).verbosity < Gate.lowest f) :
    stepG ansi w g (.write i ls f) = (g, []) := by
  have hp : passes g.cfg i f = false := by
    cases hm : passes g.cfg i f with
    | false => rfl
    | true =>
      have := (Clikit.Props.C10.mayWrite_iff _ _ _).mp hm
      rcases h with h | h
      · rw [this.1] at h; cases h
      · omega
  simp only [stepG, hp, Bool.false_eq_true, if_false]

/-- A write the gate lets through is the write of the indentation layer (flags play no further part). -/
theorem allowed_write_is_write (ansi : Bool) (w : Nat) (g : GState) (i : Nat) (ls : List Str) (f : Option Nat)
    (h : (cfgOf g.cfg i).quiet = false ∧ (cfgOf g.cfg i).verbosity ≥ Gate.lowest f) :
    (stepG ansi w g (.write i ls f)).1.st = (stepIO ansi w g.st (.op (.write i ls))).1 ∧
    (stepG ansi w g (.write i ls f)).2 = (stepIO ansi w g.st (.op (.write i ls))).2 := by
  have hp : passes g.cfg i f = true := (Clikit.Props.C10.mayWrite_iff _ _ _).mpr h
  refine ⟨?_, ?_⟩ <;> simp only [stepG, hp, if_true]

/-- **A call without flags on a quiet section is no operation at all** (D41 repaired): `overwrite`, `clear`,
`clear(n)` and `write_line(text)` on a section that is quiet leave the sections - contents and row counters -
as they are and write nothing, so what the section shows stays what it holds. -/
theorem quiet_op_noop (ansi : Bool) (w : Nat) (g : GState) (o : Op)
    (h : (cfgOf g.cfg (target o)).quiet = true) :
    stepG ansi w g (.op o) = (g, []) := by
  have hp : passes g.cfg (target o) none = false := by
    unfold passes
    rw [h]
    exact Clikit.Props.C10.quiet_writes_nothing _ _
  simp only [stepG, hp, Bool.false_eq_true, if_false]

/-- **A gated history is the history without the suppressed calls.**  For EVERY history the sections and
the stream are those of the indented history `gflat` of it: suppressed writes and the calls on quiet
sections left out. -/
theorem gate_simulates (ansi : Bool) (w : Nat) (gops : List GOp) :
    (runG ansi w { st := { secs := [], ind := [] }, cfg := [] } gops).1.st
      = (runI ansi w { secs := [], ind := [] } (gflat [] gops)).1 ∧
    (runG ansi w { st := { secs := [], ind := [] }, cfg := [] } gops).2
      = (runI ansi w { secs := [], ind := [] } (gflat [] gops)).2 :=
  runG_sim ansi w gops _

/-- **The screen shows the stacked contents under every verbosity.**  `screen_refines` for EVERY
history with flagged writes, per-section quiet and verbosity (changed at any time) and indentation: the
screen is `above` followed by the contents of all sections in creation order - a suppressed write neither
shows nor counts -, the cursor is below, the row counters are exact. -/
theorem screen_refines_gated (w : Nat) (hw : 1 ≤ w) (gops : List GOp) (above : List Str) :
    let r := runG true w { st := { secs := [], ind := [] }, cfg := [] } gops
    let scr := execs w { rows := above, cur := above.length } r.2
    scr.rows = above ++ stacked w r.1.st.secs ∧
    scr.cur = scr.rows.length ∧
    ∀ s ∈ r.1.st.secs, s.rows = (linesRows w s.content).length := by
  have h := gate_simulates true w gops
  simp only [h.1, h.2]
  exact screen_refines_indented w hw (gflat [] gops) above

/-- A history without flags on sections that are neither quiet nor verbose is the indented history. -/
theorem gate_free_is_indented (ansi : Bool) (w : Nat) (ops : List Op) : ∀ (g : GState),
    (∀ c ∈ g.cfg, c.quiet = false) →
    (runG ansi w g (ops.map .op)).1.st = (runI ansi w g.st (ops.map .op)).1 ∧
    (runG ansi w g (ops.map .op)).2 = (runI ansi w g.st (ops.map .op)).2 := by
  induction ops with
  | nil => intro g _; exact ⟨rfl, rfl⟩
  | cons o r ih =>
    intro g hq
    have h0 : (cfgOf g.cfg (target o)).quiet = false := by
      unfold cfgOf
      rw [List.getD_eq_getElem?_getD]
      cases hc : g.cfg[target o]? with
      | none => rfl
      | some c => exact hq c (List.mem_of_getElem? hc)
    have hp : passes g.cfg (target o) none = true := by
      unfold passes
      rw [h0]
      have hl : Gate.lowest none = 0 := by decide
      exact (Clikit.Props.C10.mayWrite_iff _ _ _).mpr ⟨rfl, by rw [hl]; exact Nat.zero_le _⟩
    have h := ih { g with st := (stepIO ansi w g.st (.op o)).1 } hq
    simp only [List.map_cons, runG, stepG, hp, if_true, runI]
    exact ⟨h.1, by rw [h.2]⟩

/-! ## non-vacuity -/

/-- Width 10: the older section has indentation 2 (inherited), the newer none; a write to the older
one prints its line behind two blanks and re-prints the newer section as it is - NOT indented again. -/
private def demoI : List IOp :=
  [.create 2, .create 0, .op (.write 1 ["qrs".toList]), .op (.write 0 ["lmn".toList]),
   .indent 1 3, .op (.write 1 ["x".toList])]

example : (runI true 10 { secs := [], ind := [] } demoI).2 =
    [.print "qrs".toList, .up 1, .eraseBelow, .print "  lmn".toList, .print "qrs".toList,
     .print "   x".toList] := by decide

example : flat [] demoI = [.create, .create, .write 1 ["qrs".toList], .write 0 ["  lmn".toList],
                     .write 1 ["   x".toList]] := by decide

example := screen_refines_indented 10 (by decide) demoI []

/-- an empty line at a positive indentation is recorded and printed empty, one row -/
example : (runI true 10 { secs := [], ind := [] } [.create 2, .op (.write 0 [[]])]) =
      ({ secs := [{ content := [[]], rows := 1 }], ind := [2] }, [.print []]) := by decide

/-- **D38 as it was before the repair** (`writeSecPadAll`: an empty line recorded behind the blanks).
Width 3; the older section shows `A1`, `A2`; the newer one, indentation 4, writes an empty line: ONE empty
row on the screen, but `"    "` recorded and TWO rows counted.  The next write on the older section moves
up two rows and erases `A2`.  With the rule as it is now the screen shows all three lines. -/
example :
    let A1 := "A1".toList; let A2 := "A2".toList; let A3 := "A3".toList
    let a : Sec := { content := [A1, A2], rows := 2 }
    let scr : Screen := { rows := [A1, A2], cur := 2 }
    let old := writeSecPadAll 3 [] { content := [], rows := 0 } 4 [[]]
    let new := writeSecI 3 [] { content := [], rows := 0 } 4 [[]]
    old.1 = { content := ["    ".toList], rows := 2 } ∧ old.2 = [.print []] ∧
    (execs 3 scr (old.2 ++ (writeSec 3 [old.1] a [A3]).2)).rows = [A1, A3, "   ".toList, " ".toList] ∧
    new.1 = { content := [[]], rows := 1 } ∧
    (execs 3 scr (new.2 ++ (writeSec 3 [new.1] a [A3]).2)).rows = [A1, A2, A3, []] := by decide

/-! ### the gate layer -/

private def g0 : GState := { st := { secs := [], ind := [] }, cfg := [] }

/-- Width 10, two sections at NORMAL verbosity.  The newer one shows `b1` and is then given a VERBOSE line:
nothing is recorded, nothing written.  The older section writes: the cursor goes up ONE row (the line that
is shown).  After `set_verbosity(VERBOSE)` the same flagged call appends; a quiet section writes nothing. -/
private def demoG : List GOp :=
  [.create 0 false 0, .create 0 false 0, .write 1 ["b1".toList] none, .write 1 ["vv".toList] (some 1),
   .write 0 ["a1".toList] none, .verbosity 1 1, .write 1 ["v2".toList] (some 1), .quiet 0 true,
   .write 0 ["zz".toList] none, .write 1 ["dd".toList] (some 6)]

example : (runG true 10 g0 demoG).2 =
    [.print "b1".toList, .up 1, .eraseBelow, .print "a1".toList, .print "b1".toList, .print "v2".toList] := by
  decide

example : gflat [] demoG = [.create 0, .create 0, .op (.write 1 ["b1".toList]), .op (.write 0 ["a1".toList]),
    .op (.write 1 ["v2".toList])] := by decide

example := gate_simulates true 10 demoG
example := screen_refines_gated 10 (by decide) demoG ["$ run".toList]
example := suppressed_write_noop true 10 (runG true 10 g0 (demoG.take 3)).1 1 ["vv".toList] (some 1)
  (Or.inr (by decide))
example := allowed_write_is_write true 10 (runG true 10 g0 (demoG.take 6)).1 1 ["v2".toList] (some 1)
  (by decide)

/-- `gate_free_is_indented` applied (hypothesis audit, round 10): two sections, none quiet, the newer one VERBOSE - a
history without flags is the indented history; the hypothesis fails once a section is quiet (then `quiet_op_noop`) -/
example := gate_free_is_indented true 10 [.write 1 ["b2".toList], .clear 0]
  (runG true 10 g0 (demoG.take 6)).1 (by decide)
example : ¬ ∀ c ∈ (runG true 10 g0 (demoG.take 8)).1.cfg, c.quiet = false := by decide

/-- a section that shows a line is made quiet and cleared: nothing happens (it keeps what it shows); after
`set_quiet(False)` the next line goes below -/
private def demoQ : List GOp :=
  [.create 0 false 0, .write 0 ["a1".toList] none, .quiet 0 true, .op (.clear 0), .op (.overwrite 0 ["zz".toList]),
   .quiet 0 false, .write 0 ["a2".toList] none]

example : (runG true 10 g0 demoQ).2 = [.print "a1".toList, .print "a2".toList] ∧
    (runG true 10 g0 demoQ).1.st.secs = [{ content := ["a1".toList, "a2".toList], rows := 2 }] := by decide
example := quiet_op_noop true 10 (runG true 10 g0 (demoQ.take 3)).1 (.clear 0) (by decide)

/-- **D41 as it was before the repair** (`quietSecs`: `clear` on a quiet section dropped the content although
every stream write was gated).  (1) `a1` shown, quiet, `clear()`, not quiet, `a2`: the section held `a2` only,
the screen showed `a1`, `a2`.  (2) two sections showing `a1` / `b1`; the newer one quiet, `overwrite`: it held
nothing and counted 0 rows, so the next write of the older section did not move up at all - the screen showed
`a1`, `b1`, `a2` for the contents `a1`, `a2` / nothing.  With the rule as it is now (`demoQ`, and below) the
quiet calls change nothing and the screen is the stacked contents. -/
example :
    let a : Sec := { content := ["a1".toList], rows := 1 }
    let b : Sec := { content := ["b1".toList], rows := 1 }
    -- (1)
    quietSecs 10 [a] (.clear 0) = [{ content := [], rows := 0 }] ∧
    (writeSec 10 [] { content := [], rows := 0 } ["a2".toList]) =
      ({ content := ["a2".toList], rows := 1 }, [.print "a2".toList]) ∧
    (execs 10 { rows := ["a1".toList], cur := 1 } [.print "a2".toList]).rows = ["a1".toList, "a2".toList] ∧
    -- (2)
    quietSecs 10 [b, a] (.overwrite 1 ["b2".toList]) = [{ content := [], rows := 0 }, a] ∧
    (writeSec 10 [{ content := [], rows := 0 }] a ["a2".toList]).2 = [.print "a2".toList] ∧
    (execs 10 { rows := ["a1".toList, "b1".toList], cur := 2 } [.print "a2".toList]).rows
      = ["a1".toList, "b1".toList, "a2".toList] ∧
    stacked 10 [{ content := [], rows := 0 }, { content := ["a1".toList, "a2".toList], rows := 2 }]
      = ["a1".toList, "a2".toList] ∧
    -- as it is now
    (runG true 10 g0 [.create 0 false 0, .create 0 false 0, .write 0 ["a1".toList] none, .write 1 ["b1".toList] none,
        .quiet 1 true, .op (.overwrite 1 ["b2".toList]), .write 0 ["a2".toList] none]).2
      = [.print "a1".toList, .print "b1".toList, .up 1, .eraseBelow, .print "a2".toList, .print "b1".toList] := by
  decide

/-- what the order "ask the gate, THEN record" is for: had the suppressed line been recorded (content and row
counter as after an ordinary write, nothing on the stream), the next write of the older section would move up
two rows instead of one, erase the plain row above the sections and print the verbose-only line -/
example :
    let a : Sec := { content := [], rows := 0 }
    let b : Sec := { content := ["b1".toList], rows := 1 }
    let scr : Screen := { rows := ["$ run".toList, "b1".toList], cur := 2 }
    let recorded := (writeSec 10 [] b ["vv".toList]).1
    (execs 10 scr (writeSec 10 [recorded] a ["a1".toList]).2).rows
      = ["a1".toList, "b1".toList, "vv".toList] ∧
    (execs 10 scr (writeSec 10 [b] a ["a1".toList]).2).rows = ["$ run".toList, "a1".toList, "b1".toList] := by
  decide

private def a7 : Str := "aaaaaaa".toList
private def b3 : Str := "bbb".toList
private def c5 : Str := "ccccc".toList

/-- Width 5, two sections: a 7-character line wraps into two rows; a later write to the OLDER
section moves up over the newer one, erases, prints and re-prints; `clear(1)` of the wrapped
line moves up over its two rows. -/
private def demo : List Op :=
  [.create, .create, .write 0 [a7], .write 1 [b3], .write 0 [c5, []], .clearN 0 2, .overwrite 1 [a7]]

example : (run true 5 [] demo).2 =
    [.print a7, .print b3,
     .up 1, .eraseBelow, .print c5, .print [], .print b3,
     .up 3, .eraseBelow, .print b3,
     .up 1, .eraseBelow, .print a7] := by decide

example : execs 5 { rows := ["$ run".toList], cur := 1 } (run true 5 [] demo).2 =
    { rows := ["$ run".toList, "aaaaa".toList, "aa".toList, "aaaaa".toList, "aa".toList], cur := 5 } := by
  decide

example : (run true 5 [] demo).1 = [{ content := [a7], rows := 2 }, { content := [a7], rows := 2 }] := by
  decide

/-- a line of exactly the width is one row, one more character makes two -/
example : chunk 5 c5 = [c5] ∧ chunk 5 (c5 ++ ['x']) = [c5, ['x']] ∧ chunk 5 [] = [[]] := by decide

/-- the bytes of the first write over a newer section -/
example : emit (step true 5 [{ content := [b3], rows := 1 }, { content := [], rows := 0 }] (.write 0 [c5])).2
    = [ESC, '[', '1', 'A', ESC, '[', '0', 'J'] ++ "ccccc\nbbb\n".toList := by decide

/-- D16 as it was before the repair (`clear(1)` moved the cursor up by ONE row although the
removed line occupied two): a stale row stays.  The repaired count removes both. -/
example :
    let scr := execs 5 { rows := [], cur := 0 } [.print b3, .print a7]
    (execs 5 scr [.up 1, .eraseBelow]).rows = [b3, "aaaaa".toList] ∧
    (execs 5 scr (clearSec 5 [] { content := [b3, a7], rows := 3 } 1).2).rows = [b3] := by decide

/-- plain output: appended lines, `clear` and `overwrite` erase nothing -/
example : emit (run false 5 [] [.create, .write 0 [b3], .clear 0, .overwrite 0 [c5, b3]]).2
    = "bbb\nccccc\nbbb\n".toList := by decide

/-! ### every theorem with hypotheses, applied to the demo history (all hypotheses discharged) -/

example : wfB 5 demo = true ∧ validOps 0 demo = true := by decide

example := rows_of_line 5 (by decide) a7
example := screen_refines 5 (by decide) demo ["$ run".toList]
example := screen_is_spec 5 (by decide) demo ["$ run".toList]

/-- `screen_refines_from`: the state after `demo` (two sections holding `a7`, counters 2) with the
screen showing them; two more operations -/
example := screen_refines_from 5 (by decide) [.write 1 [b3], .clearN 0 1] ["$ run".toList]
  [{ content := [a7], rows := 2 }, { content := [a7], rows := 2 }]
  { rows := ["$ run".toList, "aaaaa".toList, "aa".toList, "aaaaa".toList, "aa".toList], cur := 5 }
  (by decide) (by decide) (by decide)

/-- `clearN_beyond`: `clear(5)` on a section of two lines (three rows) -/
example := clearN_beyond 5 (by decide) [] { content := [b3, a7], rows := 3 } 5 (by decide) (by decide)
example := clearN_beyond_reachable 5 (by decide) demo [] { content := [a7], rows := 2 } (by decide) 3
  (by decide)

/-- `lex_emit`, `lex_emit_run`, `stream_refines`: the demo lines are text -/
example := lex_emit (run true 5 [] demo).2 (fun c hc => (run_keeps true 5 demo [] (by simp)
  (((wfB_iff 5 demo).mp (by decide)).2)).2 c hc)
example := lex_emit_run true 5 demo ((wfB_iff 5 demo).mp (by decide)).2
example := stream_refines 5 (by decide) demo ((wfB_iff 5 demo).mp (by decide)).2 ["$ run".toList]
example := stream_refines_dec 5 demo { rows := ["$ run".toList], cur := 1 } (by decide) (by decide)
example := plain_no_esc_dec 5 demo (by decide)

/-- the decider is not constantly true: a line with ESC or a newline, and width 0, are rejected -/
example : wfB 5 [.create, .write 0 [[ESC, '[', '0', 'J']]] = false ∧
    wfB 5 [.create, .overwrite 0 ["a\nb".toList]] = false ∧ wfB 0 demo = false := by decide

end Clikit.Props.C15
