import Clikit.Lemmas.Help
import Clikit.Lemmas.HelpSame
import Clikit.Lemmas.HelpWired
import Clikit.Props.C03
import Clikit.Props.C09
import Clikit.Lemmas.AppHelp
/-!
# C13 - help pages are complete, respect hiding, fit the terminal and never fail

Theorems about the model `Clikit.Help` of `ApplicationHelp` / `CommandHelp` / `BlockLayout` /
`LabelAlignment` / `LabeledParagraph` / `Paragraph` and of the help resolver, for every
configuration tree, every terminal width and every `wrap` function that satisfies the length
contract of `textwrap.wrap` (`WrapLen`: every returned line fits the requested width).  They
are instantiated with the two textwrap models `Clikit.Wrap.wrap` and `Clikit.Help.wrapH`.
-/
namespace Clikit.Props.C13
open Clikit Clikit.Parser Clikit.Resolver Clikit.Help

/-! ## Rendering never fails on a terminal that is wide enough -/

/-- **`help_total`**.  On a terminal at least as wide as the longest label plus its offset
plus 2 (`widthOK`, decidable) rendering a page succeeds: `textwrap.wrap` is never called with
a width below 1 (the `ValueError` branch) and never with a `None` text (the `AttributeError`
branch; argument / option descriptions are `None` when absent - the D14 repair `or ""`);
the help text must be free of braces (`formatOK`, the `str.format` branch).
Part 1: the application page, part 2: a command page, part 3: every width handed to
`textwrap.wrap` is ≥ 1, part 4: the margin is exact - on a narrower terminal rendering fails. -/
theorem help_total (wrap : Nat → Str → List Str) (w : Nat) (app : HApp) (x : Ctx) (c : HCmd) :
    (formatOK app.help = true → widthOK w (applicationHelp app) = true →
      ∃ s, renderApplicationHelp wrap w app = .ok s) ∧
    (formatOK c.help = true → widthOK w (commandHelp app x c) = true →
      ∃ s, renderCommandHelp wrap w app x c = .ok s) ∧
    (∀ p : Page, widthOK w p = true → ∀ call ∈ wrapCalls w p, 1 ≤ call.1) ∧
    (∀ p : Page, widthOK w p = false → ∀ s, renderPage wrap w p ≠ .ok s) := by
  refine ⟨?_, ?_, ?_, ?_⟩
  · intro hf hw
    unfold renderApplicationHelp renderPage
    rw [hf]
    simp only [Bool.not_true, Bool.false_eq_true, if_false]
    apply renderAll_ok
    intro ie hie
    exact ⟨allText_application app ie hie, (widthOK_iff w _).mp hw ie hie⟩
  · intro hf hw
    unfold renderCommandHelp renderPage
    rw [hf]
    simp only [Bool.not_true, Bool.false_eq_true, if_false]
    apply renderAll_ok
    intro ie hie
    exact ⟨allText_command app x c ie hie, (widthOK_iff w _).mp hw ie hie⟩
  · intro p hw call hc
    unfold wrapCalls at hc
    obtain ⟨ie, hie, hm⟩ := List.mem_filterMap.mp hc
    have hok := (widthOK_iff w p).mp hw ie hie
    cases he : ie.2 with
    | emptyLine => rw [he] at hm; simp [wrapText] at hm
    | paragraph t =>
      rw [he] at hm hok
      simp only [wrapText, Option.some.injEq] at hm
      rcases hok with h | h
      · cases h
      · rw [← hm]; simp only; omega
    | labeled l t q a =>
      rw [he] at hm hok
      rcases hok with h | h
      · cases h
      · cases t with
        | none => simp [wrapText] at hm
        | some t' =>
          simp only [wrapText, Option.some.injEq] at hm
          rw [← hm]; simp only; omega
  · intro p hw s
    unfold renderPage
    apply renderAll_fail
    unfold widthOK at hw
    rw [List.all_eq_false] at hw
    obtain ⟨ie, hie, hbad⟩ := hw
    refine ⟨ie, hie, ?_, ?_⟩
    · intro he; rw [he] at hbad; exact hbad rfl
    · intro hle
      apply hbad
      cases he : ie.2 with
      | emptyLine => rfl
      | paragraph t => rw [he] at hle; simpa using hle
      | labeled l t q a => rw [he] at hle; simpa using hle

/-- the `None` branch is real: a labeled paragraph without text fails, as `textwrap.wrap(None)`
did before the D14 repair -/
example (wrap : Nat → Str → List Str) :
    renderElement wrap 80 10 2 (.labeled (S "<a1>") none 2 true) = .error (.other "AttributeError") := rfl

/-! ## Completeness -/

/-- **`help_complete`**.  A command page lists every argument (inherited ones first), every
own option, every inherited / global option, and - when sibling names are distinct - every
enabled, named, non-hidden sub-command; the application page lists every global option and
every enabled, named, non-hidden command.  (`help_names` below: an option label shows the
preferred and the alternative name; `help_inherits`: what a command inherits.) -/
theorem help_complete (app : HApp) (x : Ctx) (c : HCmd) :
    (∀ a ∈ x.args ++ c.args, (2, argElem a) ∈ commandHelp app x c) ∧
    (∀ o ∈ c.opts, (2, optElem o) ∈ commandHelp app x c) ∧
    (∀ o ∈ x.opts, (2, optElem o) ∈ commandHelp app x c) ∧
    (((live c.subs).map (·.name)).Nodup → ∀ d ∈ c.subs, d.enabled = true → d.anonymous = false →
      d.hidden = false → (2, Element.paragraph (tagU d.name)) ∈ commandHelp app x c) ∧
    (∀ o ∈ app.opts, (2, optElem o) ∈ applicationHelp app) ∧
    (((live app.cmds).map (·.name)).Nodup → ∀ d ∈ app.cmds, d.enabled = true → d.anonymous = false →
      d.hidden = false → (2, Element.labeled d.name (some d.descr) 2 true) ∈ applicationHelp app) := by
  refine ⟨?_, ?_, ?_, ?_, ?_, ?_⟩
  · intro a ha
    have hne : (x.enter c).args.isEmpty = false := isEmpty_false_of_mem (x := a) (by simpa [Ctx.enter] using ha)
    have hm := mem_argumentsSection (x.enter c).args a (by simpa [Ctx.enter] using ha)
    simp only [commandHelp, hne, List.mem_append]
    exact Or.inl (Or.inl (Or.inl (Or.inl (Or.inr hm))))
  · intro o ho
    have hne := isEmpty_false_of_mem ho
    have hm := mem_optionsSection "OPTIONS" c.opts o ho
    simp only [commandHelp, hne, List.mem_append]
    exact Or.inl (Or.inl (Or.inr hm))
  · intro o ho
    have hne := isEmpty_false_of_mem ho
    have hm := mem_optionsSection "GLOBAL OPTIONS" x.opts o ho
    simp only [commandHelp, hne, List.mem_append]
    exact Or.inl (Or.inr hm)
  · intro hn d hd he ha hh
    have hne := named_nonempty_of_mem c.subs hn d hd he ha
    have hm := mem_subCommandsSection c d (visibleNamed_complete c.subs hn d hd he ha hh)
    simp only [commandHelp, hne, List.mem_append]
    exact Or.inl (Or.inl (Or.inl (Or.inr hm)))
  · intro o ho
    have hne := isEmpty_false_of_mem ho
    have hm := mem_optionsSection "GLOBAL OPTIONS" app.opts o ho
    simp only [applicationHelp, hne, List.mem_append]
    exact Or.inl (Or.inl (Or.inr hm))
  · intro hn d hd he ha hh
    have hne := named_nonempty_of_mem app.cmds hn d hd he ha
    have hm := mem_appCommandsSection app.cmds d (visibleNamed_complete app.cmds hn d hd he ha hh)
    simp only [applicationHelp, hne, List.mem_append]
    exact Or.inl (Or.inr hm)

/-- the label of an option shows the long name, and the short name when there is one - the
preferred name first (`optLabel`), the alternative in parentheses -/
theorem help_names (o : HOpt) :
    longText o <:+: optLabel o ∧ (∀ x, o.short = some x → x ≠ [] → shortText o <:+: optLabel o) ∧
    (o.preferLong = true → longText o <+: optLabel o) ∧ (o.preferLong = false → shortText o <+: optLabel o) := by
  refine ⟨longText_infix o, shortText_infix o, ?_, ?_⟩
  · intro h; unfold optLabel; rw [if_pos h]; exact ⟨_, rfl⟩
  · intro h; unfold optLabel; rw [if_neg (by simp [h])]
    exact ⟨S " (" ++ longText o ++ S ")", by simp [List.append_assoc]⟩

/-- inherited = what the ancestors declare: the command found under a name path gets the
context of a chain of commands, and that context holds the global options, every option and
every argument of every command of the chain -/
theorem help_inherits (app : HApp) (path : List Str) (y : Ctx) (c : HCmd)
    (h : findPath app.ctx app.cmds path = some (y, c)) :
    ∃ chain : List HCmd, y = app.ctx.enterAll chain ∧
      (∀ o ∈ app.opts, o ∈ y.opts) ∧ (∀ a ∈ chain, ∀ o ∈ a.opts, o ∈ y.opts) ∧
      (∀ a ∈ chain, ∀ g ∈ a.args, g ∈ y.args) := by
  obtain ⟨chain, hc⟩ := findPath_ctx path app.ctx app.cmds y c h
  refine ⟨chain, hc, ?_, ?_, ?_⟩
  · intro o ho; rw [hc]; exact enterAll_opts_base chain app.ctx o ho
  · intro a ha o ho; rw [hc]; exact enterAll_opts_chain chain app.ctx a o ha ho
  · intro a ha g hg; rw [hc]; exact enterAll_args_chain chain app.ctx a g ha hg

/-! ## Hiding -/

/-- **`help_hides`**.  Every command entry of a page comes from a configuration that is
enabled (disabled configurations never become commands), named (not anonymous) and not hidden:
the name lines of the COMMANDS block of a command page, the labels of the AVAILABLE COMMANDS
block of the application page.  With distinct sibling names: a hidden or disabled command's
name is not among the entries. -/
theorem help_hides (app : HApp) (c : HCmd) :
    (∀ t, (2, Element.paragraph t) ∈ subCommandsSection c →
      ∃ d ∈ c.subs, t = tagU d.name ∧ d.enabled = true ∧ d.anonymous = false ∧ d.hidden = false) ∧
    (∀ i l t p a, (i, Element.labeled l t p a) ∈ appCommandsSection app.cmds →
      ∃ d ∈ app.cmds, l = d.name ∧ d.enabled = true ∧ d.anonymous = false ∧ d.hidden = false) ∧
    ((c.subs.map (·.name)).Nodup → ∀ d ∈ c.subs, (d.hidden = true ∨ d.enabled = false ∨ d.anonymous = true) →
      (2, Element.paragraph (tagU d.name)) ∉ subCommandsSection c) ∧
    ((app.cmds.map (·.name)).Nodup → ∀ d ∈ app.cmds, (d.hidden = true ∨ d.enabled = false ∨ d.anonymous = true) →
      ∀ i t p a, (i, Element.labeled d.name t p a) ∉ appCommandsSection app.cmds) := by
  have key := eq_of_nodup_names
  refine ⟨?_, ?_, ?_, ?_⟩
  · intro t ht
    obtain ⟨d, hd, rfl⟩ := subCommandsSection_entries c t ht
    obtain ⟨h1, h2, h3, h4⟩ := mem_visibleNamed c.subs d hd
    exact ⟨d, h1, rfl, h2, h3, h4⟩
  · intro i l t p a ht
    obtain ⟨d, hd, rfl⟩ := appCommandsSection_entries app.cmds l t p a i ht
    obtain ⟨h1, h2, h3, h4⟩ := mem_visibleNamed app.cmds d hd
    exact ⟨d, h1, rfl, h2, h3, h4⟩
  · intro hn d hd hbad hin
    obtain ⟨d', hd', he⟩ := subCommandsSection_entries c _ hin
    obtain ⟨h1, h2, h3, h4⟩ := mem_visibleNamed c.subs d' hd'
    have := key c.subs hn d hd d' h1 (tagU_inj _ _ he).symm
    subst this
    rcases hbad with h | h | h <;> simp_all
  · intro hn d hd hbad i t p a hin
    obtain ⟨d', hd', he⟩ := appCommandsSection_entries app.cmds _ t p a i hin
    obtain ⟨h1, h2, h3, h4⟩ := mem_visibleNamed app.cmds d' hd'
    have := key app.cmds hn d hd d' h1 he.symm
    subst this
    rcases hbad with h | h | h <;> simp_all

/-! ## Width -/

/-- **`help_width`**.  Whatever the width, if rendering a page succeeds (by `help_total`: if
`widthOK`) then every line of the visible text (`page.split("\n")`, style tags removed) is
shorter than the terminal - from the contract of `wrap` and the offset arithmetic of
`LabeledParagraph` / `Paragraph`. -/
theorem help_width (wrap : Nat → Str → List Str) (hwrap : WrapLen wrap) (w : Nat) (p : Page) (s : Str)
    (h : renderPage wrap w p = .ok s) : ∀ l ∈ pageLines s, l.length ≤ w - 1 :=
  lines_of_fits (w - 1) s (renderAll_fits wrap hwrap w (align p) p s h)

/-- `help_width` for the two pages and the two textwrap models -/
theorem help_width_pages (w : Nat) (app : HApp) (x : Ctx) (c : HCmd) (s : Str) :
    (renderApplicationHelp Clikit.Wrap.wrap w app = .ok s → ∀ l ∈ pageLines s, l.length ≤ w - 1) ∧
    (renderCommandHelp Clikit.Wrap.wrap w app x c = .ok s → ∀ l ∈ pageLines s, l.length ≤ w - 1) ∧
    (renderApplicationHelp wrapH w app = .ok s → ∀ l ∈ pageLines s, l.length ≤ w - 1) ∧
    (renderCommandHelp wrapH w app x c = .ok s → ∀ l ∈ pageLines s, l.length ≤ w - 1) := by
  refine ⟨?_, ?_, ?_, ?_⟩ <;> intro h
  · unfold renderApplicationHelp at h
    split at h
    · cases h
    · exact help_width _ wrapLen_wrap w _ s h
  · unfold renderCommandHelp at h
    split at h
    · cases h
    · exact help_width _ wrapLen_wrap w _ s h
  · unfold renderApplicationHelp at h
    split at h
    · cases h
    · exact help_width _ wrapLen_wrapH w _ s h
  · unfold renderCommandHelp at h
    split at h
    · cases h
    · exact help_width _ wrapLen_wrapH w _ s h

/-! ## Pages rendered at an outer indentation: `Component.render(io, indentation)` -/

/-- indentation 0 is the plain rendering -/
theorem help_indent_zero (wrap : Nat → Str → List Str) (w : Nat) (p : Page) :
    renderPageAt wrap w 0 p = renderPage wrap w p := by
  unfold renderPageAt renderPage
  rw [shift_zero, Nat.add_zero]

/-- **`help_total_indented`**.  `help_total` for a page rendered with the optional parameter
`indentation = k`: on a terminal at least as wide as the outer indentation plus the longest label
plus its offset plus 2 (`widthOKAt`) rendering succeeds (parts 1, 2), every width handed to
`textwrap.wrap` is ≥ 1 (part 3), and the margin is exact (part 4). -/
theorem help_total_indented (wrap : Nat → Str → List Str) (w k : Nat) (app : HApp) (x : Ctx) (c : HCmd) :
    (formatOK app.help = true → widthOKAt w k (applicationHelp app) = true →
      ∃ s, renderApplicationHelpAt wrap w k app = .ok s) ∧
    (formatOK c.help = true → widthOKAt w k (commandHelp app x c) = true →
      ∃ s, renderCommandHelpAt wrap w k app x c = .ok s) ∧
    (∀ p : Page, widthOKAt w k p = true → ∀ call ∈ wrapCallsAt w k p, 1 ≤ call.1) ∧
    (∀ p : Page, widthOKAt w k p = false → ∀ s, renderPageAt wrap w k p ≠ .ok s) := by
  refine ⟨?_, ?_, ?_, ?_⟩
  · intro hf hw
    unfold renderApplicationHelpAt renderPageAt
    rw [hf]
    simp only [Bool.not_true, Bool.false_eq_true, if_false]
    apply renderAll_ok
    apply elemOK_shift
    intro ie hie
    exact ⟨allText_application app ie hie, (widthOKAt_iff w k _).mp hw ie hie⟩
  · intro hf hw
    unfold renderCommandHelpAt renderPageAt
    rw [hf]
    simp only [Bool.not_true, Bool.false_eq_true, if_false]
    apply renderAll_ok
    apply elemOK_shift
    intro ie hie
    exact ⟨allText_command app x c ie hie, (widthOKAt_iff w k _).mp hw ie hie⟩
  · intro p hw call hc
    unfold wrapCallsAt at hc
    obtain ⟨ie, hie, hm⟩ := List.mem_filterMap.mp hc
    have hok := (widthOKAt_iff w k p).mp hw ie hie
    cases he : ie.2 with
    | emptyLine => rw [he] at hm; simp [wrapText] at hm
    | paragraph t =>
      rw [he] at hm hok
      simp only [wrapText, Option.some.injEq] at hm
      rcases hok with h | h
      · cases h
      · rw [← hm]; simp only; omega
    | labeled l t q a =>
      rw [he] at hm hok
      rcases hok with h | h
      · cases h
      · cases t with
        | none => simp [wrapText] at hm
        | some t' =>
          simp only [wrapText, Option.some.injEq] at hm
          rw [← hm]; simp only; omega
  · intro p hw s
    unfold renderPageAt
    apply renderAll_fail
    unfold widthOKAt at hw
    rw [List.all_eq_false] at hw
    obtain ⟨ie, hie, hbad⟩ := hw
    refine ⟨(ie.1 + k, ie.2), ?_, ?_, ?_⟩
    · unfold shift; exact List.mem_map.mpr ⟨ie, hie, rfl⟩
    · intro he; simp only at he; rw [he] at hbad; exact hbad rfl
    · intro hle
      apply hbad
      have hne : ie.2 ≠ .emptyLine := by
        intro he; rw [he] at hbad; exact hbad rfl
      simp only at hle
      rw [need_shift _ _ _ _ hne] at hle
      cases he : ie.2 with
      | emptyLine => rfl
      | paragraph t => rw [he] at hle; simpa using hle
      | labeled l t q a => rw [he] at hle; simpa using hle

/-- **`help_width_indented`**.  `help_width` for a page rendered with `indentation = k`: the
elements are handed the outer indentation (it is part of the width they wrap to), so every line
of the visible text - the outer indentation included - is still shorter than the terminal. -/
theorem help_width_indented (wrap : Nat → Str → List Str) (hwrap : WrapLen wrap) (w k : Nat) (p : Page) (s : Str)
    (h : renderPageAt wrap w k p = .ok s) : ∀ l ∈ pageLines s, l.length ≤ w - 1 :=
  lines_of_fits (w - 1) s (renderAll_fits wrap hwrap w (align p + k) (shift k p) s h)

/-- `help_width_indented` for the two pages and the two textwrap models -/
theorem help_width_pages_indented (w k : Nat) (app : HApp) (x : Ctx) (c : HCmd) (s : Str) :
    (renderApplicationHelpAt Clikit.Wrap.wrap w k app = .ok s → ∀ l ∈ pageLines s, l.length ≤ w - 1) ∧
    (renderCommandHelpAt Clikit.Wrap.wrap w k app x c = .ok s → ∀ l ∈ pageLines s, l.length ≤ w - 1) ∧
    (renderApplicationHelpAt wrapH w k app = .ok s → ∀ l ∈ pageLines s, l.length ≤ w - 1) ∧
    (renderCommandHelpAt wrapH w k app x c = .ok s → ∀ l ∈ pageLines s, l.length ≤ w - 1) := by
  refine ⟨?_, ?_, ?_, ?_⟩ <;> intro h
  · unfold renderApplicationHelpAt at h
    split at h
    · cases h
    · exact help_width_indented _ wrapLen_wrap w k _ s h
  · unfold renderCommandHelpAt at h
    split at h
    · cases h
    · exact help_width_indented _ wrapLen_wrap w k _ s h
  · unfold renderApplicationHelpAt at h
    split at h
    · cases h
    · exact help_width_indented _ wrapLen_wrapH w k _ s h
  · unfold renderCommandHelpAt at h
    split at h
    · cases h
    · exact help_width_indented _ wrapLen_wrapH w k _ s h

/-- non-vacuity: a labeled paragraph at outer indentation 4 wraps four columns earlier -/
example : (renderElement wrapH 30 (16 + 4) (2 + 4)
    (.labeled (S "<a1>") (some (S "aaaa bbbb cccc dddd")) 2 true)).toOption.isSome = true := by decide

/-- the contract holds for both textwrap models (length; content preservation is
`Clikit.Wrap.wrap_content` / `Clikit.Help.wrapH_content`) -/
theorem help_wrap_contract :
    WrapLen Clikit.Wrap.wrap ∧ WrapLen wrapH ∧
    (∀ w text, 1 ≤ w → Clikit.Wrap.nonblank (wrapH w text).flatten = Clikit.Wrap.nonblank text) :=
  ⟨wrapLen_wrap, wrapLen_wrapH, fun w text hw => wrapH_content w hw text⟩

/-! ## `help <path>` and `<path> --help` -/

/-- `args.is_argument_set("command")`: did the `help` command receive names? -/
def helpArgSet (a : Args) : Bool := dictHas (S "command") a.args

/-- The statement relative to three facts about the parser: `help <path>` resolves to the
`help` command which receives the path as its `command` argument, the listener finds the `help`
command and its lenient parse of `<path> sw` receives the same path, and the switch changes no
parse outcome under any format (`ParseAgree`).  `help_same_page_partial` proves exactly this
(for any switch token starting with `-` and any wiring of the `help` command);
`help_same_page_default` below DISCHARGES the three facts for the default configuration from
the shape of the command tree, with no hypothesis about what the parser returns. -/
def help_same_page_full : Prop :=
  ∀ (cv : Conv) (app : List Cmd) (path : List Str) (sw : Str) (h : Cmd) (a a' : Args),
    (∀ p ∈ path, C03.nameLike p = true) → path.head? ≠ some helpName → sw.head? = some '-' →
    hasSwitch (helpName :: path) = false → hasSwitch (path ++ [sw]) = true →
    resolve cv app (helpName :: path) = .ok ([helpName], a) →
    (Coll.ofList app).get? helpName = some h → parse cv h.fmt true (path ++ [sw]) = .ok a' →
    helpArgSet a = helpArgSet a' → ParseAgree cv path (path ++ [sw]) →
    helpTarget cv app (helpName :: path) = helpTarget cv app (path ++ [sw])

/-- **`help_same_page`** (no assumption about the parser).  For a path of name-like tokens
that does not start with `help` and a switch `sw` (`-h`, `--help`, any token starting with `-`):
`HelpResolver` deletes the `help` token of `help <path>` and leaves `<path> sw` alone, both
lines then have the same leading tokens - the path - so the resolver of C03 walks to the same
command (and reports the same undefined command when the path names none). -/
theorem help_same_page (app : List Cmd) (path : List Str) (sw : Str)
    (hp : ∀ p ∈ path, C03.nameLike p = true) (hh : path.head? ≠ some helpName) (hsw : sw.head? = some '-') :
    stripHelp (helpName :: path) = path ∧ stripHelp (path ++ [sw]) = path ++ [sw] ∧
    lead (stripHelp (helpName :: path)) = path ∧ lead (stripHelp (path ++ [sw])) = path ∧
    walk (namedColl app) none (lead (stripHelp (helpName :: path)))
      = walk (namedColl app) none (lead (stripHelp (path ++ [sw]))) := by
  have h1 : stripHelp (helpName :: path) = path := by simp [stripHelp]
  have h2 : stripHelp (path ++ [sw]) = path ++ [sw] := by
    cases path with
    | nil =>
      have : (sw == helpName) = false := by
        cases sw with
        | nil => cases hsw
        | cons c r =>
          simp only [List.head?_cons, Option.some.injEq] at hsw
          subst hsw
          simp [helpName, S]
      simp [stripHelp, this]
    | cons p r =>
      have : (p == helpName) = false := by
        simp only [List.head?_cons, ne_eq, Option.some.injEq] at hh
        simpa using hh
      simp [stripHelp, this]
  have l1 : lead path = path := C03.lead_of_path path hp
  have l2 : lead (path ++ [sw]) = path := C03.options_after_path path [] sw hp hsw
  refine ⟨h1, h2, by rw [h1, l1], by rw [h2, l2], by rw [h1, h2, l1, l2]⟩

/-- **`help_same_page_partial`**: the page is the same, given the parser facts of
`help_same_page_full` - first for the handler's resolver and `HelpTextHandler.handle`, then for
`helpTarget` as a whole (this is `help_same_page_full`). -/
theorem help_same_page_partial :
    (∀ (cv : Conv) (app : List Cmd) (path : List Str) (sw : Str),
      (∀ p ∈ path, C03.nameLike p = true) → path.head? ≠ some helpName → sw.head? = some '-' →
      ParseAgree cv path (path ++ [sw]) →
      helpResolve cv app (stripHelp (helpName :: path)) = helpResolve cv app (stripHelp (path ++ [sw])) ∧
      ∀ a a' : Args, helpArgSet a = helpArgSet a' →
        handlerTarget cv app (helpName :: path) a = handlerTarget cv app (path ++ [sw]) a') ∧
    help_same_page_full := by
  have part1 : ∀ (cv : Conv) (app : List Cmd) (path : List Str) (sw : Str),
      (∀ p ∈ path, C03.nameLike p = true) → path.head? ≠ some helpName → sw.head? = some '-' →
      ParseAgree cv path (path ++ [sw]) →
      helpResolve cv app (stripHelp (helpName :: path)) = helpResolve cv app (stripHelp (path ++ [sw])) ∧
      ∀ a a' : Args, helpArgSet a = helpArgSet a' →
        handlerTarget cv app (helpName :: path) a = handlerTarget cv app (path ++ [sw]) a' := by
    intro cv app path sw hp hh hsw hagree
    obtain ⟨h1, h2, l1, l2, _⟩ := help_same_page app path sw hp hh hsw
    have hr : helpResolve cv app (stripHelp (helpName :: path)) = helpResolve cv app (stripHelp (path ++ [sw])) := by
      have hl : lead path = lead (path ++ [sw]) := by
        rw [h1] at l1; rw [h2] at l2; rw [l1, l2]
      rw [h1, h2]
      exact helpResolve_congr cv app _ _ hl hagree
    refine ⟨hr, ?_⟩
    intro a a' hset
    unfold helpArgSet at hset
    unfold handlerTarget
    rw [hset, hr]
  refine ⟨part1, ?_⟩
  intro cv app path sw h a a' hp hh hsw hno hyes hres hget hpar hset hagree
  have := (part1 cv app path sw hp hh hsw hagree).2 a a' hset
  simp only [helpTarget, hno, hyes, hres, hget, hpar, this, Bool.false_eq_true, if_false, if_true, beq_self_eq_true]

/-- **`help_same_page_default`**: with the default wiring, `help <path>` and `<path> --help`
(or `-h`) show the same page - no assumption about what the parser returns.  Hypotheses, all
about the shape of the command tree `app`:

* the path consists of name-like tokens and does not start with `help` (or an alias the `help`
  format knows its command name by);
* `application.get_command("help")` is a command `h` wired as in `DefaultApplicationConfig`
  (`HelpCmd`: named `help`, not anonymous, no sub-commands, format = command name `help` + the
  optional multi-valued string argument `command`, the switch declared as a flag);
* every command of the tree declares the switch as a flag (`--help`/`-h` is a global option,
  inherited by every format).

Then: `help <path>` resolves to `h`, which receives the path (`resolve_help`); the listener's
lenient parse of `<path> sw` re-inserts the omitted name `help` and receives the same path
(`help_parse_switch`); the flag changes no parse outcome of any command of the tree
(`parse_flag_appended`), and the help resolver only parses with commands of the tree
(`helpResolve_congr_tree`) - so both lines select the same page, or fail with the same error. -/
theorem help_same_page_default (cv : Conv) (app : List Cmd) (path : List Str) (sw : Str) (h : Cmd)
    (hp : ∀ p ∈ path, C03.nameLike p = true)
    (hh : ∀ p cn, path.head? = some p → cn ∈ h.fmt.cmds → cn.matches p = false)
    (hsw : sw = S "-h" ∨ sw = S "--help")
    (hget : (Coll.ofList app).get? helpName = some h)
    (hc : HelpCmd h sw)
    (htree : ∀ c, InTree app c → FlagOf c.fmt sw) :
    helpTarget cv app (helpName :: path) = helpTarget cv app (path ++ [sw]) := by
  have hnamed := namedColl_get?_of_ofList app helpName h hget hc.name hc.named
  obtain ⟨cn, arg, hf⟩ := hc.helpFmt
  have hh' : ∀ p, path.head? = some p → cn.matches p = false :=
    fun p h1 => hh p cn h1 (by rw [hf.cmds]; exact List.mem_singleton.mpr rfl)
  obtain ⟨a, hres, hset⟩ := resolve_help cv app h sw path hc hnamed hp
  obtain ⟨a', hpar, hset'⟩ := help_parse_switch cv h.fmt true cn arg hf path sw hp hh' hc.flag
  have hno : hasSwitch (helpName :: path) = false := by
    apply hasSwitch_names
    intro t hm
    rcases List.mem_cons.mp hm with rfl | hm
    · exact nameLike_helpName
    · exact hp t hm
  have hyes : hasSwitch (path ++ [sw]) = true := hasSwitch_appended path sw hp hsw
  have hhead : path.head? ≠ some helpName := by
    intro h1
    have := hh' helpName h1
    simp [CmdName.matches, hf.cname] at this
  have hsw' : sw.head? = some '-' := by rcases hsw with rfl | rfl <;> rfl
  obtain ⟨h1, h2, l1, l2, _⟩ := help_same_page app path sw hp hhead hsw'
  have hr : helpResolve cv app (stripHelp (helpName :: path)) = helpResolve cv app (stripHelp (path ++ [sw])) := by
    have hl : lead path = lead (path ++ [sw]) := by
      rw [h1] at l1; rw [h2] at l2; rw [l1, l2]
    rw [h1, h2]
    exact helpResolve_congr_tree cv app _ _ hl
      (fun c hc' len => (parse_flag_appended cv c.fmt len path sw hp (htree c hc')).symm)
  have ht : handlerTarget cv app (helpName :: path) a = handlerTarget cv app (path ++ [sw]) a' := by
    unfold handlerTarget
    rw [hset, hset', hr]
  simp only [helpTarget, hno, hyes, hres, hget, hpar, ht, Bool.false_eq_true, if_false, if_true, beq_self_eq_true]

/-- **`help_same_page_wired`**: `help_same_page_default` with its structural hypotheses DECIDED
by the model.  `wiredB app sw` (`Model/HelpWired.lean`, executable) checks that
`application.get_command("help")` finds a command wired as the `help` command of
`DefaultApplicationConfig` (`helpCmdB`) and that every command of the tree, recursively through
the sub-commands, declares the switch as a flag (`treeFlagsB`); `headFreeB app path` checks that
the path does not start with a name the `help` command goes by.  Both are evaluated from the
tree alone - the driver entry `c13.wired` evaluates `wiredB` on every tree the harness reads
from a real `DefaultApplicationConfig` application, and the answer is compared with `true`.
Soundness of the deciders: `wiredB_sound`, `headFreeB_sound` (`Lemmas/HelpWired.lean`). -/
theorem help_same_page_wired (cv : Conv) (app : List Cmd) (path : List Str) (sw : Str)
    (hw : wiredB app sw = true)
    (hp : ∀ p ∈ path, C03.nameLike p = true)
    (hh : headFreeB app path = true)
    (hsw : sw = S "-h" ∨ sw = S "--help") :
    helpTarget cv app (helpName :: path) = helpTarget cv app (path ++ [sw]) := by
  obtain ⟨h, hget, hc, htree⟩ := wiredB_sound hw
  exact help_same_page_default cv app path sw h hp (headFreeB_sound hh hget) hsw hget hc htree

/-- what `wiredB` decides, as a statement: the three structural hypotheses of
`help_same_page_default` -/
theorem help_same_page_wired_decides (app : List Cmd) (sw : Str) (hw : wiredB app sw = true) :
    ∃ h : Cmd, (Coll.ofList app).get? helpName = some h ∧ HelpCmd h sw ∧
      ∀ c, InTree app c → FlagOf c.fmt sw :=
  wiredB_sound hw

/-- the three parser facts `help_same_page_default` rests on, each from the shape of the tree
alone: (1) appending a declared flag to a line of names changes no parse outcome, in either
mode; (2) the help resolver gives the same answer for two lines with the same leading tokens
whose parses by the commands OF THE TREE end alike; (3) the `help` command receives the path
from `help <path>` (through the resolver) and from `<path> sw` (through the listener's lenient
parse) - `command` is set exactly when the path is not empty. -/
theorem help_same_page_facts (cv : Conv) (app : List Cmd) (path : List Str) (sw : Str) :
    (∀ (f : Fmt) (len : Bool), (∀ p ∈ path, C03.nameLike p = true) → FlagOf f sw →
      outcome (parse cv f len (path ++ [sw])) = outcome (parse cv f len path)) ∧
    (∀ a b : List Str, lead a = lead b →
      (∀ c, InTree app c → ∀ len, outcome (parse cv c.fmt len a) = outcome (parse cv c.fmt len b)) →
      helpResolve cv app a = helpResolve cv app b) ∧
    (∀ h : Cmd, (∀ p ∈ path, C03.nameLike p = true) →
      (∀ p cn, path.head? = some p → cn ∈ h.fmt.cmds → cn.matches p = false) →
      (namedColl app).get? helpName = some h → HelpCmd h sw →
      ∃ a a', resolve cv app (helpName :: path) = .ok ([helpName], a) ∧
        parse cv h.fmt true (path ++ [sw]) = .ok a' ∧
        helpArgSet a = !path.isEmpty ∧ helpArgSet a' = !path.isEmpty) := by
  refine ⟨fun f len hp hf => parse_flag_appended cv f len path sw hp hf,
    fun a b hl h => helpResolve_congr_tree cv app a b hl h, ?_⟩
  intro h hp hh hnamed hc
  obtain ⟨cn, arg, hf⟩ := hc.helpFmt
  obtain ⟨a, hres, hset⟩ := resolve_help cv app h sw path hc hnamed hp
  obtain ⟨a', hpar, hset'⟩ := help_parse_switch cv h.fmt true cn arg hf path sw hp
    (fun p h1 => hh p cn h1 (by rw [hf.cmds]; exact List.mem_singleton.mpr rfl)) hc.flag
  exact ⟨a, a', hres, hpar, hset, hset'⟩

/-- both switches of the default configuration are switches in the sense of `help_same_page` -/
example : (S "-h").head? = some '-' ∧ (S "--help").head? = some '-' := by decide

/-! ## Non-vacuity: a small application -/

def oForce : HOpt :=
  { long := S "force", short := some (S "f"), preferLong := false, acceptsValue := false, valueRequired := false,
    valueOptional := false, multi := false, valueName := S "...", descr := none, dflt := .absent }
def oNum : HOpt :=
  { long := S "num", short := none, preferLong := true, acceptsValue := true, valueRequired := true,
    valueOptional := false, multi := false, valueName := S "...", descr := some (S "How many of them"),
    dflt := .scalar (S "3") }
def aName : HArg := { name := S "name", required := true, multi := false, descr := none, dflt := .absent }
def noFmt : Fmt := { cmds := [], args := [], opts := [] }
def cAdd : HCmd := .mk (S "add") [S "a"] false false false true (S "Add a thing") none [aName] [oNum] noFmt false []
def cGone : HCmd := .mk (S "gone") [] false false true true (S "Hidden") none [] [] noFmt false []
def cOff : HCmd := .mk (S "off") [] false false false false (S "Disabled") none [] [] noFmt false []
def cServer : HCmd :=
  .mk (S "server") [S "srv"] false false false true (S "Server things") (some (S "Long help")) [] [oForce] noFmt false
    [cAdd, cGone, cOff]
def oHelp : HOpt :=
  { long := S "help", short := some (S "h"), preferLong := false, acceptsValue := false, valueRequired := false,
    valueOptional := false, multi := false, valueName := S "...", descr := some (S "Display this help message"),
    dflt := .absent }
def demo : HApp :=
  { name := some (S "app"), displayName := some (S "App"), version := some (S "1.0"), help := none,
    opts := [oHelp], cmds := [cServer] }

/-- the page of `server` lists `add` and neither the hidden `gone` nor the disabled `off` -/
example : (visibleSubs cServer).map (·.name) = [S "add"] := by decide

example : (2, Element.paragraph (S "<u>add</u>")) ∈ commandHelp demo demo.ctx cServer := by decide
example : (2, Element.paragraph (S "<u>gone</u>")) ∉ commandHelp demo demo.ctx cServer := by decide
example : optLabel oForce = S "-f (--force)" ∧ optLabel oNum = S "--num" := by decide
example : optText oNum = S "How many of them <b>(default: 3)</b>" := by decide

/-- the minimum width is exact: 19 columns are enough for the page of `server add`, 18 are not -/
example : widthOK 19 (commandHelp demo (demo.ctx.enter cServer) cAdd) = true ∧
    widthOK 18 (commandHelp demo (demo.ctx.enter cServer) cAdd) = false := by decide

/-- the page of `server add`, element by element: usage with the alias, the inherited option
of `server` and the global option under GLOBAL OPTIONS -/
example : commandHelp demo (demo.ctx.enter cServer) cAdd =
    [(0, .paragraph (S "<b>USAGE</b>")),
     (2, .labeled (S "app server add") (some (S "[--num\u00a0<...>] <name>")) 1 false),
     (2, .emptyLine), (2, .paragraph (S "aliases: a")), (0, .emptyLine),
     (0, .paragraph (S "<b>ARGUMENTS</b>")), (2, .labeled (S "<name>") (some []) 2 true), (0, .emptyLine),
     (0, .paragraph (S "<b>OPTIONS</b>")),
     (2, .labeled (S "--num") (some (S "How many of them <b>(default: 3)</b>")) 2 true), (0, .emptyLine),
     (0, .paragraph (S "<b>GLOBAL OPTIONS</b>")), (2, .labeled (S "-f (--force)") (some []) 2 true),
     (2, .labeled (S "-h (--help)") (some (S "Display this help message")) 2 true), (0, .emptyLine)] := by
  decide

/-- one element as text on a terminal of 30 columns (text offset 16): the description is
wrapped to 13 columns, continuation lines are indented by the offset, the tags are removed -/
example : (renderElement wrapH 30 16 2
      (.labeled (S "--num") (some (S "How many of them <b>(default: 3)</b>")) 2 true)).toOption.map stripTags
    = some (S "  --num         How many of\n                them\n                (default:\n                3)\n") := by
  decide +kernel

/-- the names of `add` under `server` -/
example : (findPath demo.ctx demo.cmds [S "server", S "add"]).map (·.2.name) = some (S "add") := by decide

/-- `help server add` and `server add --help` look at the same leading tokens -/
example : lead (stripHelp [S "help", S "server", S "add"]) = lead (stripHelp [S "server", S "add", S "--help"]) := by
  decide

/-! ## Non-vacuity of `help_same_page_default`: a default-configuration application -/

/-- the global option `--help` / `-h` as every format sees it -/
def pHelp : Opt :=
  { long := S "help", short := some (S "h"), accepts := false, valReq := false, valOpt := false, multi := false,
    ty := .string, nullable := false, default := .scalar .none }
def pCommandArg : Arg :=
  { name := S "command", required := false, multi := true, ty := .string, nullable := false, default := .list [] }
def pNameArg : Arg :=
  { name := S "name", required := false, multi := false, ty := .string, nullable := false, default := .scalar .none }
def dHelp : Cmd :=
  .mk helpName [] true false { cmds := [{ name := helpName, aliases := [] }], args := [pCommandArg], opts := [pHelp] } false []
def dAdd : Cmd :=
  .mk (S "add") [] false false
    { cmds := [{ name := S "server", aliases := [S "srv"] }, { name := S "add", aliases := [] }], args := [pNameArg],
      opts := [pHelp] } false []
def dServer : Cmd :=
  .mk (S "server") [S "srv"] false false
    { cmds := [{ name := S "server", aliases := [S "srv"] }], args := [], opts := [pHelp] } false [dAdd]
/-- `help` (shaped as `DefaultApplicationConfig` builds it), and `server` with its sub-command `add` -/
def dApp : List Cmd := [dHelp, dServer]
def dConv : Conv := { intOf := fun _ => none, floatOf := fun _ => none }

theorem dApp_tree (c : Cmd) (h : InTree dApp c) : c = dHelp ∨ c = dServer ∨ c = dAdd := by
  have hnil : ∀ x, ¬ InTree [] x := by
    intro x hx
    cases hx with
    | here hm => cases hm
    | sub hm _ => cases hm
  have hadd : ∀ x, InTree [dAdd] x → x = dAdd := by
    intro x hx
    cases hx with
    | here hm => exact List.mem_singleton.mp hm
    | sub hm hs =>
      have := List.mem_singleton.mp hm
      subst this
      exact absurd hs (hnil x)
  cases h with
  | here hm =>
    simp only [dApp, List.mem_cons, List.not_mem_nil, or_false] at hm
    rcases hm with rfl | rfl
    · exact Or.inl rfl
    · exact Or.inr (Or.inl rfl)
  | sub hm hs =>
    simp only [dApp, List.mem_cons, List.not_mem_nil, or_false] at hm
    rcases hm with rfl | rfl
    · exact absurd hs (hnil c)
    · exact Or.inr (Or.inr (hadd c hs))

theorem dApp_flag (sw : Str) (hsw : sw = S "-h" ∨ sw = S "--help") (c : Cmd) (h : InTree dApp c) :
    FlagOf c.fmt sw := by
  have hlong : ∀ d : Cmd, d = dHelp ∨ d = dServer ∨ d = dAdd → LongOK d.fmt pHelp := by
    intro d hd
    rcases hd with rfl | rfl | rfl <;> exact ⟨rfl, by decide, by decide⟩
  have hshort : ∀ d : Cmd, d = dHelp ∨ d = dServer ∨ d = dAdd → ShortOK d.fmt pHelp 'h' := by
    intro d hd
    rcases hd with rfl | rfl | rfl <;> exact ⟨rfl, rfl⟩
  have hc := dApp_tree c h
  rcases hsw with rfl | rfl
  · exact ⟨pHelp, rfl, rfl, rfl, Or.inr ⟨'h', by decide, rfl, hshort c hc⟩⟩
  · exact ⟨pHelp, rfl, rfl, rfl, Or.inl ⟨rfl, hlong c hc⟩⟩

theorem dHelp_helpCmd (sw : Str) (hsw : sw = S "-h" ∨ sw = S "--help") : HelpCmd dHelp sw :=
  { name := rfl, named := rfl, leaf := rfl,
    fmt := ⟨{ name := helpName, aliases := [] }, pCommandArg, rfl, rfl, rfl, rfl, rfl, rfl, rfl⟩,
    flag := dApp_flag sw hsw dHelp (.here (by simp [dApp])) }

/-- all hypotheses of `help_same_page_default` hold for `help server add` / `server add --help`
and `server add -h` on this application -/
theorem dApp_same_page (sw : Str) (hsw : sw = S "-h" ∨ sw = S "--help") :
    helpTarget dConv dApp [S "help", S "server", S "add"] = helpTarget dConv dApp [S "server", S "add", sw] :=
  help_same_page_default dConv dApp [S "server", S "add"] sw dHelp (by decide)
    (by
      intro p cn h1 h2
      simp only [List.head?_cons, Option.some.injEq] at h1
      have h3 : cn = { name := helpName, aliases := [] } := List.mem_singleton.mp h2
      subst h1 h3
      decide)
    hsw rfl (dHelp_helpCmd sw hsw) (dApp_flag sw hsw)

/-- the deciders answer `true` on this application, for both switches and the path `server add`
(so `help_same_page_wired` applies to it with every hypothesis evaluated) -/
example : wiredB dApp (S "--help") = true ∧ wiredB dApp (S "-h") = true ∧
    headFreeB dApp [S "server", S "add"] = true := by decide

example (sw : Str) (hsw : sw = S "-h" ∨ sw = S "--help") :
    helpTarget dConv dApp [S "help", S "server", S "add"] = helpTarget dConv dApp [S "server", S "add", sw] :=
  help_same_page_wired dConv dApp [S "server", S "add"] sw (by rcases hsw with rfl | rfl <;> decide) (by decide)
    (by decide) hsw

/-- ... and `false` when the wiring is broken: no `help` command; a command of the tree whose
format lacks the global option; `help help` -/
example : wiredB [dServer] (S "--help") = false ∧
    wiredB [dHelp, .mk (S "x") [] false false noFmt false []] (S "--help") = false ∧
    headFreeB dApp [S "help"] = false := by decide

def okIs (r : Except Err (Option Target)) (t : Target) : Bool :=
  match r with
  | .ok (some x) => x == t
  | _ => false

/-- ... and the page both spellings show is the page of `server add` (the model evaluated) -/
example : okIs (helpTarget dConv dApp [S "help", S "server", S "add"]) (.cmd [S "server", S "add"]) = true ∧
    okIs (helpTarget dConv dApp [S "server", S "add", S "--help"]) (.cmd [S "server", S "add"]) = true ∧
    okIs (helpTarget dConv dApp [S "srv", S "add", S "-h"]) (.cmd [S "server", S "add"]) = true ∧
    okIs (helpTarget dConv dApp [S "help"]) .app = true ∧ okIs (helpTarget dConv dApp [S "--help"]) .app = true := by
  decide +kernel

/-! ## The width hypothesis of `help_total_indented` is decided on the real pages

`widthOKAt w k page` is answered by the driver for every page of every case (`width_ok`, with the threshold
`min_width = minWidthAt k page`); the harness compares the threshold with the one read off the REAL `BlockLayout` of
the page (longest label + offset + 2, plus the outer indentation) and `width_ok` with "the terminal of the case is at
least that wide". -/

private theorem minFold_le (a k w : Nat) : ∀ (q : Page) (m0 : Nat),
    (q.foldl (fun m ie => match ie.2 with
      | .emptyLine => m
      | e => max m (need a ie.1 e + k + 2)) m0 ≤ w) ↔
    (m0 ≤ w ∧ ∀ ie ∈ q, ie.2 = .emptyLine ∨ need a ie.1 ie.2 + k + 2 ≤ w)
  | [], m0 => by simp
  | ie :: q, m0 => by
    rw [List.foldl_cons, minFold_le a k w q]
    cases he : ie.2 with
    | emptyLine => simp [he]
    | paragraph t =>
      simp only [List.mem_cons, forall_eq_or_imp, he, reduceCtorEq, false_or]
      constructor
      · rintro ⟨h1, h2⟩; exact ⟨by omega, by omega, h2⟩
      · rintro ⟨h1, h2, h3⟩; exact ⟨by omega, h3⟩
    | labeled l t p' al =>
      simp only [List.mem_cons, forall_eq_or_imp, he, reduceCtorEq, false_or]
      constructor
      · rintro ⟨h1, h2⟩; exact ⟨by omega, by omega, h2⟩
      · rintro ⟨h1, h2, h3⟩; exact ⟨by omega, h3⟩

/-- **what the answers `width_ok` / `min_width` of the driver mean**: the hypothesis `widthOKAt` of
`help_total_indented` holds exactly on the terminals at least `minWidthAt` columns wide -/
theorem width_ok_decides (w k : Nat) (p : Page) : widthOKAt w k p = true ↔ minWidthAt k p ≤ w := by
  rw [widthOKAt_iff]
  have h : minWidthAt k p ≤ w ↔
      (0 ≤ w ∧ ∀ ie ∈ p, ie.2 = .emptyLine ∨ need (align p) ie.1 ie.2 + k + 2 ≤ w) :=
    minFold_le (align p) k w p 0
  rw [h]
  simp

/-- the page of `server add` rendered at outer indentation 4: 19 + 4 columns are enough, 22 are not; the decider and
the minimum width the driver answers agree (`width_ok_decides`) -/
example : widthOKAt 23 4 (commandHelp demo (demo.ctx.enter cServer) cAdd) = true ∧
    widthOKAt 22 4 (commandHelp demo (demo.ctx.enter cServer) cAdd) = false ∧
    minWidthAt 4 (commandHelp demo (demo.ctx.enter cServer) cAdd) = 23 := by decide

/-- `help_total_indented` applied, hypotheses discharged: at 23 columns the page renders, every width handed to
`textwrap.wrap` is at least 1; at 22 columns it does not render -/
example : ∃ s, renderCommandHelpAt wrapH 23 4 demo (demo.ctx.enter cServer) cAdd = .ok s :=
  (help_total_indented wrapH 23 4 demo (demo.ctx.enter cServer) cAdd).2.1 (by decide) (by decide)
example : ∀ call ∈ wrapCallsAt 23 4 (commandHelp demo (demo.ctx.enter cServer) cAdd), 1 ≤ call.1 :=
  (help_total_indented wrapH 23 4 demo (demo.ctx.enter cServer) cAdd).2.2.1 _ (by decide)
example : ∀ s, renderPageAt wrapH 22 4 (commandHelp demo (demo.ctx.enter cServer) cAdd) ≠ .ok s :=
  (help_total_indented wrapH 22 4 demo (demo.ctx.enter cServer) cAdd).2.2.2 _ (by decide)

/-- `help_width_indented` / `help_width_pages_indented` applied to that rendering: every line, the four blanks of the
outer indentation included, is shorter than the terminal -/
example : ∃ s, renderCommandHelpAt wrapH 30 4 demo (demo.ctx.enter cServer) cAdd = .ok s ∧
    ∀ l ∈ pageLines s, l.length ≤ 30 - 1 := by
  obtain ⟨s, hs⟩ := (help_total_indented wrapH 30 4 demo (demo.ctx.enter cServer) cAdd).2.1 (by decide) (by decide)
  exact ⟨s, hs, (help_width_pages_indented 30 4 demo (demo.ctx.enter cServer) cAdd s).2.2.2 hs⟩
example : ∃ s, renderPageAt wrapH 30 4 (commandHelp demo (demo.ctx.enter cServer) cAdd) = .ok s ∧
    ∀ l ∈ pageLines s, l.length ≤ 30 - 1 := by
  obtain ⟨s, hs⟩ := (help_total_indented wrapH 30 4 demo (demo.ctx.enter cServer) cAdd).2.1 (by decide) (by decide)
  have hs' : renderPageAt wrapH 30 4 (commandHelp demo (demo.ctx.enter cServer) cAdd) = .ok s := by
    simpa [renderCommandHelpAt, show formatOK cAdd.help = true by decide] using hs
  exact ⟨s, hs', help_width_indented wrapH help_wrap_contract.2.1 30 4 _ s hs'⟩

/-! ## End to end: the text a help run prints (`Model/AppHelp.lean`)

The run model (`App.runApp`, C09: the help switch gives the page of the selected command, status 0, no
handler) composed with the page model: `App.helpRun` is the run together with the text
`Help.renderTarget` prints for the page of its outcome, at the terminal width of the run.  The
application is ONE tree of configurations `happ : HApp`; the resolver works on `App.treeOf happ`
(its enabled configurations).  The assumption of `Model/App.lean` that rendering the page succeeds is
discharged here from `widthOK` (`help_total`). -/
section AppHelp
open Clikit.App Clikit.Switches

/-- what `help_complete`, `help_inherits` and `help_hides` say about the page `p` of the command `c`
found with the context `x` of its parents: every own and inherited argument, every own option, every
inherited option - the global ones among them - is an entry of the page; with distinct sibling names
every enabled, named, non-hidden sub-command has its name line; every name line of the COMMANDS block
comes from such a sub-command, and a hidden / disabled / anonymous one has none. -/
def CommandPageLists (happ : HApp) (x : Ctx) (c : HCmd) (p : Page) : Prop :=
  (∀ a ∈ x.args ++ c.args, (2, argElem a) ∈ p) ∧
  (∀ o ∈ c.opts, (2, optElem o) ∈ p) ∧
  (∀ o ∈ x.opts, (2, optElem o) ∈ p) ∧
  (∀ o ∈ happ.opts, (2, optElem o) ∈ p) ∧
  (((live c.subs).map (·.name)).Nodup → ∀ d ∈ c.subs, d.enabled = true → d.anonymous = false →
    d.hidden = false → (2, Element.paragraph (tagU d.name)) ∈ p) ∧
  (∀ t, (2, Element.paragraph t) ∈ subCommandsSection c →
    ∃ d ∈ c.subs, t = tagU d.name ∧ d.enabled = true ∧ d.anonymous = false ∧ d.hidden = false) ∧
  ((c.subs.map (·.name)).Nodup → ∀ d ∈ c.subs, (d.hidden = true ∨ d.enabled = false ∨ d.anonymous = true) →
    (2, Element.paragraph (tagU d.name)) ∉ subCommandsSection c)

/-- the same for the application page: every global option; with distinct names every enabled, named,
non-hidden command; every label of the AVAILABLE COMMANDS block comes from such a command, and a
hidden / disabled / anonymous one has none. -/
def ApplicationPageLists (happ : HApp) (p : Page) : Prop :=
  (∀ o ∈ happ.opts, (2, optElem o) ∈ p) ∧
  (((live happ.cmds).map (·.name)).Nodup → ∀ d ∈ happ.cmds, d.enabled = true → d.anonymous = false →
    d.hidden = false → (2, Element.labeled d.name (some d.descr) 2 true) ∈ p) ∧
  (∀ i l t q a, (i, Element.labeled l t q a) ∈ appCommandsSection happ.cmds →
    ∃ d ∈ happ.cmds, l = d.name ∧ d.enabled = true ∧ d.anonymous = false ∧ d.hidden = false) ∧
  ((happ.cmds.map (·.name)).Nodup → ∀ d ∈ happ.cmds, (d.hidden = true ∨ d.enabled = false ∨ d.anonymous = true) →
    ∀ i t q a, (i, Element.labeled d.name t q a) ∉ appCommandsSection happ.cmds)

/-- what the page `p` of the target `t` lists -/
def PageLists (happ : HApp) (t : Target) (p : Page) : Prop :=
  match t with
  | .app => ApplicationPageLists happ p
  | .cmd path => ∀ x c, findPath happ.ctx happ.cmds path = some (x, c) → CommandPageLists happ x c p

/-- **`help_page_text`**: the text of a help page on a terminal that is wide enough.  For the page `p`
of a target (`targetPage`: the application page, or the page of the configuration under the name path)
whose help text has no brace (`targetFormatOK`) and a terminal with `widthOK w p`: rendering succeeds,
the text is the rendering of `p`, every line of it is shorter than the terminal, and the page lists
what `PageLists` says. -/
theorem help_page_text (wrap : Nat → Str → List Str) (hwrap : WrapLen wrap) (w : Nat) (happ : HApp) (t : Target)
    (p : Page) (hp : targetPage happ t = some p) (hf : targetFormatOK happ t = true) (hw : widthOK w p = true) :
    ∃ s, renderTarget wrap w happ t = .ok s ∧ renderPage wrap w p = .ok s ∧
      (∀ l ∈ pageLines s, l.length ≤ w - 1) ∧ PageLists happ t p := by
  have heq := renderTarget_page wrap w happ t p hp hf
  have hlists : PageLists happ t p := by
    cases t with
    | app =>
      simp only [targetPage, Option.some.injEq] at hp
      subst hp
      have hc := help_complete happ default default
      have hh := help_hides happ default
      exact ⟨hc.2.2.2.2.1, hc.2.2.2.2.2, hh.2.1, hh.2.2.2⟩
    | cmd path =>
      intro x c hfp
      simp only [targetPage, hfp, Option.some.injEq] at hp
      subst hp
      have hc := help_complete happ x c
      have hh := help_hides happ c
      obtain ⟨_, _, hglob, _, _⟩ := help_inherits happ path x c hfp
      exact ⟨hc.1, hc.2.1, hc.2.2.1, fun o ho => hc.2.2.1 o (hglob o ho), hc.2.2.2.1, hh.1, hh.2.2.1⟩
  have hok : ∃ s, renderPage wrap w p = .ok s := by
    cases t with
    | app =>
      simp only [targetPage, Option.some.injEq] at hp
      simp only [targetFormatOK] at hf
      subst hp
      obtain ⟨s, hs⟩ := (help_total wrap w happ default default).1 hf hw
      exact ⟨s, by simpa [renderApplicationHelp, hf] using hs⟩
    | cmd path =>
      cases hfp : findPath happ.ctx happ.cmds path with
      | none => simp [targetPage, hfp] at hp
      | some xc =>
        obtain ⟨x, c⟩ := xc
        simp only [targetPage, hfp, Option.some.injEq] at hp
        simp only [targetFormatOK, hfp] at hf
        subst hp
        obtain ⟨s, hs⟩ := (help_total wrap w happ x c).2.1 hf hw
        exact ⟨s, by simpa [renderCommandHelp, hf] using hs⟩
  obtain ⟨s, hs⟩ := hok
  exact ⟨s, heq.trans hs, hs, help_width wrap hwrap w p s hs, hlists⟩

/-- **`app_help_run_prints_page`** (C09 + C13, end to end).  For every application `happ`, handler
assignment `hs`, terminal width `w` and line whose option tokens contain the help switch: when the
lenient parse of the `help` command succeeds (`hparse`), the parsed args are not a version request
(`hv`), the help resolver selects the page `t` (`ht`), the configuration of `t` exists with page `p`
(`hp`), its help text has no brace (`hf`) and the terminal is wide enough for `p` (`hw`), then the run
shows the page `t` with status 0 and invokes no handler, and the text it prints is the rendering of
`p`: every line is shorter than the terminal, every own and inherited option / argument and every
non-hidden sub-command is listed, hidden ones are not (`PageLists`).
(`hsw`, `hn`, `hget`, `hparse`, `hv`, `ht` are the hypotheses of `C09.app_help_switch`.) -/
theorem app_help_run_prints_page (wrap : Nat → Str → List Str) (hwrap : WrapLen wrap) (w : Nat) (env : Env)
    (cv : Conv) (happ : HApp) (hs : Handlers) (toks : List Str)
    (hsw : helpSwitch toks = true) (hn : helpNamedB (treeOf happ) = true)
    (h : Cmd) (a : Args) (hget : (Coll.ofList (treeOf happ)).get? helpName = some h)
    (hparse : parse cv h.fmt true toks = .ok a) (hv : versionSet a = false)
    (t : Target) (ht : helpTarget cv (treeOf happ) toks = .ok (some t))
    (p : Page) (hp : targetPage happ t = some p) (hf : targetFormatOK happ t = true) (hw : widthOK w p = true) :
    (helpRun wrap w env cv happ hs toks).1.what = .helpPage t ∧
    (helpRun wrap w env cv happ hs toks).1.status = some 0 ∧
    (helpRun wrap w env cv happ hs toks).1.invoked = [] ∧
    ∃ s, (helpRun wrap w env cv happ hs toks).2 = some (.ok s) ∧ renderPage wrap w p = .ok s ∧
      (∀ l ∈ pageLines s, l.length ≤ w - 1) ∧ PageLists happ t p := by
  obtain ⟨hinv, hrest⟩ := C09.app_help_switch env cv (treeOf happ) hs toks hsw hn
  obtain ⟨hwhat, hst⟩ := (hrest h a hget hparse).1 hv t ht
  obtain ⟨s, hs1, hs2, hs3, hs4⟩ := help_page_text wrap hwrap w happ t p hp hf hw
  refine ⟨hwhat, hst, hinv, s, ?_, hs2, hs3, hs4⟩
  simp only [helpRun, hwhat, printed, hs1]

/-- **`app_help_command_prints_page`**: the same for a line WITHOUT the switch that resolves to the
top-level command `help` (`help`, `help <path>`; hypotheses of `C09.app_help_command`). -/
theorem app_help_command_prints_page (wrap : Nat → Str → List Str) (hwrap : WrapLen wrap) (w : Nat) (env : Env)
    (cv : Conv) (happ : HApp) (hs : Handlers) (toks : List Str) (a : Args)
    (hsw : helpSwitch toks = false) (hr : resolve cv (treeOf happ) toks = .ok ([helpName], a))
    (hv : versionSet a = false) (t : Target) (ht : helpTarget cv (treeOf happ) toks = .ok (some t))
    (p : Page) (hp : targetPage happ t = some p) (hf : targetFormatOK happ t = true) (hw : widthOK w p = true) :
    (helpRun wrap w env cv happ hs toks).1.what = .helpPage t ∧
    (helpRun wrap w env cv happ hs toks).1.status = some 0 ∧
    (helpRun wrap w env cv happ hs toks).1.invoked = [] ∧
    ∃ s, (helpRun wrap w env cv happ hs toks).2 = some (.ok s) ∧ renderPage wrap w p = .ok s ∧
      (∀ l ∈ pageLines s, l.length ≤ w - 1) ∧ PageLists happ t p := by
  obtain ⟨hwhat, hst, hinv⟩ := C09.app_help_command env cv (treeOf happ) hs toks a hsw hr hv t ht
  obtain ⟨s, hs1, hs2, hs3, hs4⟩ := help_page_text wrap hwrap w happ t p hp hf hw
  refine ⟨hwhat, hst, hinv, s, ?_, hs2, hs3, hs4⟩
  simp only [helpRun, hwhat, printed, hs1]

/-- **`app_help_command_same_text`**: `help <path>` and `<path> --help` / `<path> -h` print the SAME
TEXT.  For an application wired as `DefaultApplicationConfig` wires it (`wiredB`, decided on the tree),
a path of name-like tokens that does not start with a name of the `help` command (`headFreeB`) and
neither run being a version request (`hv1`, `hv2`: facts about the two runs; the version listener
answers before the help handler - under `wiredB` alone a tree may still declare `-h` as the short name
of the version option): the two runs have the same outcome - the same page, or the same error of the
help resolver - and print the same text, whatever the terminal width; and when the outcome is a page
both have status 0 and neither invokes a handler. -/
theorem app_help_command_same_text (wrap : Nat → Str → List Str) (w : Nat) (env : Env) (cv : Conv) (happ : HApp)
    (hs : Handlers) (path : List Str) (sw : Str)
    (hwired : wiredB (treeOf happ) sw = true) (hp : ∀ p ∈ path, C03.nameLike p = true)
    (hh : headFreeB (treeOf happ) path = true) (hsw : sw = S "-h" ∨ sw = S "--help")
    (hv1 : (runApp env cv (treeOf happ) hs (helpName :: path)).what ≠ .version)
    (hv2 : (runApp env cv (treeOf happ) hs (path ++ [sw])).what ≠ .version) :
    (helpRun wrap w env cv happ hs (helpName :: path)).1.what = (helpRun wrap w env cv happ hs (path ++ [sw])).1.what ∧
    (helpRun wrap w env cv happ hs (helpName :: path)).2 = (helpRun wrap w env cv happ hs (path ++ [sw])).2 ∧
    (∀ t, (helpRun wrap w env cv happ hs (helpName :: path)).1.what = .helpPage t →
      (helpRun wrap w env cv happ hs (helpName :: path)).1.status = some 0 ∧
      (helpRun wrap w env cv happ hs (path ++ [sw])).1.status = some 0 ∧
      (helpRun wrap w env cv happ hs (helpName :: path)).1.invoked = [] ∧
      (helpRun wrap w env cv happ hs (path ++ [sw])).1.invoked = []) := by
  obtain ⟨h, hget, hc, _⟩ := wiredB_sound hwired
  have hnamed := namedColl_get?_of_ofList (treeOf happ) helpName h hget hc.name hc.named
  obtain ⟨cn, arg, hfm⟩ := hc.helpFmt
  have hh' : ∀ p, path.head? = some p → cn.matches p = false :=
    fun p h1 => headFreeB_sound hh hget p cn h1 (by rw [hfm.cmds]; exact List.mem_singleton.mpr rfl)
  obtain ⟨a, hres, _⟩ := resolve_help cv (treeOf happ) h sw path hc hnamed hp
  obtain ⟨a', hpar, _⟩ := help_parse_switch cv h.fmt true cn arg hfm path sw hp hh' hc.flag
  have hno : helpSwitch (helpName :: path) = false := by
    rw [← hasSwitch_eq]
    apply hasSwitch_names
    intro t hm
    rcases List.mem_cons.mp hm with rfl | hm
    · exact nameLike_helpName
    · exact hp t hm
  have hyes : helpSwitch (path ++ [sw]) = true := by
    rw [← hasSwitch_eq]; exact hasSwitch_appended path sw hp hsw
  -- the two lines select the command `help`
  have hrc1 : resolveCommand cv (treeOf happ) (helpName :: path) = .ok ([helpName], a) := by
    rw [resolveCommand_noswitch _ _ _ hno, hres]
  have hrc2 : resolveCommand cv (treeOf happ) (path ++ [sw]) = .ok ([helpName], a') := by
    rw [resolveCommand_switch _ _ _ hyes]
    simp only [hget, hpar, hc.name]
  have hva := versionSet_of_what env cv _ hs _ _ a hrc1 hv1
  have hva' := versionSet_of_what env cv _ hs _ _ a' hrc2 hv2
  -- ... and its handler selects the same page
  have hsame := help_same_page_wired cv (treeOf happ) path sw hwired hp hh hsw
  rw [helpTarget_command cv _ _ hno [helpName] a hres, helpTarget_switch cv _ _ hyes h a' hget hpar] at hsame
  have hpath : isHelpPath [helpName] = true := by simp [isHelpPath]
  rw [hpath, if_pos rfl] at hsame
  have ht := map_some_inj _ _ hsame
  obtain ⟨w1, i1, s1⟩ := runApp_help_selected env cv _ hs _ a hrc1 hva
  obtain ⟨w2, i2, s2⟩ := runApp_help_selected env cv _ hs _ a' hrc2 hva'
  have hwhat : (runApp env cv (treeOf happ) hs (helpName :: path)).what =
      (runApp env cv (treeOf happ) hs (path ++ [sw])).what := by rw [w1, w2, ht]
  refine ⟨hwhat, ?_, ?_⟩
  · simp only [helpRun, hwhat]
  · intro t htp
    simp only [helpRun] at htp ⊢
    have h1 : handlerTarget cv (treeOf happ) (helpName :: path) a = .ok t := by
      rw [w1] at htp
      cases hx : handlerTarget cv (treeOf happ) (helpName :: path) a with
      | error e => rw [hx] at htp; cases htp
      | ok t' => rw [hx] at htp; cases htp; rfl
    exact ⟨s1 t h1, s2 t (ht ▸ h1), i1, i2⟩

end AppHelp

/-! ### Non-vacuity: the application of `App.Demo` with its configurations

`hDemo` is a tree of configurations whose resolver tree is `App.Demo.app` (`help`; `server` / `srv` with
the sub-command `add`): the three theorems applied with every hypothesis discharged by evaluation. -/
section AppHelpDemo
open Clikit.App Clikit.Switches
open Clikit.App.Demo (env cv hs)

def gOpt (long short descr : String) : HOpt :=
  { long := S long, short := some (S short), preferLong := false, acceptsValue := false, valueRequired := false,
    valueOptional := false, multi := false, valueName := S "...", descr := some (S descr), dflt := .absent }
def hNames : HArg :=
  { name := S "names", required := false, multi := true, descr := some (S "The names to add"), dflt := .list 0 (S "[]") }
def hCommand : HArg :=
  { name := S "command", required := false, multi := true, descr := some (S "The command name"), dflt := .list 0 (S "[]") }
def hHelp : HCmd :=
  .mk helpName [] true false false true (S "Display the manual of a command") none [hCommand] [] Demo.cHelp.fmt false []
def hAdd : HCmd :=
  .mk (S "add") [] false false false true (S "Add things") none [hNames] [gOpt "force" "f" "Overwrite"] Demo.cAdd.fmt false []
def hServer : HCmd :=
  .mk (S "server") [S "srv"] false false false true (S "Server things") none [] [] Demo.cServer.fmt false [hAdd]
def hDemo : HApp :=
  { name := some (S "app"), displayName := some (S "App"), version := some (S "1.0"), help := none,
    opts := [gOpt "help" "h" "Display this help message", gOpt "quiet" "q" "Do not output any message"],
    cmds := [hHelp, hServer] }

/-- the resolver's tree of these configurations is the application of `App.Demo` -/
example : treeOf hDemo = Demo.app := rfl

def addPage : Page := commandHelp hDemo (hDemo.ctx.enter hServer) hAdd

/-- the page of `server add` needs 19 columns -/
example : targetPage hDemo (.cmd [S "server", S "add"]) = some addPage ∧ minWidth addPage = 19 := by decide

/-- `app_help_run_prints_page` on `server add x -h`, 40 columns: the page of `server add`, status 0, no
handler (the handler of `server add` would return 3), the text is the rendering of the page and no
line has more than 39 characters; the page lists the global option `-h (--help)` and the own `--force` -/
example :
    (helpRun wrapH 40 env cv hDemo hs [S "server", S "add", S "x", S "-h"]).1.what = .helpPage (.cmd [S "server", S "add"]) ∧
    (helpRun wrapH 40 env cv hDemo hs [S "server", S "add", S "x", S "-h"]).1.status = some 0 ∧
    (helpRun wrapH 40 env cv hDemo hs [S "server", S "add", S "x", S "-h"]).1.invoked = [] ∧
    ∃ s, (helpRun wrapH 40 env cv hDemo hs [S "server", S "add", S "x", S "-h"]).2 = some (.ok s) ∧
      renderPage wrapH 40 addPage = .ok s ∧ (∀ l ∈ pageLines s, l.length ≤ 40 - 1) ∧
      PageLists hDemo (.cmd [S "server", S "add"]) addPage :=
  app_help_run_prints_page wrapH help_wrap_contract.2.1 40 env cv hDemo hs _ (by decide) (by decide) Demo.cHelp
    { args := [(S "command", .list [.str (S "server"), .str (S "add"), .str (S "x")])],
      opts := [(S "help", .scalar (.bool true))] }
    (by rfl) (by decide +kernel) (by decide) _ (by decide +kernel) addPage (by decide) (by decide) (by decide)

example : (2, optElem (gOpt "help" "h" "Display this help message")) ∈ addPage ∧
    (2, optElem (gOpt "force" "f" "Overwrite")) ∈ addPage ∧ (2, argElem hNames) ∈ addPage := by
  have hl : PageLists hDemo (.cmd [S "server", S "add"]) addPage :=
    (help_page_text wrapH help_wrap_contract.2.1 40 hDemo _ addPage (by decide) (by decide) (by decide)).choose_spec.2.2.2
  have := hl (hDemo.ctx.enter hServer) hAdd rfl
  exact ⟨this.2.2.2.1 _ (by decide), this.2.1 _ (by decide), this.1 _ (by decide)⟩

/-- ... and the text itself, line by line, the model evaluated (`wrapH`: the usage line and two
descriptions are wrapped; the text ends with an empty line) -/
example : ((helpRun wrapH 40 env cv hDemo hs [S "server", S "add", S "x", S "-h"]).2.map fun r => r.toOption.map pageLines) =
    some (some [S "USAGE", S "  app server add [-f] [<names1>] ...", S "                 [<namesN>]", [],
      S "ARGUMENTS", S "  <names>       The names to add", [], S "OPTIONS", S "  -f (--force)  Overwrite", [],
      S "GLOBAL OPTIONS", S "  -h (--help)   Display this help", S "                message",
      S "  -q (--quiet)  Do not output any", S "                message", [], []]) := by decide +kernel

/-- `app_help_command_prints_page` on `help server` (the page of `server`: 23 columns are enough) -/
example :
    (helpRun wrapH 23 env cv hDemo hs [S "help", S "server"]).1.status = some 0 ∧
    ∃ s, (helpRun wrapH 23 env cv hDemo hs [S "help", S "server"]).2 = some (.ok s) ∧
      (∀ l ∈ pageLines s, l.length ≤ 23 - 1) := by
  obtain ⟨_, h2, _, s, h4, _, h6, _⟩ := app_help_command_prints_page wrapH help_wrap_contract.2.1 23 env cv hDemo hs
    [S "help", S "server"] { args := [(S "command", .list [.str (S "server")])], opts := [] } (by decide)
    (by decide +kernel) (by decide) (.cmd [S "server"]) (by decide +kernel) (commandHelp hDemo hDemo.ctx hServer)
    (by decide) (by decide) (by decide)
  exact ⟨h2, s, h4, h6⟩

/-- `app_help_command_same_text` on `help server add` / `server add --help` / `server add -h`, every width -/
example (w : Nat) (sw : Str) (hsw : sw = S "-h" ∨ sw = S "--help") :
    (helpRun wrapH w env cv hDemo hs [S "help", S "server", S "add"]).2 =
      (helpRun wrapH w env cv hDemo hs [S "server", S "add", sw]).2 :=
  (app_help_command_same_text wrapH w env cv hDemo hs [S "server", S "add"] sw
    (by rcases hsw with rfl | rfl <;> decide) (by decide) (by decide) hsw (by decide +kernel)
    (by rcases hsw with rfl | rfl <;> decide +kernel)).2.1

/-- the hypothesis "not a version request" is needed: `help -V` shows the version, `-V -h` too -/
example : (runApp env cv Demo.app hs [S "-V", S "-h"]).what = .version := by decide +kernel

end AppHelpDemo

end Clikit.Props.C13
