import Clikit.Lemmas.Help
import Clikit.Props.C03
/-!
# C13 - help pages are complete, respect hiding, fit the terminal and never fail

Theorems about the model `Clikit.Help` of `ApplicationHelp` / `CommandHelp` / `BlockLayout` /
`LabelAlignment` / `LabeledParagraph` / `Paragraph` and of the help resolver, for every
configuration tree, every terminal width and every `wrap` function that satisfies the length
contract of `textwrap.wrap` (`WrapLen`: every returned line fits the requested width).  They
are instantiated with the two textwrap models `Clikit.Wrap.wrap` and `Clikit.Help.wrapH`.
-/
namespace Clikit.Props.C13
open Clikit Clikit.Parser Clikit.Resolver Clikit.Help

/-! ## Rendering never fails on a terminal that is wide enough -/

/-- **`help_total`**.  On a terminal at least as wide as the longest label plus its offset
plus 2 (`widthOK`, decidable) rendering a page succeeds: `textwrap.wrap` is never called with
a width below 1 (the `ValueError` branch) and never with a `None` text (the `AttributeError`
branch; argument / option descriptions are `None` when absent - the D14 repair `or ""`);
the help text must be free of braces (`formatOK`, the `str.format` branch).
Part 1: the application page, part 2: a command page, part 3: every width handed to
`textwrap.wrap` is ≥ 1, part 4: the margin is exact - on a narrower terminal rendering fails. -/
theorem help_total (wrap : Nat → Str → List Str) (w : Nat) (app : HApp) (x : Ctx) (c : HCmd) :
    (formatOK app.help = true → widthOK w (applicationHelp app) = true →
      ∃ s, renderApplicationHelp wrap w app = .ok s) ∧
    (formatOK c.help = true → widthOK w (commandHelp app x c) = true →
      ∃ s, renderCommandHelp wrap w app x c = .ok s) ∧
    (∀ p : Page, widthOK w p = true → ∀ call ∈ wrapCalls w p, 1 ≤ call.1) ∧
    (∀ p : Page, widthOK w p = false → ∀ s, renderPage wrap w p ≠ .ok s) := by
  refine ⟨?_, ?_, ?_, ?_⟩
  · intro hf hw
    unfold renderApplicationHelp renderPage
    rw [hf]
    simp only [Bool.not_true, Bool.false_eq_true, if_false]
    apply renderAll_ok
    intro ie hie
    exact ⟨allText_application app ie hie, (widthOK_iff w _).mp hw ie hie⟩
  · intro hf hw
    unfold renderCommandHelp renderPage
    rw [hf]
    simp only [Bool.not_true, Bool.false_eq_true, if_false]
    apply renderAll_ok
    intro ie hie
    exact ⟨allText_command app x c ie hie, (widthOK_iff w _).mp hw ie hie⟩
  · intro p hw call hc
    unfold wrapCalls at hc
    obtain ⟨ie, hie, hm⟩ := List.mem_filterMap.mp hc
    have hok := (widthOK_iff w p).mp hw ie hie
    cases he : ie.2 with
    | emptyLine => rw [he] at hm; simp [wrapText] at hm
    | paragraph t =>
      rw [he] at hm hok
      simp only [wrapText, Option.some.injEq] at hm
      rcases hok with h | h
      · cases h
      · rw [← hm]; simp only; omega
    | labeled l t q a =>
      rw [he] at hm hok
      rcases hok with h | h
      · cases h
      · cases t with
        | none => simp [wrapText] at hm
        | some t' =>
          simp only [wrapText, Option.some.injEq] at hm
          rw [← hm]; simp only; omega
  · intro p hw s
    unfold renderPage
    apply renderAll_fail
    unfold widthOK at hw
    rw [List.all_eq_false] at hw
    obtain ⟨ie, hie, hbad⟩ := hw
    refine ⟨ie, hie, ?_, ?_⟩
    · intro he; rw [he] at hbad; exact hbad rfl
    · intro hle
      apply hbad
      cases he : ie.2 with
      | emptyLine => rfl
      | paragraph t => rw [he] at hle; simpa using hle
      | labeled l t q a => rw [he] at hle; simpa using hle

/-- the `None` branch is real: a labeled paragraph without text fails, as `textwrap.wrap(None)`
did before the D14 repair -/
example (wrap : Nat → Str → List Str) :
    renderElement wrap 80 10 2 (.labeled (S "<a1>") none 2 true) = .error (.other "AttributeError") := rfl

/-! ## Completeness -/

/-- **`help_complete`**.  A command page lists every argument (inherited ones first), every
own option, every inherited / global option, and - when sibling names are distinct - every
enabled, named, non-hidden sub-command; the application page lists every global option and
every enabled, named, non-hidden command.  (`help_names` below: an option label shows the
preferred and the alternative name; `help_inherits`: what a command inherits.) -/
theorem help_complete (app : HApp) (x : Ctx) (c : HCmd) :
    (∀ a ∈ x.args ++ c.args, (2, argElem a) ∈ commandHelp app x c) ∧
    (∀ o ∈ c.opts, (2, optElem o) ∈ commandHelp app x c) ∧
    (∀ o ∈ x.opts, (2, optElem o) ∈ commandHelp app x c) ∧
    (((live c.subs).map (·.name)).Nodup → ∀ d ∈ c.subs, d.enabled = true → d.anonymous = false →
      d.hidden = false → (2, Element.paragraph (tagU d.name)) ∈ commandHelp app x c) ∧
    (∀ o ∈ app.opts, (2, optElem o) ∈ applicationHelp app) ∧
    (((live app.cmds).map (·.name)).Nodup → ∀ d ∈ app.cmds, d.enabled = true → d.anonymous = false →
      d.hidden = false → (2, Element.labeled d.name (some d.descr) 2 true) ∈ applicationHelp app) := by
  refine ⟨?_, ?_, ?_, ?_, ?_, ?_⟩
  · intro a ha
    have hne : (x.enter c).args.isEmpty = false := isEmpty_false_of_mem (x := a) (by simpa [Ctx.enter] using ha)
    have hm := mem_argumentsSection (x.enter c).args a (by simpa [Ctx.enter] using ha)
    simp only [commandHelp, hne, List.mem_append]
    exact Or.inl (Or.inl (Or.inl (Or.inl (Or.inr hm))))
  · intro o ho
    have hne := isEmpty_false_of_mem ho
    have hm := mem_optionsSection "OPTIONS" c.opts o ho
    simp only [commandHelp, hne, List.mem_append]
    exact Or.inl (Or.inl (Or.inr hm))
  · intro o ho
    have hne := isEmpty_false_of_mem ho
    have hm := mem_optionsSection "GLOBAL OPTIONS" x.opts o ho
    simp only [commandHelp, hne, List.mem_append]
    exact Or.inl (Or.inr hm)
  · intro hn d hd he ha hh
    have hne := named_nonempty_of_mem c.subs hn d hd he ha
    have hm := mem_subCommandsSection c d (visibleNamed_complete c.subs hn d hd he ha hh)
    simp only [commandHelp, hne, List.mem_append]
    exact Or.inl (Or.inl (Or.inl (Or.inr hm)))
  · intro o ho
    have hne := isEmpty_false_of_mem ho
    have hm := mem_optionsSection "GLOBAL OPTIONS" app.opts o ho
    simp only [applicationHelp, hne, List.mem_append]
    exact Or.inl (Or.inl (Or.inr hm))
  · intro hn d hd he ha hh
    have hne := named_nonempty_of_mem app.cmds hn d hd he ha
    have hm := mem_appCommandsSection app.cmds d (visibleNamed_complete app.cmds hn d hd he ha hh)
    simp only [applicationHelp, hne, List.mem_append]
    exact Or.inl (Or.inr hm)

/-- the label of an option shows the long name, and the short name when there is one - the
preferred name first (`optLabel`), the alternative in parentheses -/
theorem help_names (o : HOpt) :
    longText o <:+: optLabel o ∧ (∀ x, o.short = some x → x ≠ [] → shortText o <:+: optLabel o) ∧
    (o.preferLong = true → longText o <+: optLabel o) ∧ (o.preferLong = false → shortText o <+: optLabel o) := by
  refine ⟨longText_infix o, shortText_infix o, ?_, ?_⟩
  · intro h; unfold optLabel; rw [if_pos h]; exact ⟨_, rfl⟩
  · intro h; unfold optLabel; rw [if_neg (by simp [h])]
    exact ⟨S " (" ++ longText o ++ S ")", by simp [List.append_assoc]⟩

/-- inherited = what the ancestors declare: the command found under a name path gets the
context of a chain of commands, and that context holds the global options, every option and
every argument of every command of the chain -/
theorem help_inherits (app : HApp) (path : List Str) (y : Ctx) (c : HCmd)
    (h : findPath app.ctx app.cmds path = some (y, c)) :
    ∃ chain : List HCmd, y = app.ctx.enterAll chain ∧
      (∀ o ∈ app.opts, o ∈ y.opts) ∧ (∀ a ∈ chain, ∀ o ∈ a.opts, o ∈ y.opts) ∧
      (∀ a ∈ chain, ∀ g ∈ a.args, g ∈ y.args) := by
  obtain ⟨chain, hc⟩ := findPath_ctx path app.ctx app.cmds y c h
  refine ⟨chain, hc, ?_, ?_, ?_⟩
  · intro o ho; rw [hc]; exact enterAll_opts_base chain app.ctx o ho
  · intro a ha o ho; rw [hc]; exact enterAll_opts_chain chain app.ctx a o ha ho
  · intro a ha g hg; rw [hc]; exact enterAll_args_chain chain app.ctx a g ha hg

/-! ## Hiding -/

/-- **`help_hides`**.  Every command entry of a page comes from a configuration that is
enabled (disabled configurations never become commands), named (not anonymous) and not hidden:
the name lines of the COMMANDS block of a command page, the labels of the AVAILABLE COMMANDS
block of the application page.  With distinct sibling names: a hidden or disabled command's
name is not among the entries. -/
theorem help_hides (app : HApp) (c : HCmd) :
    (∀ t, (2, Element.paragraph t) ∈ subCommandsSection c →
      ∃ d ∈ c.subs, t = tagU d.name ∧ d.enabled = true ∧ d.anonymous = false ∧ d.hidden = false) ∧
    (∀ i l t p a, (i, Element.labeled l t p a) ∈ appCommandsSection app.cmds →
      ∃ d ∈ app.cmds, l = d.name ∧ d.enabled = true ∧ d.anonymous = false ∧ d.hidden = false) ∧
    ((c.subs.map (·.name)).Nodup → ∀ d ∈ c.subs, (d.hidden = true ∨ d.enabled = false ∨ d.anonymous = true) →
      (2, Element.paragraph (tagU d.name)) ∉ subCommandsSection c) ∧
    ((app.cmds.map (·.name)).Nodup → ∀ d ∈ app.cmds, (d.hidden = true ∨ d.enabled = false ∨ d.anonymous = true) →
      ∀ i t p a, (i, Element.labeled d.name t p a) ∉ appCommandsSection app.cmds) := by
  have key := eq_of_nodup_names
  refine ⟨?_, ?_, ?_, ?_⟩
  · intro t ht
    obtain ⟨d, hd, rfl⟩ := subCommandsSection_entries c t ht
    obtain ⟨h1, h2, h3, h4⟩ := mem_visibleNamed c.subs d hd
    exact ⟨d, h1, rfl, h2, h3, h4⟩
  · intro i l t p a ht
    obtain ⟨d, hd, rfl⟩ := appCommandsSection_entries app.cmds l t p a i ht
    obtain ⟨h1, h2, h3, h4⟩ := mem_visibleNamed app.cmds d hd
    exact ⟨d, h1, rfl, h2, h3, h4⟩
  · intro hn d hd hbad hin
    obtain ⟨d', hd', he⟩ := subCommandsSection_entries c _ hin
    obtain ⟨h1, h2, h3, h4⟩ := mem_visibleNamed c.subs d' hd'
    have := key c.subs hn d hd d' h1 (tagU_inj _ _ he).symm
    subst this
    rcases hbad with h | h | h <;> simp_all
  · intro hn d hd hbad i t p a hin
    obtain ⟨d', hd', he⟩ := appCommandsSection_entries app.cmds _ t p a i hin
    obtain ⟨h1, h2, h3, h4⟩ := mem_visibleNamed app.cmds d' hd'
    have := key app.cmds hn d hd d' h1 he.symm
    subst this
    rcases hbad with h | h | h <;> simp_all

/-! ## Width -/

/-- **`help_width`**.  Whatever the width, if rendering a page succeeds (by `help_total`: if
`widthOK`) then every line of the visible text (`page.split("\n")`, style tags removed) is
shorter than the terminal - from the contract of `wrap` and the offset arithmetic of
`LabeledParagraph` / `Paragraph`. -/
theorem help_width (wrap : Nat → Str → List Str) (hwrap : WrapLen wrap) (w : Nat) (p : Page) (s : Str)
    (h : renderPage wrap w p = .ok s) : ∀ l ∈ pageLines s, l.length ≤ w - 1 :=
  lines_of_fits (w - 1) s (renderAll_fits wrap hwrap w (align p) p s h)

/-- `help_width` for the two pages and the two textwrap models -/
theorem help_width_pages (w : Nat) (app : HApp) (x : Ctx) (c : HCmd) (s : Str) :
    (renderApplicationHelp Clikit.Wrap.wrap w app = .ok s → ∀ l ∈ pageLines s, l.length ≤ w - 1) ∧
    (renderCommandHelp Clikit.Wrap.wrap w app x c = .ok s → ∀ l ∈ pageLines s, l.length ≤ w - 1) ∧
    (renderApplicationHelp wrapH w app = .ok s → ∀ l ∈ pageLines s, l.length ≤ w - 1) ∧
    (renderCommandHelp wrapH w app x c = .ok s → ∀ l ∈ pageLines s, l.length ≤ w - 1) := by
  refine ⟨?_, ?_, ?_, ?_⟩ <;> intro h
  · unfold renderApplicationHelp at h
    split at h
    · cases h
    · exact help_width _ wrapLen_wrap w _ s h
  · unfold renderCommandHelp at h
    split at h
    · cases h
    · exact help_width _ wrapLen_wrap w _ s h
  · unfold renderApplicationHelp at h
    split at h
    · cases h
    · exact help_width _ wrapLen_wrapH w _ s h
  · unfold renderCommandHelp at h
    split at h
    · cases h
    · exact help_width _ wrapLen_wrapH w _ s h

/-- the contract holds for both textwrap models (length; content preservation is
`Clikit.Wrap.wrap_content` / `Clikit.Help.wrapH_content`) -/
theorem help_wrap_contract :
    WrapLen Clikit.Wrap.wrap ∧ WrapLen wrapH ∧
    (∀ w text, 1 ≤ w → Clikit.Wrap.nonblank (wrapH w text).flatten = Clikit.Wrap.nonblank text) :=
  ⟨wrapLen_wrap, wrapLen_wrapH, fun w text hw => wrapH_content w hw text⟩

/-! ## `help <path>` and `<path> --help` -/

/-- `args.is_argument_set("command")`: did the `help` command receive names? -/
def helpArgSet (a : Args) : Bool := dictHas (S "command") a.args

/-- The full statement: with the default wiring - `help <path>` resolves to the `help`
command which receives the path as its `command` argument, the listener finds the `help`
command and its lenient parse of `<path> sw` receives the same path, and the switch is an
option that every format accepts without consuming anything (`ParseAgree`) - the two
spellings show the same page.  `help_same_page_partial` proves exactly this; what is NOT
proved is that the parser model satisfies the three parser facts for every well-formed
default configuration (they are checked on every generated case by the correspondence). -/
def help_same_page_full : Prop :=
  ∀ (cv : Conv) (app : List Cmd) (path : List Str) (sw : Str) (h : Cmd) (a a' : Args),
    (∀ p ∈ path, C03.nameLike p = true) → path.head? ≠ some helpName → sw.head? = some '-' →
    hasSwitch (helpName :: path) = false → hasSwitch (path ++ [sw]) = true →
    resolve cv app (helpName :: path) = .ok ([helpName], a) →
    (Coll.ofList app).get? helpName = some h → parse cv h.fmt true (path ++ [sw]) = .ok a' →
    helpArgSet a = helpArgSet a' → ParseAgree cv path (path ++ [sw]) →
    helpTarget cv app (helpName :: path) = helpTarget cv app (path ++ [sw])

/-- **`help_same_page`** (no assumption about the parser).  For a path of name-like tokens
that does not start with `help` and a switch `sw` (`-h`, `--help`, any token starting with `-`):
`HelpResolver` deletes the `help` token of `help <path>` and leaves `<path> sw` alone, both
lines then have the same leading tokens - the path - so the resolver of C03 walks to the same
command (and reports the same undefined command when the path names none). -/
theorem help_same_page (app : List Cmd) (path : List Str) (sw : Str)
    (hp : ∀ p ∈ path, C03.nameLike p = true) (hh : path.head? ≠ some helpName) (hsw : sw.head? = some '-') :
    stripHelp (helpName :: path) = path ∧ stripHelp (path ++ [sw]) = path ++ [sw] ∧
    lead (stripHelp (helpName :: path)) = path ∧ lead (stripHelp (path ++ [sw])) = path ∧
    walk (namedColl app) none (lead (stripHelp (helpName :: path)))
      = walk (namedColl app) none (lead (stripHelp (path ++ [sw]))) := by
  have h1 : stripHelp (helpName :: path) = path := by simp [stripHelp]
  have h2 : stripHelp (path ++ [sw]) = path ++ [sw] := by
    cases path with
    | nil =>
      have : (sw == helpName) = false := by
        cases sw with
        | nil => cases hsw
        | cons c r =>
          simp only [List.head?_cons, Option.some.injEq] at hsw
          subst hsw
          simp [helpName, S]
      simp [stripHelp, this]
    | cons p r =>
      have : (p == helpName) = false := by
        simp only [List.head?_cons, ne_eq, Option.some.injEq] at hh
        simpa using hh
      simp [stripHelp, this]
  have l1 : lead path = path := C03.lead_of_path path hp
  have l2 : lead (path ++ [sw]) = path := C03.options_after_path path [] sw hp hsw
  refine ⟨h1, h2, by rw [h1, l1], by rw [h2, l2], by rw [h1, h2, l1, l2]⟩

/-- **`help_same_page_partial`**: the page is the same, given the parser facts of
`help_same_page_full` - first for the handler's resolver and `HelpTextHandler.handle`, then for
`helpTarget` as a whole (this is `help_same_page_full`). -/
theorem help_same_page_partial :
    (∀ (cv : Conv) (app : List Cmd) (path : List Str) (sw : Str),
      (∀ p ∈ path, C03.nameLike p = true) → path.head? ≠ some helpName → sw.head? = some '-' →
      ParseAgree cv path (path ++ [sw]) →
      helpResolve cv app (stripHelp (helpName :: path)) = helpResolve cv app (stripHelp (path ++ [sw])) ∧
      ∀ a a' : Args, helpArgSet a = helpArgSet a' →
        handlerTarget cv app (helpName :: path) a = handlerTarget cv app (path ++ [sw]) a') ∧
    help_same_page_full := by
  have part1 : ∀ (cv : Conv) (app : List Cmd) (path : List Str) (sw : Str),
      (∀ p ∈ path, C03.nameLike p = true) → path.head? ≠ some helpName → sw.head? = some '-' →
      ParseAgree cv path (path ++ [sw]) →
      helpResolve cv app (stripHelp (helpName :: path)) = helpResolve cv app (stripHelp (path ++ [sw])) ∧
      ∀ a a' : Args, helpArgSet a = helpArgSet a' →
        handlerTarget cv app (helpName :: path) a = handlerTarget cv app (path ++ [sw]) a' := by
    intro cv app path sw hp hh hsw hagree
    obtain ⟨h1, h2, l1, l2, _⟩ := help_same_page app path sw hp hh hsw
    have hr : helpResolve cv app (stripHelp (helpName :: path)) = helpResolve cv app (stripHelp (path ++ [sw])) := by
      have hl : lead path = lead (path ++ [sw]) := by
        rw [h1] at l1; rw [h2] at l2; rw [l1, l2]
      rw [h1, h2]
      exact helpResolve_congr cv app _ _ hl hagree
    refine ⟨hr, ?_⟩
    intro a a' hset
    unfold helpArgSet at hset
    unfold handlerTarget
    rw [hset, hr]
  refine ⟨part1, ?_⟩
  intro cv app path sw h a a' hp hh hsw hno hyes hres hget hpar hset hagree
  have := (part1 cv app path sw hp hh hsw hagree).2 a a' hset
  simp only [helpTarget, hno, hyes, hres, hget, hpar, this, Bool.false_eq_true, if_false, if_true, beq_self_eq_true]

/-- both switches of the default configuration are switches in the sense of `help_same_page` -/
example : (S "-h").head? = some '-' ∧ (S "--help").head? = some '-' := by decide

/-! ## Non-vacuity: a small application -/

def oForce : HOpt :=
  { long := S "force", short := some (S "f"), preferLong := false, acceptsValue := false, valueRequired := false,
    valueOptional := false, multi := false, valueName := S "...", descr := none, dflt := .absent }
def oNum : HOpt :=
  { long := S "num", short := none, preferLong := true, acceptsValue := true, valueRequired := true,
    valueOptional := false, multi := false, valueName := S "...", descr := some (S "How many of them"),
    dflt := .scalar (S "3") }
def aName : HArg := { name := S "name", required := true, multi := false, descr := none, dflt := .absent }
def noFmt : Fmt := { cmds := [], args := [], opts := [] }
def cAdd : HCmd := .mk (S "add") [S "a"] false false false true (S "Add a thing") none [aName] [oNum] noFmt false []
def cGone : HCmd := .mk (S "gone") [] false false true true (S "Hidden") none [] [] noFmt false []
def cOff : HCmd := .mk (S "off") [] false false false false (S "Disabled") none [] [] noFmt false []
def cServer : HCmd :=
  .mk (S "server") [S "srv"] false false false true (S "Server things") (some (S "Long help")) [] [oForce] noFmt false
    [cAdd, cGone, cOff]
def oHelp : HOpt :=
  { long := S "help", short := some (S "h"), preferLong := false, acceptsValue := false, valueRequired := false,
    valueOptional := false, multi := false, valueName := S "...", descr := some (S "Display this help message"),
    dflt := .absent }
def demo : HApp :=
  { name := some (S "app"), displayName := some (S "App"), version := some (S "1.0"), help := none,
    opts := [oHelp], cmds := [cServer] }

/-- the page of `server` lists `add` and neither the hidden `gone` nor the disabled `off` -/
example : (visibleSubs cServer).map (·.name) = [S "add"] := by decide

example : (2, Element.paragraph (S "<u>add</u>")) ∈ commandHelp demo demo.ctx cServer := by decide
example : (2, Element.paragraph (S "<u>gone</u>")) ∉ commandHelp demo demo.ctx cServer := by decide
example : optLabel oForce = S "-f (--force)" ∧ optLabel oNum = S "--num" := by decide
example : optText oNum = S "How many of them <b>(default: 3)</b>" := by decide

/-- the minimum width is exact: 19 columns are enough for the page of `server add`, 18 are not -/
example : widthOK 19 (commandHelp demo (demo.ctx.enter cServer) cAdd) = true ∧
    widthOK 18 (commandHelp demo (demo.ctx.enter cServer) cAdd) = false := by decide

/-- the page of `server add`, element by element: usage with the alias, the inherited option
of `server` and the global option under GLOBAL OPTIONS -/
example : commandHelp demo (demo.ctx.enter cServer) cAdd =
    [(0, .paragraph (S "<b>USAGE</b>")),
     (2, .labeled (S "app server add") (some (S "[--num\u00a0<...>] <name>")) 1 false),
     (2, .emptyLine), (2, .paragraph (S "aliases: a")), (0, .emptyLine),
     (0, .paragraph (S "<b>ARGUMENTS</b>")), (2, .labeled (S "<name>") (some []) 2 true), (0, .emptyLine),
     (0, .paragraph (S "<b>OPTIONS</b>")),
     (2, .labeled (S "--num") (some (S "How many of them <b>(default: 3)</b>")) 2 true), (0, .emptyLine),
     (0, .paragraph (S "<b>GLOBAL OPTIONS</b>")), (2, .labeled (S "-f (--force)") (some []) 2 true),
     (2, .labeled (S "-h (--help)") (some (S "Display this help message")) 2 true), (0, .emptyLine)] := by
  decide

/-- one element as text on a terminal of 30 columns (text offset 16): the description is
wrapped to 13 columns, continuation lines are indented by the offset, the tags are removed -/
example : (renderElement wrapH 30 16 2
      (.labeled (S "--num") (some (S "How many of them <b>(default: 3)</b>")) 2 true)).toOption.map stripTags
    = some (S "  --num         How many of\n                them\n                (default:\n                3)\n") := by
  decide +kernel

/-- the names of `add` under `server` -/
example : (findPath demo.ctx demo.cmds [S "server", S "add"]).map (·.2.name) = some (S "add") := by decide

/-- `help server add` and `server add --help` look at the same leading tokens -/
example : lead (stripHelp [S "help", S "server", S "add"]) = lead (stripHelp [S "server", S "add", S "--help"]) := by
  decide

end Clikit.Props.C13
