import Clikit.Lemmas.Wrap
import Clikit.Model.Table
namespace Clikit.Props.C14
open Clikit.Wrap

theorem wrap_len (w : Nat) (text : Str) : ∀ l ∈ wrap w text, l.length ≤ w := Clikit.Wrap.wrap_len w text

theorem wrap_content (w : Nat) (hw : 1 ≤ w) (text : Str) :
    nonblank (wrap w text).flatten = nonblank text := Clikit.Wrap.wrap_content w hw text

end Clikit.Props.C14
