import Clikit.Lemmas.Wrap
import Clikit.Lemmas.Table
import Clikit.Model.TableFmt
/-!
# C14 - tables render as a rectangle within the terminal and keep every cell's text

Theorems about the model of `Table.render` / `CellWrapper.fit` / `BorderUtil`
(`Clikit/Model/Table.lean`, the repaired width distribution of e37b7a5) and of
`textwrap.wrap` (`Clikit/Model/Wrap.lean`).  Everything about the width distribution holds
**for every `share` function** (the rounding of `length / actual_width * available_width`
is clamped by the code), for tables of any size and cells of any length.

`feasible st t width indent` is the quantifier's "at least one character per column beside
the borders": `available_width ≥ nb_columns`.  `styleOk` is what the rectangle needs from a
table style (checked below for the four predefined styles regenerated from the source).
Not proved here (checked by the harness): rendering does not modify the table.
-/
namespace Clikit.Props.C14
open Clikit.Wrap Clikit.Table
open Clikit.Gen.C14 (TableStyle)

/-! ### the `textwrap.wrap` contract -/

/-- every line `wrap` returns fits the width -/
theorem wrap_len (w : Nat) (text : Str) : ∀ l ∈ wrap w text, l.length ≤ w :=
  Clikit.Wrap.wrap_len w text

/-- `wrap` preserves the non-blank characters, in order -/
theorem wrap_content (w : Nat) (hw : 1 ≤ w) (text : Str) :
    nonblank (wrap w text).flatten = nonblank text :=
  Clikit.Wrap.wrap_content w hw text

/-- `wrap` returns no empty line -/
theorem wrap_nonempty_lines (w : Nat) (text : Str) : ∀ l ∈ wrap w text, l ≠ [] :=
  Clikit.Wrap.wrap_nonempty_lines w text

/-! ### the width distribution (`CellWrapper.fit`), for every `share` -/

/-- with at least one character per column the cell wrapper does not raise -/
theorem fit_ok (share : Nat → Nat → Nat → Nat) (avail : Nat) (cols : List Column)
    (h : cols.length ≤ avail) : ∃ outs, fit share avail cols = .ok outs ∧ outs.length = cols.length := by
  obtain ⟨outs, h1, h2, _⟩ := fit_spec share avail cols h
  exact ⟨outs, h1, h2⟩

/-- the column widths sum to at most the available width -/
theorem fit_sum (share : Nat → Nat → Nat → Nat) (avail : Nat) (cols : List Column)
    (h : cols.length ≤ avail) (outs : List ColOut) (hfit : fit share avail cols = .ok outs) :
    (outs.map (·.width)).sum ≤ avail := by
  obtain ⟨outs', h1, _, h3, _⟩ := fit_spec share avail cols h
  rw [hfit] at h1; cases h1; exact h3

/-- every column that is wrapped was given a width ≥ 1: `textwrap.wrap` is never called with
an invalid width -/
theorem fit_pos (share : Nat → Nat → Nat → Nat) (avail : Nat) (cols : List Column)
    (h : cols.length ≤ avail) (outs : List ColOut) (hfit : fit share avail cols = .ok outs) :
    ∀ o ∈ outs, ∀ w, o.assigned = some w → 1 ≤ w ∧ o.width ≤ w := by
  obtain ⟨outs', h1, h2, _, h4⟩ := fit_spec share avail cols h
  rw [hfit] at h1; cases h1
  intro o ho w hw
  obtain ⟨col, hz⟩ := exists_zip_left cols outs o h2.symm ho
  rcases h4 _ hz with ⟨hn, _, _⟩ | ⟨w', ha, hw1, _, _, hle, _⟩
  · simp only at hn; rw [hn] at hw; cases hw
  · simp only at ha hle; rw [ha] at hw; cases hw; exact ⟨hw1, hle⟩

/-- columns that fit their share of the available width (`length * columns ≤ available`) are
never wrapped, and a column that is not wrapped keeps its width (its longest cell) and
its cells -/
theorem short_cols_keep (share : Nat → Nat → Nat → Nat) (avail : Nat) (cols : List Column)
    (h : cols.length ≤ avail) (outs : List ColOut) (hfit : fit share avail cols = .ok outs) :
    ∀ p ∈ cols.zip outs,
      (colLen p.1 * cols.length ≤ avail → p.2.assigned = none) ∧
      (p.2.assigned = none → p.2.width = colLen p.1 ∧ p.2.cells = p.1) := by
  obtain ⟨outs', h1, _, _, h4⟩ := fit_spec share avail cols h
  rw [hfit] at h1; cases h1
  intro p hp
  rcases h4 p hp with ⟨hn, hw, hc⟩ | ⟨w, ha, _, _, _, _, hlong⟩
  · exact ⟨fun _ => hn, fun _ => ⟨hw, hc⟩⟩
  · exact ⟨fun hs => absurd hs hlong, fun hn => by rw [ha] at hn; cases hn⟩

/-! ### rendering -/

/-- for every feasible terminal width rendering succeeds (no exception of any kind) -/
theorem render_ok (share : Nat → Nat → Nat → Nat) (st : TableStyle) (given : List Nat) (t : Table)
    (width indent : Nat) (hf : feasible st t width indent) (hal : given.length ≤ t.n) :
    ∃ lines, render share st given t width indent = .ok lines := by
  obtain ⟨outs, h1, h2, _⟩ := layout_spec share st t width indent hf
  unfold render renderRaw
  split
  · exact ⟨_, rfl⟩
  · simp only [h1, bind, Except.bind, alignmentsOf, h2]
    rw [if_neg (by omega)]
    exact ⟨_, rfl⟩

/-- every row pads column `j` to the same width: the widths of the pieces `draw_row` emits
for line `k` of row `i` (cell in its format + border) do not depend on `i`, `k` or the
alignments -/
theorem col_width_const (share : Nat → Nat → Nat → Nat) (st : TableStyle) (t : Table)
    (width indent : Nat) (hf : feasible st t width indent) (hpad : st.padding_char.length = 1)
    (outs : List ColOut) (hl : layout share st t width indent = .ok outs)
    (fmt : Str × Str) (aligns : List Nat) (i k : Nat) :
    (rowPieces st fmt k (rowData outs aligns i)).map List.length
      = pieceWidths st.border.line_vc_char.length st.border.line_vr_char.length
          (outs.map (fun o => o.width + fmtLen fmt)) := by
  obtain ⟨outs', h1, _, _, _, hok⟩ := layout_spec share st t width indent hf
  rw [hl] at h1; cases h1
  exact rowPieces_const st fmt hpad outs hok aligns i k

/-- all lines have the same width `W = indent + borders + Σ (width_j + excess)` before the
trailing-blank strip (entirely blank border lines are not written), and `W` does not exceed
the terminal width -/
theorem rect (share : Nat → Nat → Nat → Nat) (st : TableStyle) (given : List Nat) (t : Table)
    (width indent : Nat) (hf : feasible st t width indent)
    (hst : styleOk st t.header.isSome = true)
    (raws : List RawLine) (hr : renderRaw share st given t width indent = .ok raws) :
    ∃ outs, layout share st t width indent = .ok outs ∧ tableWidth st indent outs ≤ width ∧
      ∀ raw ∈ raws, raw.2.length = tableWidth st indent outs ∨ (raw.1 = true ∧ rstrip raw.2 = []) := by
  obtain ⟨outs, h1, h2, h3, _, hok⟩ := layout_spec share st t width indent hf
  refine ⟨outs, h1, tableWidth_le st t width indent hf outs h2 h3, ?_⟩
  unfold renderRaw at hr
  split at hr
  · cases hr; intro raw h; simp at h
  · simp only [h1, bind, Except.bind] at hr
    cases ha : alignmentsOf outs.length given with
    | error e => rw [ha] at hr; cases hr
    | ok aligns =>
      rw [ha] at hr
      cases hr
      exact renderRowsRaw_width st _ hst outs hok aligns _ indent

/-- no rendered line is wider than the table, hence none is wider than the terminal -/
theorem within_terminal (share : Nat → Nat → Nat → Nat) (st : TableStyle) (given : List Nat)
    (t : Table) (width indent : Nat) (hf : feasible st t width indent)
    (hst : styleOk st t.header.isSome = true)
    (lines : List Str) (hr : render share st given t width indent = .ok lines) :
    ∀ l ∈ lines, l.length ≤ width := by
  unfold render at hr
  cases hraw : renderRaw share st given t width indent with
  | error e => rw [hraw] at hr; cases hr
  | ok raws =>
    rw [hraw] at hr
    cases hr
    obtain ⟨outs, _, hW, hall⟩ := rect share st given t width indent hf hst raws hraw
    intro l hl
    obtain ⟨raw, hmem, hfin⟩ := List.mem_filterMap.mp hl
    have := finish_length _ raw (hall raw hmem) l hfin
    omega

/-- for styles whose right border is not blank (ascii, solid) the trailing-blank strip removes
nothing: all rendered lines have exactly the same width -/
theorem rect_equal (share : Nat → Nat → Nat → Nat) (st : TableStyle) (given : List Nat) (t : Table)
    (width indent : Nat) (hf : feasible st t width indent)
    (hst : styleOk st t.header.isSome = true) (hsolid : rightSolid st = true) (hn : 1 ≤ t.n)
    (lines : List Str) (hr : render share st given t width indent = .ok lines) :
    ∃ outs, layout share st t width indent = .ok outs ∧ tableWidth st indent outs ≤ width ∧
      ∀ l ∈ lines, l.length = tableWidth st indent outs := by
  unfold render at hr
  cases hraw : renderRaw share st given t width indent with
  | error e => rw [hraw] at hr; cases hr
  | ok raws =>
    rw [hraw] at hr
    cases hr
    obtain ⟨outs, h1, hW, hall⟩ := rect share st given t width indent hf hst raws hraw
    refine ⟨outs, h1, hW, ?_⟩
    obtain ⟨outs', h1', h2, _, _, hok⟩ := layout_spec share st t width indent hf
    rw [h1] at h1'; cases h1'
    have hne : outs ≠ [] := by intro h; rw [h] at h2; simp at h2; omega
    have hpad : st.padding_char.length = 1 := by
      unfold styleOk at hst
      simp only [Bool.and_eq_true, beq_iff_eq] at hst
      exact hst.1.1.1.1.1
    -- every raw line comes from `renderRowsRaw`
    have hsol : ∀ raw ∈ raws, rstrip raw.2 = raw.2 ∧ raw.2 ≠ [] := by
      unfold renderRaw at hraw
      split at hraw
      · cases hraw; intro raw h; simp at h
      · simp only [h1, bind, Except.bind] at hraw
        cases ha : alignmentsOf outs.length given with
        | error e => rw [ha] at hraw; cases hraw
        | ok aligns =>
          rw [ha] at hraw
          cases hraw
          exact renderRowsRaw_solid st _ hpad hsolid outs hne hok aligns _ indent
    intro l hl
    obtain ⟨raw, hmem, hfin⟩ := List.mem_filterMap.mp hl
    obtain ⟨hs1, hs2⟩ := hsol raw hmem
    unfold finish at hfin
    simp only [hs1] at hfin
    have hemp : raw.2.isEmpty = false := by
      cases hraw2 : raw.2 with
      | nil => exact absurd hraw2 hs2
      | cons c r => rfl
    simp only [hemp, Bool.and_false, Bool.false_eq_true, if_false, Option.some.injEq] at hfin
    subst hfin
    rcases hall raw hmem with h | h
    · exact h
    · rw [hs1] at h; exact absurd h.2 hs2

/-- reading the lines of cell `(i, j)` from top to bottom gives back the cell's characters
in order, spacing aside (`splitLines (cells.getD i _).text` are exactly the lines `draw_row`
prints for that cell) -/
theorem cell_text_preserved (share : Nat → Nat → Nat → Nat) (st : TableStyle) (t : Table)
    (width indent : Nat) (hf : feasible st t width indent)
    (outs : List ColOut) (hl : layout share st t width indent = .ok outs)
    (i j : Nat) (hj : j < t.n) :
    nonblank (splitLines (((outs.getD j ⟨none, 0, []⟩).cells.getD i ⟨[], 0⟩).text)).flatten
      = nonblank ((t.allRows.getD i []).getD j []) := by
  obtain ⟨outs', h1, h2, _, h4, _⟩ := layout_spec share st t width indent hf
  rw [hl] at h1; cases h1
  have hj' : j < outs.length := by omega
  have hmem := zip_getElem_mem (initRows t.n t.allRows) outs j (by rw [initRows_length]; exact hj) hj'
  have hrel := h4 _ hmem
  rw [initRows_getElem t.n t.allRows j hj] at hrel
  have : outs.getD j ⟨none, 0, []⟩ = outs[j] := by
    simp [List.getD_eq_getElem?_getD, hj']
  rw [this]
  exact cell_text_of_fitRel _ _ _ j _ hrel i

/-! ### the four predefined styles (regenerated from the source) satisfy `styleOk` -/

theorem styles_ok : ∀ p ∈ Clikit.Gen.C14.styles, ∀ h : Bool, styleOk p.2 h = true := by
  decide

/-- a header-less ascii/solid table whose (unused) header format is `{}` -/
theorem styles_ok_headerless_override :
    styleOk { Clikit.Gen.C14.ascii with header_cell_format := ([], []) } false = true ∧
    styleOk { Clikit.Gen.C14.solid with header_cell_format := ([], []) } false = true := by
  decide

/-- ascii and solid have a non-blank right border (so `rect_equal` applies); borderless and
compact do not (their lines differ in trailing blanks, as the statement allows) -/
theorem right_border_solid :
    rightSolid Clikit.Gen.C14.ascii = true ∧ rightSolid Clikit.Gen.C14.solid = true ∧
    rightSolid Clikit.Gen.C14.borderless = false ∧ rightSolid Clikit.Gen.C14.compact = false := by
  decide

/-! ### the hypotheses are decided on the real style, table and width

`feasible`, `styleOk`, `given.length ≤ t.n`, `rightSolid` are facts about the real `TableStyle`
(borders, formats, alignments), the real table and the terminal width.  `Model/Table.lean` has the
executable deciders; the driver answers them for every generated case (`c14.render`, field `wf`)
and the correspondence compares them with what the real objects say. -/

theorem styleOkB_eq (st : TableStyle) (h : Bool) : styleOkB st h = styleOk st h := rfl

theorem rightSolidB_eq (st : TableStyle) : rightSolidB st = rightSolid st := rfl

/-- `wfB` decides the hypotheses of the rendering theorems -/
theorem wf_decides (st : TableStyle) (given : List Nat) (t : Table) (width indent : Nat) :
    wfB st given t width indent = true ↔
      (feasible st t width indent ∧ given.length ≤ t.n ∧ styleOk st t.header.isSome = true ∧ 1 ≤ t.n) := by
  simp only [wfB, feasibleB, feasible, styleOkB_eq, Bool.and_eq_true, decide_eq_true_eq, and_assoc]

/-- `render_ok`, `within_terminal`, `rect_equal` with every hypothesis decided: for a case the
decider accepts, for every rounding function, rendering succeeds, no line is wider than the
terminal, and when the right border is not blank all lines are exactly as wide as the table. -/
theorem render_decided (share : Nat → Nat → Nat → Nat) (st : TableStyle) (given : List Nat) (t : Table)
    (width indent : Nat) (h : wfB st given t width indent = true) :
    ∃ lines, render share st given t width indent = .ok lines ∧
      (∀ l ∈ lines, l.length ≤ width) ∧
      (rightSolidB st = true →
        ∃ outs, layout share st t width indent = .ok outs ∧ tableWidth st indent outs ≤ width ∧
          ∀ l ∈ lines, l.length = tableWidth st indent outs) := by
  obtain ⟨hf, hal, hst, hn⟩ := (wf_decides st given t width indent).1 h
  obtain ⟨lines, hr⟩ := render_ok share st given t width indent hf hal
  refine ⟨lines, hr, within_terminal share st given t width indent hf hst lines hr, ?_⟩
  intro hs
  exact rect_equal share st given t width indent hf hst (by rw [← rightSolidB_eq]; exact hs) hn lines hr

/-- `cell_text_preserved` with feasibility decided and the layout obtained from `render_ok`'s
argument: the fitted columns exist and give back every cell -/
theorem cell_text_decided (share : Nat → Nat → Nat → Nat) (st : TableStyle) (given : List Nat) (t : Table)
    (width indent : Nat) (h : wfB st given t width indent = true) :
    ∃ outs, layout share st t width indent = .ok outs ∧ outs.length = t.n ∧
      ∀ i j, j < t.n →
        nonblank (splitLines (((outs.getD j ⟨none, 0, []⟩).cells.getD i ⟨[], 0⟩).text)).flatten
          = nonblank ((t.allRows.getD i []).getD j []) := by
  obtain ⟨hf, _, _, _⟩ := (wf_decides st given t width indent).1 h
  obtain ⟨outs, h1, h2, _⟩ := layout_spec share st t width indent hf
  exact ⟨outs, h1, h2, fun i j hj => cell_text_preserved share st t width indent hf outs h1 i j hj⟩

/-! ### cells with style tags, on an I/O whose formatter changes between renderings -/

/-- the table of the visible cells has the shape of the table: same number of columns, header or not -/
theorem visibleTable_shape (rv : Clikit.Markup.Resolver) (t v : Table) (hv : visibleTable rv t = .ok v) :
    v.n = t.n ∧ v.header.isSome = t.header.isSome := by
  unfold visibleTable at hv
  cases hh : t.header with
  | none =>
    rw [hh] at hv
    simp only at hv
    split at hv
    · cases hv
    · cases hv; exact ⟨rfl, rfl⟩
  | some h =>
    rw [hh] at hv
    simp only at hv
    split at hv
    · cases hv
    · split at hv
      · cases hv
      · cases hv; exact ⟨rfl, rfl⟩

/-- the hypotheses of the rendering theorems do not depend on the cells: whatever the formatter makes of
the tags, they are those of the table as given -/
theorem wfB_visible (st : TableStyle) (given : List Nat) (rv : Clikit.Markup.Resolver) (t v : Table)
    (width indent : Nat) (hv : visibleTable rv t = .ok v) :
    wfB st given v width indent = wfB st given t width indent := by
  obtain ⟨h1, h2⟩ := visibleTable_shape rv t v hv
  unfold wfB feasibleB
  rw [h1, h2]

/-- **`render_decided_styles`**.  A table whose cells contain style tags, rendered on an I/O whose formatter
resolves tags by `rv` - ANY resolver: the default style set, one a style was added to, another formatter
altogether.  If the formatter can remove the format of every cell (`visibleTable`: tags properly nested) and
the width is feasible for the table, rendering succeeds, every line fits the terminal, and with a non-blank
right border all lines have one width: the rectangle is that of the cells as THIS formatter shows them. -/
theorem render_decided_styles (share : Nat → Nat → Nat → Nat) (st : TableStyle) (given : List Nat)
    (rv : Clikit.Markup.Resolver) (t v : Table) (width indent : Nat)
    (hv : visibleTable rv t = .ok v) (h : wfB st given t width indent = true) :
    ∃ lines, renderFmt share st given rv t width indent = .ok lines ∧
      (∀ l ∈ lines, l.length ≤ width) ∧
      (rightSolidB st = true →
        ∃ outs, layout share st v width indent = .ok outs ∧ tableWidth st indent outs ≤ width ∧
          ∀ l ∈ lines, l.length = tableWidth st indent outs) := by
  rw [← wfB_visible st given rv t v width indent hv] at h
  obtain ⟨lines, hr, h2, h3⟩ := render_decided share st given v width indent h
  refine ⟨lines, ?_, h2, h3⟩
  unfold renderFmt
  rw [hv]
  exact hr

/-- **`render_history_styles`**.  ONE table rendered again and again on ONE I/O whose formatter's style set is
changed in between (`rvs`: the resolver at the time of each rendering - `io.formatter.add_style`,
`io.set_formatter`): EVERY rendering of the history is a rectangle within the terminal.  (In the model a
rendering is a function of the table and of the formatter as it is now; that the code keeps nothing measured
under an earlier style set is what the correspondence compares.) -/
theorem render_history_styles (share : Nat → Nat → Nat → Nat) (st : TableStyle) (given : List Nat)
    (t : Table) (width indent : Nat) (rvs : List Clikit.Markup.Resolver)
    (hv : ∀ rv ∈ rvs, ∃ v, visibleTable rv t = .ok v) (h : wfB st given t width indent = true) :
    ∀ r ∈ renderHistory share st given t width indent rvs,
      ∃ lines, r = .ok lines ∧ (∀ l ∈ lines, l.length ≤ width) ∧
        (rightSolidB st = true → ∃ W, W ≤ width ∧ ∀ l ∈ lines, l.length = W) := by
  intro r hr
  unfold renderHistory at hr
  obtain ⟨rv, hrv, rfl⟩ := List.mem_map.mp hr
  obtain ⟨v, hvv⟩ := hv rv hrv
  obtain ⟨lines, h1, h2, h3⟩ := render_decided_styles share st given rv t v width indent hvv h
  refine ⟨lines, h1, h2, ?_⟩
  intro hs
  obtain ⟨outs, _, hW, hall⟩ := h3 hs
  exact ⟨_, hW, hall⟩

/-- non-vacuity: `<hl>` is text for a formatter that does not know it and takes no room once it does -/
example : (visibleCell (knownResolver []) "<hl>ab</hl>".toList).toOption = some "<hl>ab</hl>".toList ∧
    (visibleCell (knownResolver ["hl".toList]) "<hl>ab</hl>".toList).toOption = some "ab".toList := by decide

/-! ### non-vacuity -/

/-- the D15 witness: one row of `[200, 200, 6]`-character cells, 10 characters available.
The repaired distribution gives the widths 5, 4, 1 (before e37b7a5: `ValueError`). -/
example :
    let cell (n : Nat) : Cell := ⟨List.replicate n 'a', n⟩
    okIs ((fit exactShare 10 [[cell 200], [cell 200], [cell 6]]).map (fun outs => outs.map (·.assigned)))
      [some 5, some 4, some 1] = true := by
  decide +kernel

/-- ... and a share function that always answers 0 or something huge is clamped as well -/
example :
    let cell (n : Nat) : Cell := ⟨List.replicate n 'a', n⟩
    okIs ((fit (fun _ _ _ => 0) 3 [[cell 9], [cell 9], [cell 9]]).map (fun outs => outs.map (·.width))) [1, 1, 1] = true ∧
    okIs ((fit (fun _ _ _ => 1000) 7 [[cell 9], [cell 9], [cell 9]]).map (fun outs => outs.map (·.width))) [5, 1, 1] = true := by
  decide +kernel

/-- `wrap` keeps a leading blank run, cuts long words and drops the blanks at line ends - except
(a `textwrap` quirk the model reproduces) the blank before a long word that had to be cut when
the line was already full -/
example : wrap 5 "  ab cdefghij  k".toList = ["  ab ".toList, "cdefg".toList, "hij".toList, "k".toList] := by
  decide +kernel

/-- known finding D28 (not covered by the theorems above, whose cells are tag-free): `textwrap`
is not format-aware, the witness cell is cut inside its style tag at the column width 16 -/
example : wrap 16 "aaaa <fg=red;options=bold>cccc</> dddd eeee".toList
    = ["aaaa <fg=red;opt".toList, "ions=bold>cccc</".toList, "> dddd eeee".toList] := by
  decide +kernel

/-- a rendered table (ascii style, header, 2 columns, terminal width 16, indentation 1) -/
example :
    okIs (render exactShare Clikit.Gen.C14.ascii [0, 1]
      { header := some ["H".toList, "I".toList], rows := [["aaa bbb ccc".toList, "x".toList]], n := 2 } 16 1)
      [" +---------+---+".toList, " | H       | I |".toList, " +---------+---+".toList,
       " | aaa bbb | x |".toList, " | ccc     |   |".toList, " +---------+---+".toList] = true := by
  decide +kernel

/-! every hypothesis of the theorems above is satisfiable (instances through the theorems) -/

private def exTable : Table :=
  { header := some ["H".toList, "I".toList], rows := [["aaa bbb ccc".toList, "x".toList]], n := 2 }

/-- the decider accepts the rendered example: feasible at width 16, two alignments for two
columns, the ascii style is fine ... -/
example : wfB Clikit.Gen.C14.ascii [0, 1] exTable 16 1 = true := by decide

/-- ... rejects a terminal that is too narrow and an alignment list that is too long ... -/
example : wfB Clikit.Gen.C14.ascii [0, 1] exTable 9 1 = false ∧
    wfB Clikit.Gen.C14.ascii [0, 1, 2] exTable 16 1 = false := by decide

/-- ... so `render_ok`, `within_terminal`, `rect`, `rect_equal` apply to it (for every `share`) -/
example (share : Nat → Nat → Nat → Nat) :
    ∃ lines, render share Clikit.Gen.C14.ascii [0, 1] exTable 16 1 = .ok lines ∧ ∀ l ∈ lines, l.length ≤ 16 := by
  obtain ⟨lines, h1, h2, _⟩ := render_decided share Clikit.Gen.C14.ascii [0, 1] exTable 16 1 (by decide)
  exact ⟨lines, h1, h2⟩

/-- `fit_ok`, `fit_sum`, `fit_pos`, `short_cols_keep`: three columns, ten characters -/
example (share : Nat → Nat → Nat → Nat) :
    ∃ outs, fit share 10 [[⟨List.replicate 200 'a', 200⟩], [⟨List.replicate 200 'a', 200⟩], [⟨['a'], 1⟩]] = .ok outs ∧
      (outs.map (·.width)).sum ≤ 10 := by
  obtain ⟨outs, h, _⟩ := fit_ok share 10 [[⟨List.replicate 200 'a', 200⟩], [⟨List.replicate 200 'a', 200⟩], [⟨['a'], 1⟩]] (by decide)
  exact ⟨outs, h, fit_sum share 10 _ (by decide) outs h⟩

/-- `wrap_content`: a positive width -/
example : nonblank (wrap 5 "  ab cdefghij  k".toList).flatten = "abcdefghijk".toList := by
  rw [wrap_content 5 (by decide)]
  decide

/-! ### non-vacuity of the theorems about cells with style tags (hypothesis audit, rounds 8-9) -/

/-- a table whose cells carry the tag `<hl>`, and the two formatters of a history: one that does not know the tag
(it is text), one that knows it as a style (it takes no room) -/
private def tagTable : Table :=
  { header := some ["k".toList, "v".toList], rows := [["<hl>ab</hl>".toList, "c".toList]], n := 2 }

/-- `visibleTable_shape` / `wfB_visible`: the hypothesis binds the visible table; same shape, same decision -/
example : ∃ v, visibleTable (knownResolver ["hl".toList]) tagTable = .ok v ∧ v.n = 2 ∧
    v.rows = [["ab".toList, "c".toList]] ∧
    wfB Clikit.Gen.C14.ascii [0, 1] v 30 1 = wfB Clikit.Gen.C14.ascii [0, 1] tagTable 30 1 :=
  ⟨_, rfl, (visibleTable_shape (knownResolver ["hl".toList]) tagTable _ rfl).1, by decide,
    wfB_visible _ _ (knownResolver ["hl".toList]) tagTable _ 30 1 rfl⟩

/-- `render_decided_styles`, both hypotheses discharged, for every `share` -/
example (share : Nat → Nat → Nat → Nat) :
    ∃ lines, renderFmt share Clikit.Gen.C14.ascii [0, 1] (knownResolver ["hl".toList]) tagTable 30 1 = .ok lines ∧
      ∀ l ∈ lines, l.length ≤ 30 := by
  obtain ⟨lines, h1, h2, _⟩ := render_decided_styles share Clikit.Gen.C14.ascii [0, 1] (knownResolver ["hl".toList])
    tagTable _ 30 1 rfl (by decide)
  exact ⟨lines, h1, h2⟩

/-- `render_history_styles`: the same table rendered before and after `<hl>` becomes a style - both renderings are
rectangles within the terminal -/
example (share : Nat → Nat → Nat → Nat) :
    ∀ r ∈ renderHistory share Clikit.Gen.C14.ascii [0, 1] tagTable 30 1 [knownResolver [], knownResolver ["hl".toList]],
      ∃ lines, r = .ok lines ∧ ∀ l ∈ lines, l.length ≤ 30 := by
  intro r hr
  obtain ⟨lines, h1, h2, _⟩ := render_history_styles share Clikit.Gen.C14.ascii [0, 1] tagTable 30 1
    [knownResolver [], knownResolver ["hl".toList]]
    (by intro rv hrv; simp only [List.mem_cons, List.not_mem_nil, or_false] at hrv
        rcases hrv with rfl | rfl <;> exact ⟨_, rfl⟩)
    (by decide) r hr
  exact ⟨lines, h1, h2⟩

/-- the first hypothesis is not constantly true: a style closed by the tag of another one cannot be removed -/
example : (visibleTable (knownResolver ["hl".toList, "b".toList])
    { header := none, rows := [["<hl>x</b>".toList]], n := 1 }).toOption = none := by decide

end Clikit.Props.C14
