/-
Shared vocabulary of the clikit models (core Lean only).

Python `str` values that are scanned, sliced or compared by prefix are `List Char`
(`Str`); dictionaries are association lists with Python's insertion-order semantics.
-/
namespace Clikit

abbrev Str := List Char

/-- Exceptions the modelled code can raise.  `other` is present at *every* partial
operation the Python code performs, so "no foreign exception escapes" is a real proof
obligation and not an artefact of a too-small error type. -/
inductive Err where
  | cannotParse
  | noSuchOption
  | noSuchArgument
  | cannotAddOption
  | cannotAddArgument
  | cannotResolve
  | valueError
  | runtimeError
  | outOfFuel
  | other (pyType : String)
  deriving DecidableEq, Repr, Inhabited

def Err.name : Err → String
  | .cannotParse => "CannotParseArgsException"
  | .noSuchOption => "NoSuchOptionException"
  | .noSuchArgument => "NoSuchArgumentException"
  | .cannotAddOption => "CannotAddOptionException"
  | .cannotAddArgument => "CannotAddArgumentException"
  | .cannotResolve => "CannotResolveCommandException"
  | .valueError => "ValueError"
  | .runtimeError => "RuntimeError"
  | .outOfFuel => "outOfFuel"
  | .other t => t

/-! ### Association lists with Python `dict` semantics -/

/-- `d[k] = v`: an existing key keeps its position, a new key goes last. -/
def dictSet {κ ν : Type} [BEq κ] (k : κ) (v : ν) : List (κ × ν) → List (κ × ν)
  | [] => [(k, v)]
  | (k', v') :: r => if k' == k then (k', v) :: r else (k', v') :: dictSet k v r

def dictGet? {κ ν : Type} [BEq κ] (k : κ) : List (κ × ν) → Option ν
  | [] => none
  | (k', v') :: r => if k' == k then some v' else dictGet? k r

def dictHas {κ ν : Type} [BEq κ] (k : κ) (d : List (κ × ν)) : Bool :=
  (dictGet? k d).isSome

def dictDel {κ ν : Type} [BEq κ] (k : κ) : List (κ × ν) → List (κ × ν)
  | [] => []
  | (k', v') :: r => if k' == k then r else (k', v') :: dictDel k r

end Clikit
