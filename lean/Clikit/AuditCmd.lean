import Lean
/-!
`#audit_module M` lists every theorem declared in module `M` with the axioms it depends
on, one JSON object per line (`AUDIT {...}`), so that the check pipeline can *count*
proof obligations and verify the axiom set instead of asserting it.
-/
open Lean Elab Command

elab "#audit_module " m:ident : command => do
  let env ← getEnv
  let modName := m.getId
  let some idx := env.getModuleIdx? modName
    | throwError "module {modName} is not imported"
  let mut n : Nat := 0
  for (name, info) in env.constants.toList do
    if env.getModuleIdxFor? name != some idx then continue
    if name.isInternal then continue
    if !(modName.isPrefixOf name) then continue
    -- auto-generated equation / injectivity / sizeOf lemmas are not property theorems
    let last := name.getString!
    if last.startsWith "eq_" || last == "injEq" || last == "inj" || last == "sizeOf_spec"
        || last == "congr_simp" || last.startsWith "match_" || last == "eq_def"
        || last == "brecOn" || last == "binductionOn" || last == "below" || last == "recOn" || last == "casesOn" then continue
    match info with
    | .thmInfo _ =>
      let axs ← Lean.collectAxioms name
      let axsS := axs.toList.map (fun a => s!"\"{a}\"")
      logInfo m!"AUDIT \{\"theorem\": \"{name}\", \"axioms\": [{", ".intercalate axsS}]}"
      n := n + 1
    | _ => pure ()
  logInfo m!"AUDIT-COUNT {n}"
