import Clikit.Drv.Util
import Clikit.Model.Builder
import Clikit.Model.Flatten
namespace Clikit.Drv.C06
open Lean Clikit.Drv Clikit.ArgsFmt

/-! JSON boundary of the C06 model.  Elements are referred to by their `tag` in answers. -/

def strList (j : Json) (k : String) : R (List Str) := do
  (← fArr j k).toList.mapM asChars

def parseOpt (j : Json) : R Opt := do
  return { long := ← fChars j "long", short := ← fOptChars j "short", tag := ← fNat j "tag" }

def parseCmdOpt (j : Json) : R CmdOpt := do
  return { long := ← fChars j "long", short := ← fOptChars j "short",
           longAliases := ← strList j "la", shortAliases := ← strList j "sa", tag := ← fNat j "tag" }

def parseArg (j : Json) : R Arg := do
  return { name := ← fChars j "name", required := ← fBool j "req", optional := ← fBool j "opt",
           multi := ← fBool j "multi", tag := ← fNat j "tag" }

def parseName (j : Json) : R CmdName := do
  return { name := ← fChars j "name", aliases := ← strList j "aliases", tag := ← fNat j "tag" }

def parseElem (j : Json) : R Elem := do
  match (← fStr j "k") with
  | "opt" => return .opt (← parseOpt j)
  | "copt" => return .copt (← parseCmdOpt j)
  | "arg" => return .arg (← parseArg j)
  | "name" => return .name (← parseName j)
  | "foreign" => return .foreign
  | k => .error s!"unknown element kind {k}"

def expectOpt (j : Json) : R Opt := do
  match (← parseElem j) with | .opt o => return o | _ => .error "option expected"
def expectCmdOpt (j : Json) : R CmdOpt := do
  match (← parseElem j) with | .copt o => return o | _ => .error "command option expected"
def expectArg (j : Json) : R Arg := do
  match (← parseElem j) with | .arg o => return o | _ => .error "argument expected"
def expectName (j : Json) : R CmdName := do
  match (← parseElem j) with | .name o => return o | _ => .error "command name expected"

def many {α} (p : Json → R α) (j : Json) (k : String) : R (List α) := do
  (← fArr j k).toList.mapM p

def parseOp (j : Json) : R Op := do
  let e := field j "e"
  match (← fStr j "op") with
  | "add_option" => return .addOption (← expectOpt (← e))
  | "add_options" => return .addOptions (← many expectOpt j "es")
  | "set_options" => return .setOptions (← many expectOpt j "es")
  | "add_command_option" => return .addCommandOption (← expectCmdOpt (← e))
  | "add_command_options" => return .addCommandOptions (← many expectCmdOpt j "es")
  | "set_command_options" => return .setCommandOptions (← many expectCmdOpt j "es")
  | "add_argument" => return .addArgument (← expectArg (← e))
  | "add_arguments" => return .addArguments (← many expectArg j "es")
  | "set_arguments" => return .setArguments (← many expectArg j "es")
  | "add_command_name" => return .addCommandName (← expectName (← e))
  | "add_command_names" => return .addCommandNames (← many expectName j "es")
  | "set_command_names" => return .setCommandNames (← many expectName j "es")
  | o => .error s!"unknown op {o}"

def jB (b : Bool) : Json := .bool b
/-- lookups answer the element's tag or the exception class (the two frequent ones abbreviated) -/
def jGet {α} (tag : α → Nat) : Except Err α → Json
  | .ok a => jNat (tag a)
  | .error .noSuchOption => .str "-o"
  | .error .noSuchArgument => .str "-a"
  | .error e => .str e.name
def jDict {α} (tag : α → Nat) (d : Dict α) : Json :=
  jList (fun p => Json.arr #[jStr p.1, jNat (tag p.2)]) d

def ans : Answer → Json
  | .bool v => jB v
  | .names l => jList (fun n => jNat n.tag) l
  | .copt r => jGet (·.tag) r
  | .copts l => jList (fun c => jNat c.tag) l
  | .arg r => jGet (·.tag) r
  | .args d => jDict (·.tag) d
  | .opt r => jGet (·.tag) r
  | .opts d => jDict (·.tag) d

/-- the fixed list of probes; the harness asks the implementation the same list in the same order -/
def probes (names : List Str) (idx : List Int) : List Query :=
  [true, false].flatMap fun ib =>
    [Query.hasCommandNames ib, .getCommandNames ib, .hasCommandOptions ib, .getCommandOptions ib,
     .hasArguments ib, .hasMultiValuedArgument ib, .hasOptionalArgument ib, .hasRequiredArgument ib,
     .getArguments ib, .hasOptions ib, .getOptions ib]
    ++ names.flatMap (fun n =>
      [Query.hasOption n ib, .getOption n ib, .hasCommandOption n ib, .getCommandOption n ib,
       .hasArgument n ib, .getArgument n ib])
    ++ idx.flatMap (fun i => [Query.hasArgumentAt i ib, .getArgumentAt i ib])

def snapB (ps : List Query) (b : Builder) : Json := jList (fun q => ans (queryB b q)) ps
def snapF (ps : List Query) (f : FormatRec) : Json := jList (fun q => ans (queryF f q)) ps

/-- the built format's answers are abbreviated to "=" when they equal the builder's -/
def both (ps : List Query) (b : Builder) : List (String × Json) :=
  let sb := snapB ps b
  let sf := snapF ps (format b)
  [("b", sb), ("f", if sf == sb then .str "=" else sf)]

def jOut : Option Err → Json
  | none => .str "ok"
  | some e => .str e.name

/-- bases, innermost first; each is `ArgsFormat(elements, previous)` -/
def buildBases : List (List Elem) → Option FormatRec → Nat → Except (Nat × Err) (Option FormatRec)
  | [], base, _ => .ok base
  | es :: rest, base, i =>
    match ctor es base with
    | .ok f => buildBases rest (some f) (i + 1)
    | .error e => .error (i, e)

def parseBases (j : Json) : R (List (List Elem)) := do
  (← fArr j "bases").toList.mapM fun b =>
    match b with
    | .arr a => a.toList.mapM parseElem
    | _ => .error "bases: array of arrays expected"

def parseProbes (j : Json) : R (List Query) := do
  let names ← strList j "names"
  let idx ← (← fArr j "idx").toList.mapM fun v =>
    match v.getInt? with
    | .ok n => pure n
    | .error _ => .error "idx: integers expected"
  return probes names idx

def baseErr (i : Nat) (e : Err) : Json :=
  Json.mkObj [("bases", Json.mkObj [("at", jNat i), ("err", .str e.name)])]

def runOps (ps : List Query) (snapAll : Bool) : Builder → List Op → List Json
  | _, [] => []
  | b, op :: ops =>
    let r := step b op
    let want := snapAll || ops.isEmpty
    Json.mkObj ([("out", jOut r.2)] ++ (if want then both ps r.1 else [])) :: runOps ps snapAll r.1 ops

structure CfgLevel where
  name : CmdName
  anonymous : Bool
  adds : List Elem

def parseCfgLevel (j : Json) : R CfgLevel := do
  return { name := ← expectName (← field j "name"), anonymous := ← fBool j "anonymous",
           adds := ← many parseElem j "adds" }

/-- `Config.add_option` / `add_argument` on the config's own builder (no base); a rejected
element is skipped (the harness catches the exception and goes on). -/
def cfgAdds : Builder → List Elem → Builder × List Json
  | b, [] => (b, [])
  | b, e :: es =>
    let r : Builder × Option Err :=
      match e with
      | .opt o => step b (.addOption o)
      | .arg a => step b (.addArgument a)
      | _ => (b, some (.other "unsupported"))
    let rest := cfgAdds r.1 es
    (rest.1, jOut r.2 :: rest.2)

/-- `CommandConfig.build_args_format(base)` -/
def buildArgsFormat (cfg : Builder) (l : CfgLevel) (base : Option FormatRec) : Except Err FormatRec :=
  let b0 := Builder.empty base
  let r1 := if l.anonymous then (b0, none) else step b0 (.addCommandName l.name)
  match r1.2 with
  | some e => .error e
  | none =>
    let r2 := step r1.1 (.addOptions (dictVals (cfg.getOptions true)))
    match r2.2 with
    | some e => .error e
    | none =>
      let r3 := step r2.1 (.addArguments (dictVals (cfg.getArguments true)))
      match r3.2 with
      | some e => .error e
      | none => .ok (format r3.1)

def runCfg (ps : List Query) : List CfgLevel → Option FormatRec → List Json
  | [], _ => []
  | l :: ls, base =>
    let c := cfgAdds (Builder.empty none) l.adds
    match buildArgsFormat c.1 l base with
    | .error e => [Json.mkObj [("adds", .arr c.2.toArray), ("build", .str e.name)]]
    | .ok f =>
      Json.mkObj [("adds", .arr c.2.toArray), ("build", .str "ok"), ("f", snapF ps f)]
        :: runCfg ps ls (some f)

/-! `c06.flatten`: the flattened view (`Model/Flatten.lean`, `flattenRec`) of the model's formats of a
case, restricted to what the builder model carries: command names with aliases, argument names with
required / multi in listing order, option long / short names in listing order.  The harness compares it
with `parser_common.flatten(real_format)` restricted to the same attributes. -/

def jFlat (f : FormatRec) : Json :=
  let fl := Clikit.Flatten.flattenRec Clikit.Flatten.plainArg Clikit.Flatten.plainOpt f
  Json.mkObj [
    ("cmds", jList (fun (c : Clikit.Parser.CmdName) =>
      Json.mkObj [("name", jStr c.name), ("aliases", jStrs c.aliases)]) fl.cmds),
    ("args", jList (fun (a : Clikit.Parser.Arg) =>
      Json.mkObj [("name", jStr a.name), ("required", .bool a.required), ("multi", .bool a.multi)]) fl.args),
    ("opts", jList (fun (o : Clikit.Parser.Opt) =>
      Json.mkObj [("long", jStr o.long), ("short", jOpt jStr o.short)]) fl.opts)]

/-- the flattened base formats, innermost first (until the first rejected level) -/
def flatBases : List (List Elem) → Option FormatRec → List Json
  | [], _ => []
  | es :: rest, base =>
    match ctor es base with
    | .ok f => jFlat f :: flatBases rest (some f)
    | .error _ => []

/-- the flattened `builder.format` after every call of the history -/
def flatSteps : Builder → List Op → List Json
  | _, [] => []
  | b, op :: ops =>
    let r := step b op
    jFlat (format r.1) :: flatSteps r.1 ops

def flatCfg : List CfgLevel → Option FormatRec → List Json
  | [], _ => []
  | l :: ls, base =>
    let c := cfgAdds (Builder.empty none) l.adds
    match buildArgsFormat c.1 l base with
    | .error _ => []
    | .ok f => jFlat f :: flatCfg ls (some f)

def handle (m : String) (j : Json) : Option (R Json) :=
  match m with
  | "c06.run" => some do
      let bases ← parseBases j
      let ops ← many parseOp j "ops"
      let ps ← parseProbes j
      let snapAll ← fBool j "snap_all"
      match buildBases bases none 0 with
      | .error (i, e) => return baseErr i e
      | .ok base =>
        let b0 := Builder.empty base
        return Json.mkObj ([("bases", .str "ok")] ++
          (if snapAll || ops.isEmpty then [("init", Json.mkObj (both ps b0))] else []) ++
          [("steps", .arr (runOps ps snapAll b0 ops).toArray)])
  | "c06.ctor" => some do
      let bases ← parseBases j
      let es ← many parseElem j "elements"
      let ps ← parseProbes j
      match buildBases bases none 0 with
      | .error (i, e) => return baseErr i e
      | .ok base =>
        match ctor es base with
        | .error e => return Json.mkObj [("bases", .str "ok"), ("ctor", .str e.name)]
        | .ok f => return Json.mkObj [("bases", .str "ok"), ("ctor", .str "ok"), ("f", snapF ps f)]
  | "c06.config" => some do
      let levels ← many parseCfgLevel j "levels"
      let ps ← parseProbes j
      return Json.mkObj [("levels", .arr (runCfg ps levels none).toArray)]
  | "c06.wf" => some do
      -- the hypotheses `Op.wf` / `Elem.wf` of the C06 theorems, decided on the names the harness read from
      -- the REAL element objects of the case (theorem `Props.C06.wf_decides`)
      let es ← many parseElem j "elems"
      return Json.mkObj [("wf", .bool (es.all Elem.wfB)),
                         ("ill_formed", jList (fun e => match e with
                            | Elem.opt o => jNat o.tag | .copt c => jNat c.tag | _ => jNat 0)
                            (es.filter (fun e => !e.wfB)))]
  | "c06.dispatch" => some do
      -- as which public element class `ArgsFormat(elements, base)` adds an object, from the public classes among
      -- the bases of the object's REAL class (`type(o).__mro__`); theorems `Props.C06.dispatch_*`
      let mros ← (← fArr j "mros").toList.mapM (fun m => do
        match m with
        | .arr a => a.toList.mapM (fun c => do
            match c with
            | .str "CommandName" => pure PubClass.commandName
            | .str "CommandOption" => pure PubClass.commandOption
            | .str "Option" => pure PubClass.option
            | .str "Argument" => pure PubClass.argument
            | _ => (.error "c06.dispatch: unknown public class" : R PubClass))
        | _ => (.error "c06.dispatch: a list of class names expected" : R (List PubClass)))
      let disp := jList (fun m => match dispatch m with
        | some .commandName => Json.str "name" | some .commandOption => Json.str "copt"
        | some .option => Json.str "opt" | some .argument => Json.str "arg" | none => Json.str "foreign") mros
      -- optional `kinds` (one per object: the public class the case means the object to be, `"foreign"` for an
      -- object of no public class): the hypothesis of `Props.C06.ctor_objects_same_rules` decided per object
      -- (`onlyB`, `Props.C06.only_decides`); the answer is then `{dispatch, only}`
      match fOpt j "kinds" with
      | none => return disp
      | some ks =>
        let kinds ← match ks with
          | .arr a => a.toList.mapM (fun c => do
              match c with
              | .str "name" => pure (some PubClass.commandName)
              | .str "copt" => pure (some PubClass.commandOption)
              | .str "opt" => pure (some PubClass.option)
              | .str "arg" => pure (some PubClass.argument)
              | .str "foreign" => pure none
              | _ => (.error "c06.dispatch: unknown kind" : R (Option PubClass)))
          | _ => (.error "c06.dispatch: kinds: a list expected" : R (List (Option PubClass)))
        if kinds.length != mros.length then throw "c06.dispatch: one kind per object expected"
        return Json.mkObj [("dispatch", disp),
          ("only", jList (fun (p : List PubClass × Option PubClass) => match p.2 with
            | some c => Json.bool (onlyB p.1 c)
            | none => Json.bool false) (mros.zip kinds))]
  | "c06.flatten" => some do
      -- the flattening the bridge theorems of Props/C06.lean are about, on the formats of the case
      match (← fStr j "kind") with
      | "config" =>
        let levels ← many parseCfgLevel j "levels"
        return Json.mkObj [("levels", .arr (flatCfg levels none).toArray)]
      | kind =>
        let bases ← parseBases j
        let fb := Json.arr (flatBases bases none).toArray
        match buildBases bases none 0 with
        | .error _ => return Json.mkObj [("bases", fb)]
        | .ok base =>
          match kind with
          | "run" =>
            let ops ← many parseOp j "ops"
            let b0 := Builder.empty base
            return Json.mkObj [("bases", fb), ("init", jFlat (format b0)),
                               ("steps", .arr (flatSteps b0 ops).toArray)]
          | "ctor" =>
            let es ← many parseElem j "elements"
            match ctor es base with
            | .error _ => return Json.mkObj [("bases", fb), ("f", .null)]
            | .ok f => return Json.mkObj [("bases", fb), ("f", jFlat f)]
          | k => .error s!"c06.flatten: unknown kind {k}"
  | _ => none

end Clikit.Drv.C06
