import Clikit.Drv.Util
import Clikit.Model.Spinner
import Clikit.Model.SpinnerBuilt
/-!
Driver entries of the spinner model:
`c19.run`    {cfg, body, sched, preempt, fuel, old} -> explicit schedule executed (the given one followed by
             the completion policy), write trace with thread tags, terminal line after every write, final
             program counters, how main left the block, spinner liveness at that moment;
`c19.manual` {cfg, ops} -> per operation the stream writes it made and the error it raised.
Both also answer `wf`: the deciders of the hypotheses of the theorems of Props/C19 on this configuration.
-/
namespace Clikit.Drv.C19
open Lean Clikit.Drv Clikit.Spinner

def segOf (j : Json) : R Seg :=
  match j with
  | .str "I" => .ok .indicator
  | .str "M" => .ok .message
  | .arr #[.str "L", .str s] => .ok (.lit s.toList)
  | _ => .error s!"bad format segment {j.compress}"

def excOf (s : String) : R ExcKind :=
  match s with
  | "Exception" => .ok .exception
  | "KeyboardInterrupt" => .ok .keyboardInterrupt
  | "SystemExit" => .ok .systemExit
  | _ => .error s!"bad exception kind {s}"

def excName : ExcKind → String
  | .exception => "Exception"
  | .keyboardInterrupt => "KeyboardInterrupt"
  | .systemExit => "SystemExit"

def bodyOpOf (j : Json) : R BodyOp :=
  match j with
  | .arr #[.str "set", .str m] => .ok (.setMessage m.toList)
  | .arr #[.str "work", d] => do return .work (← asNat d)
  | .arr #[.str "raise", .str k] => do return .raise (← excOf k)
  | .arr #[.str "exit"] => .ok .exitBlock
  | _ => .error s!"bad body op {j.compress}"

def choiceOf (j : Json) : R Choice :=
  match j with
  | .str "M" => .ok .main
  | .str "S" => .ok .spin
  | .arr #[.str "T", d] => do return .tick (← asNat d)
  | _ => .error s!"bad choice {j.compress}"

def jChoice : Choice → Json
  | .main => .str "M"
  | .spin => .str "S"
  | .tick d => .arr #[.str "T", jNat d]

def capsOf (j : Json) : R Caps := do
  return { ansi := ← fBool j "ansi", verbosity := ← fNat j "verbosity", quiet := ← fBool j "quiet" }

/-- `"on"`: what the indicator is built on - `{"io": false, "out": caps}` or `{"io": true, "std": caps, "err": caps}` -/
def builtOf (j : Json) : R Built := do
  if ← fBool j "io" then return .io (← capsOf (← field j "std")) (← capsOf (← field j "err"))
  else return .output (← capsOf (← field j "out"))

/-- The configuration of a request.  Without `"on"`: as given (`ansi`, `fmt`).  With `"on"` the model itself decides
which output the frames are drawn on (hence which way of drawing is used) and, when `"fmt"` is null (no format given
to the constructor), which format the component chooses (`Spinner.cfgBuilt`). -/
def cfgOf (j : Json) (body : List BodyOp) : R Cfg := do
  let vals ← (← fArr j "values").toList.mapM asChars
  let fmt ← match fOpt j "fmt" with
    | none | some .null => pure none
    | some (.arr a) => do pure (some (← a.toList.mapM segOf))
    | some _ => throw "field fmt: array or null expected"
  -- the spinner's sleep period is read from the source (Gen/C19.lean) unless the request overrides it
  let period ← match fOpt j "period" with
    | none => pure Clikit.Gen.C19.spinPeriodMs
    | some v => asNat v
  let base : Cfg := { ansi := ← fBool j "ansi", interval := ← fNat j "interval", period := period,
                      values := vals, fmt := fmt.getD [], startMsg := ← fChars j "start", endMsg := ← fChars j "end", body := body }
  match fOpt j "on" with
  | none | some .null =>
    match fmt with
    | some _ => return base
    | none => throw "fmt null needs \"on\" (what the indicator is built on)"
  | some o =>
    match cfgBuilt (← builtOf o) fmt base with
    | some cfg => return cfg
    | none => throw "outside the model: the output drawn on is quiet, or verbose without a format (elapsed time)"

def tidName : Tid → String
  | .main => "M"
  | .spin => "S"

def spinPcName : SpinPc → String
  | .notStarted => "notStarted"
  | .begin => "begin"
  | .test => "is_set"
  | .write _ => "write"
  | .sleeping _ => "sleep"
  | .done => "done"

def mainPcName : MainPc → String
  | .begin => "begin"
  | .writing _ _ => "write"
  | .spawn => "spawn"
  | .working _ _ => "sleep"
  | .excSet _ | .finSet => "set"
  | .excJoin _ | .finJoin => "join"
  | .exited _ => "done"

def outcomeName : Outcome → String
  | .normal => "normal"
  | .raised k => "raised:" ++ excName k
  | .escaped k => "raised:" ++ excName k
  | .error e => "error:" ++ e.name

def isExited (c : St) : Bool := match c.main with | .exited _ => true | _ => false
def spinAlive (c : St) : Bool := !(c.spin == .done || c.spin == .notStarted)

/-- run a schedule, remembering whether the spinner was alive when main left the block -/
def runScan (old : Proto) (cfg : Cfg) : Schedule → St → Option Bool → St × Option Bool
  | [], c, a => (c, a)
  | ch :: s, c, a =>
    let c' := stepG old cfg c ch
    let a' := match a with
      | some x => some x
      | none => if isExited c' then some (spinAlive c') else none
    runScan old cfg s c' a'

def status (c : St) : String :=
  if isExited c && !spinAlive c then "finished"
  else if !enabledMain c && !enabledSpin c && (nextWake c).isNone then "deadlock"
  else "budget"

/-- do the hypotheses of the theorems of Props/C19 (`CleanCfg`, an indicator value exists) hold for this
configuration?  (`Props.C19.wf_decides`) -/
def jWf (cfg : Cfg) : Json :=
  Json.mkObj [("clean", .bool (cleanCfgB cfg)), ("has_values", .bool (hasValuesB cfg))]

def handle (m : String) (j : Json) : Option (R Json) :=
  match m with
  | "c19.run" => some do
      let body ← (← fArr j "body").toList.mapM bodyOpOf
      let cfg ← cfgOf (← field j "cfg") body
      let sched ← (← fArr j "sched").toList.mapM choiceOf
      let pre ← (← fArr j "preempt").toList.mapM asNat
      let fuel ← fNat j "fuel"
      -- pre-fix variants, for experiments: "old" = two writes per frame (D23), "narrow_except" = D32
      let two ← fBool j "old"
      let narrow ← match fOpt j "narrow_except" with
        | none => pure false
        | some (.bool b) => pure b
        | some _ => .error "field narrow_except: boolean expected"
      let old : Proto := ⟨two, narrow⟩
      let (c1, a1) := runScan old cfg sched init none
      let rest := policy old cfg fuel 0 .main pre c1
      let (c2, a2) := runScan old cfg rest c1 a1
      let tr := c2.trace
      return Json.mkObj [
        ("executed", jList jChoice (sched ++ rest)),
        ("writes", jList (fun (w : Tid × Str) => Json.arr #[.str (tidName w.1), jStr w.2]) tr),
        ("lines", jStrs (linesAfter (tr.map (·.2)))),
        ("pcs", Json.mkObj [("M", .str (mainPcName c2.main)), ("S", .str (spinPcName c2.spin))]),
        ("main_outcome", match c2.main with | .exited o => .str (outcomeName o) | _ => .null),
        ("crashed", .bool c2.crashed),
        ("alive_at_exit", match a2 with | some b => .bool b | none => .null),
        ("status", .str (status c2)),
        ("clock", jNat c2.clock),
        ("wf", jWf cfg)]
  | "c19.manual" => some do
      let cfg ← cfgOf (← field j "cfg") []
      let ops ← (← fArr j "ops").toList.mapM (fun o => match o with
        | .arr #[.str "start", .str m] => pure (MOp.start m.toList)
        | .arr #[.str "advance"] => pure MOp.advance
        | .arr #[.str "set", .str m] => pure (MOp.setMessage m.toList)
        | .arr #[.str "finish", .str m, .bool r] => pure (MOp.finish m.toList r)
        | .arr #[.str "tick", d] => do return MOp.tick (← asNat d)
        | _ => .error s!"bad manual op {o.compress}")
      let rec go (c : MSt) : List MOp → List Json → List Json
        | [], acc => acc.reverse
        | op :: r, acc =>
          let (c', e) := mstep cfg c op
          let new := (c'.out.take (c'.out.length - c.out.length)).reverse
          go c' r (Json.mkObj [("writes", jStrs (new.map (·.bytes))),
                               ("err", match e with | some e => .str e.name | none => .null)] :: acc)
      let outs := go MSt.init ops []
      let fin := mrun cfg ops MSt.init
      return Json.mkObj [("ops", .arr outs.toArray),
                         ("lines", jStrs (linesAfter (fin.out.reverse.map (·.bytes)))),
                         ("wf", Json.mkObj [("has_values", .bool (hasValuesB cfg))])]
  | _ => none

end Clikit.Drv.C19
