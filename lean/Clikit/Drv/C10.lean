import Clikit.Drv.Util
import Clikit.Model.Gate
namespace Clikit.Drv.C10
open Lean Clikit.Drv

/-- `c10.gate {quiet, verbosity, flags|null}` -> what the translated gate and the
declarative statement say. -/
def handle (m : String) (j : Json) : Option (R Json) :=
  match m with
  | "c10.gate" => some do
      let q ← fBool j "quiet"
      let v ← fNat j "verbosity"
      let f ← fOptNat j "flags"
      return Json.mkObj [("may_write", .bool (Clikit.Gen.mayWrite q v f)),
                         ("should_write", .bool (Clikit.Gate.shouldWrite q v f)),
                         ("lowest", jNat (Clikit.Gate.lowest f))]
  | _ => none

end Clikit.Drv.C10
