import Clikit.Drv.Util
import Clikit.Model.Gate
namespace Clikit.Drv.C10
open Lean Clikit.Drv

/-- `c10.gate {quiet, verbosity, flags|null}` -> what the translated gate and the
declarative statement say.
`c10.facade {method, flags|null, std:{quiet,verbosity}, err:{quiet,verbosity}}` -> which of the two streams
of an I/O receives the text of a write through the facade. -/
def handle (m : String) (j : Json) : Option (R Json) :=
  match m with
  | "c10.gate" => some do
      let q ← fBool j "quiet"
      let v ← fNat j "verbosity"
      let f ← fOptNat j "flags"
      return Json.mkObj [("may_write", .bool (Clikit.Gen.mayWrite q v f)),
                         ("should_write", .bool (Clikit.Gate.shouldWrite q v f)),
                         ("lowest", jNat (Clikit.Gate.lowest f))]
  | "c10.facade" => some do
      let meth ← fStr j "method"
      let f ← fOptNat j "flags"
      let cfg (k : String) : R Clikit.Gate.OutCfg := do
        let o ← field j k
        return { quiet := (← fBool o "quiet"), verbosity := (← fNat o "verbosity") }
      let std ← cfg "std"
      let err ← cfg "err"
      match Clikit.Gate.facadeChan meth with
      | none => .error s!"c10.facade: not a writing entry point of the facade: {meth}"
      | some c =>
        let r := Clikit.Gate.facadeWrite std err c f
        return Json.mkObj [("std", .bool r.1), ("err", .bool r.2)]
  | _ => none

end Clikit.Drv.C10
