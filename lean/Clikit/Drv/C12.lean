import Clikit.Drv.Util
import Clikit.Model.Dispatcher
import Clikit.Model.ConfigDispatcher
namespace Clikit.Drv.C12
open Lean Clikit.Drv Clikit.Dispatcher

def fld (a : Array Json) (i : Nat) : R Json :=
  match a[i]? with
  | some v => .ok v
  | none => .error s!"operation: field {i} is missing"

def nat (j : Json) : R Nat :=
  match j.getNat? with
  | .ok n => .ok n
  | .error _ => .error "operation: natural number expected"

def int (j : Json) : R Int :=
  match j.getInt? with
  | .ok n => .ok n
  | .error _ => .error "operation: integer expected"

def bool (j : Json) : R Bool :=
  match j with
  | .bool b => .ok b
  | _ => .error "operation: boolean expected"

def optNat (j : Json) : R (Option Nat) :=
  match j with
  | .null => .ok none
  | v => do return some (← nat v)

/-- one operation, as a JSON array:
`["add", e, id, stops, p|null]`, `["dispatch", e, stopped]`, `["dispatchN", e, n]`, `["has", e|null]`, `["get", e|null]`,
`["prio", e, id, stops]` (a listener is its id and whether it stops propagation) -/
def op (j : Json) : R Op := do
  let a ← match j with
    | .arr a => pure a
    | _ => throw "operation: array expected"
  match (← fld a 0) with
  | .str "add" =>
    if a.size != 5 then throw "add: 5 fields expected"
    let p ← match (← fld a 4) with       -- null: the default priority of `add_listener`
      | .null => pure Clikit.Gen.C12.defaultPriority
      | v => int v
    return .add (← nat (← fld a 1)) ⟨← nat (← fld a 2), ← bool (← fld a 3)⟩ p
  | .str "dispatch" =>
    if a.size != 3 then throw "dispatch: 3 fields expected"
    return .dispatch (← nat (← fld a 1)) (← bool (← fld a 2))
  | .str "dispatchN" =>     -- a fresh user event that reports itself stopped after n listener calls
    if a.size != 3 then throw "dispatchN: 3 fields expected"
    return .dispatchN (← nat (← fld a 1)) (← nat (← fld a 2))
  | .str "has" =>
    if a.size != 2 then throw "has: 2 fields expected"
    return .hasListeners (← optNat (← fld a 1))
  | .str "get" =>
    if a.size != 2 then throw "get: 2 fields expected"
    return .getListeners (← optNat (← fld a 1))
  | .str "prio" =>
    if a.size != 4 then throw "prio: 4 fields expected"
    return .getPriority (← nat (← fld a 1)) ⟨← nat (← fld a 2), ← bool (← fld a 3)⟩
  | _ => throw "unknown operation"

/-- one operation of a history with an `ApplicationConfig`: `["set"]` (set_event_dispatcher with the caller's
dispatcher), `["cadd", e, id, stops, p|null]` (config.add_event_listener), `["own", op]` (on the caller's object),
`["cfg", op]` (on `config.dispatcher`) -/
def cop (j : Json) : R COp := do
  match j with
  | .arr #[.str "set"] => return .set
  | .arr #[.str "own", o] => return .onOwn (← op o)
  | .arr #[.str "cfg", o] => return .onCfg (← op o)
  | .arr a =>
    match (← fld a 0) with
    | .str "cadd" =>
      if a.size != 5 then throw "cadd: 5 fields expected"
      let p ← match (← fld a 4) with
        | .null => pure Clikit.Gen.C12.defaultPriority
        | v => int v
      return .cfgAdd (← nat (← fld a 1)) ⟨← nat (← fld a 2), ← bool (← fld a 3)⟩ p
    | _ => throw "unknown configuration operation"
  | _ => throw "configuration operation: array expected"

def ids (ls : List Listener) : Json := jList (fun l => jNat l.id) ls

/-- outputs, compact: add -> null, dispatch -> [[ids called], stopped], has -> bool,
get(e) -> [ids], get() -> {"d": [[e, [ids]], ...]}, priority -> int|null -/
def out : Out → Json
  | .unit => .null
  | .called ls st => .arr #[ids ls, .bool st]
  | .bool b => .bool b
  | .list ls => ids ls
  | .dict d => Json.mkObj [("d", jList (fun (x : Nat × List Listener) => .arr #[jNat x.1, ids x.2]) d)]
  | .prio p => jOpt jInt p

/-- `c12.run {ops: [...]}` -> `{"ok": {"outs": [...], "spec": [...]}}`: the outputs of the
CONCRETE model (`run init ops`) and, separately, what the abstract specification says
(`specRun [] ops`, computed from the log of registrations only); `{"err": name}` if the model
raised.  Field `wf`: `reg_once` - no listener is registered twice for one event in this history
(`regOnceB`, the hypothesis of `Props.C12.dispatch_each_once_decided`). -/
def handle (m : String) (j : Json) : Option (R Json) :=
  match m with
  | "c12.run" => some do
      let ops ← (← fArr j "ops").toList.mapM op
      let spec := jList out (specRun [] ops)
      let wf := Json.mkObj [("reg_once", .bool (regOnceB (logOf ops)))]
      match run init ops with
      | .ok (_, outs) => return (jOk (Json.mkObj [("outs", jList out outs), ("spec", spec)])).setObjVal! "wf" wf
      | .error e => return Json.mkObj [("err", .str e.name), ("spec", spec), ("wf", wf)]
  | "c12.cfgrun" => some do
      -- a history on an ApplicationConfig and the dispatcher the caller created (`crun CSt.init`); `lazy`: the caller
      -- created none (every operation goes through the configuration).  One output per operation, null for `set`.
      let ops ← (← fArr j "ops").toList.mapM cop
      match crun CSt.init ops with
      | .error e => return Json.mkObj [("err", .str e.name)]
      | .ok (_, outs) =>
        let rec weave : List COp → List Out → List Json
          | [], _ => []
          | .set :: r, os => Json.null :: weave r os
          | _ :: r, o :: os => out o :: weave r os
          | _ :: _, [] => []
        return jOk (jList id (weave ops outs))
  | _ => none

end Clikit.Drv.C12
