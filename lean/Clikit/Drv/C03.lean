import Clikit.Drv.C01
import Clikit.Model.Resolver
import Clikit.Model.AliasCfg
/-! Driver entries of the resolver model: `c03.resolve`, `c03.history`, `c03.lead`, `c03.walk`, `c03.same`. -/
namespace Clikit.Drv.C03
open Lean Clikit.Drv Clikit.Parser Clikit.Resolver

/-- `{name, aliases, default, anonymous, lenient, fmt, subs:[…]}` -/
partial def cmdOf (j : Json) : R Cmd := do
  let name ← fChars j "name"
  let al ← (← fArr j "aliases").toList.mapM asChars
  let d ← fBool j "default"
  let an ← fBool j "anonymous"
  let len ← fBool j "lenient"
  let f ← C01.fmtOf (← field j "fmt")
  let subs ← (← fArr j "subs").toList.mapM cmdOf
  return Cmd.mk name al d an f len subs

/-- one configuration call: `["add", c, a]`, `["adds", c, [..]]`, `["set", c, [..]]`, `["new_list", k, [..]]`,
`["set_list", c, k]`, `["adds_list", c, k]`, `["append_list", k, a]`, `["set_from", c, d]` -/
def aliasOpOf (j : Json) : R AliasCfg.Op := do
  match j with
  | .arr #[.str "add", c, a] => return .add (← asNat c) (← asChars a)
  | .arr #[.str "adds", c, .arr l] => return .adds (← asNat c) (← l.toList.mapM asChars)
  | .arr #[.str "set", c, .arr l] => return .set (← asNat c) (← l.toList.mapM asChars)
  | .arr #[.str "new_list", k, .arr l] => return .newList (← asNat k) (← l.toList.mapM asChars)
  | .arr #[.str "set_list", c, k] => return .setList (← asNat c) (← asNat k)
  | .arr #[.str "adds_list", c, k] => return .addsList (← asNat c) (← asNat k)
  | .arr #[.str "append_list", k, a] => return .appendList (← asNat k) (← asChars a)
  | .arr #[.str "set_from", c, d] => return .setFrom (← asNat c) (← asNat d)
  | _ => .error "c03.aliases: malformed configuration call"

def handle (m : String) (j : Json) : Option (R Json) :=
  match m with
  | "c03.aliases" => some do
      -- the aliases each of the `n` commands (numbered in configuration order) is configured with after the calls
      let n ← fNat j "n"
      let ops ← (← fArr j "ops").toList.mapM aliasOpOf
      let s := AliasCfg.run AliasCfg.St.init ops
      return jList (fun i => jStrs (s.cmds i)) (List.range n)
  | "c03.resolve" => some do
      let app ← (← fArr j "commands").toList.mapM cmdOf
      let toks ← (← fArr j "tokens").toList.mapM asChars
      let cv ← C01.convOf j
      -- the format of the selected command is needed to print the parsed values
      match resolve cv app toks with
      | .error e => return jErr e
      | .ok (path, a) =>
        return jOk (Json.mkObj [("path", jStrs path), ("args_set", C01.jPairs a.args),
                                 ("opts_set", C01.jPairs a.opts)])
  | "c03.history" => some do
      -- the calls `lines` made one after the other on ONE resolver object (`resolveHistory`): the selection of each
      let app ← (← fArr j "commands").toList.mapM cmdOf
      let lines ← (← fArr j "lines").toList.mapM fun l => do
        match l with
        | .arr a => a.toList.mapM asChars
        | _ => .error "c03.history: a line is a list of tokens"
      let cv ← C01.convOf j
      return jList (fun r => match r with
        | .error e => jErr e
        | .ok (path, a) => jOk (Json.mkObj [("path", jStrs path), ("args_set", C01.jPairs a.args),
                                             ("opts_set", C01.jPairs a.opts)]))
        (resolveHistory cv app none lines)
  | "c03.lead" => some do
      let toks ← (← fArr j "tokens").toList.mapM asChars
      return jStrs (lead toks)
  | "c03.walk" => some do
      let app ← (← fArr j "commands").toList.mapM cmdOf
      let names ← (← fArr j "names").toList.mapM asChars
      return match walk (namedColl app) none names with
        | none => Json.null
        | some (_, p) => jStrs p
  | "c03.same" => some do
      -- do the two name lists look up the same commands in this tree, level by level?
      -- (sufficient check for the hypothesis `SameLookups` of `Props/C03.alias_invariant`)
      let app ← (← fArr j "commands").toList.mapM cmdOf
      let a ← (← fArr j "names").toList.mapM asChars
      let b ← (← fArr j "names2").toList.mapM asChars
      return Json.bool (sameLookupsB (namedColl app) a b)
  | _ => none

end Clikit.Drv.C03
