import Clikit.Drv.Util
import Clikit.Model.Parser
import Clikit.Model.Sem
/-!
Driver entries of the parser model, shared by C01, C02 and C05:
`c01.parse` (one request) and `c05.history` (requests issued to ONE parser object).
-/
namespace Clikit.Drv.C01
open Lean Clikit.Drv Clikit.Parser

def scalarOf (j : Json) : R Scalar :=
  match j with
  | .null => .ok .none
  | _ =>
    match j.getObjVal? "b" with
    | .ok (.bool b) => .ok (.bool b)
    | _ =>
    match j.getObjVal? "i" with
    | .ok (.str s) => match s.toInt? with
      | some n => .ok (.int n)
      | none => .error s!"bad int literal {s}"
    | _ =>
    match j.getObjVal? "s" with
    | .ok (.str s) => .ok (.str s.toList)
    | _ =>
    match j.getObjVal? "f" with
    | .ok (.str s) => .ok (.float s.toList)
    | _ => .error s!"bad scalar {j.compress}"

def pyValOf (j : Json) : R PyVal :=
  match j.getObjVal? "l" with
  | .ok (.arr a) => do
    let l ← a.toList.mapM scalarOf
    return .list l
  | _ => do return .scalar (← scalarOf j)

def jScalar : Scalar → Json
  | .none => .null
  | .bool b => Json.mkObj [("b", .bool b)]
  | .int n => Json.mkObj [("i", .str (toString n))]
  | .str s => Json.mkObj [("s", jStr s)]
  | .float r => Json.mkObj [("f", jStr r)]

def jPyVal : PyVal → Json
  | .scalar s => jScalar s
  | .list l => Json.mkObj [("l", jList jScalar l)]

def vtypeOf (s : String) : R VType :=
  match s with
  | "string" => .ok .string
  | "boolean" => .ok .boolean
  | "integer" => .ok .integer
  | "float" => .ok .float
  | _ => .error s!"bad type {s}"

def cmdOf (j : Json) : R CmdName := do
  let n ← fChars j "name"
  let al ← (← fArr j "aliases").toList.mapM asChars
  return { name := n, aliases := al }

def argOf (j : Json) : R Arg := do
  return { name := ← fChars j "name", required := ← fBool j "required", multi := ← fBool j "multi",
           ty := ← vtypeOf (← fStr j "type"), nullable := ← fBool j "nullable",
           default := ← pyValOf ((fOpt j "default").getD .null) }

def optOf (j : Json) : R Opt := do
  return { long := ← fChars j "long", short := ← fOptChars j "short", accepts := ← fBool j "accepts",
           valReq := ← fBool j "required", valOpt := ← fBool j "optional", multi := ← fBool j "multi",
           ty := ← vtypeOf (← fStr j "type"), nullable := ← fBool j "nullable",
           default := ← pyValOf ((fOpt j "default").getD .null) }

def fmtOf (j : Json) : R Fmt := do
  let cmds ← (← fArr j "cmds").toList.mapM cmdOf
  let args ← (← fArr j "args").toList.mapM argOf
  let opts ← (← fArr j "opts").toList.mapM optOf
  return { cmds := cmds, args := args, opts := opts }

/-- a conversion table `[[text, result|null], …]` -/
def tableOf (j : Json) (k : String) : R (List (Str × Option String)) := do
  match fOpt j k with
  | none => return []
  | some (.arr a) =>
    a.toList.mapM fun e =>
      match e with
      | .arr #[.str t, .str r] => .ok (t.toList, some r)
      | .arr #[.str t, .null] => .ok (t.toList, none)
      | _ => .error s!"bad table entry in {k}"
  | some _ => .error s!"field {k}: array expected"

def convOf (j : Json) : R Conv := do
  let ints ← tableOf j "ints"
  let floats ← tableOf j "floats"
  return {
    intOf := fun s => match ints.find? (fun e => e.1 == s) with
      | some (_, some r) => r.toInt?
      | _ => none
    floatOf := fun s => match floats.find? (fun e => e.1 == s) with
      | some (_, some r) => some r.toList
      | _ => none }

def jPairs (l : List (Str × PyVal)) : Json := jList (fun (p : Str × PyVal) => Json.arr #[jStr p.1, jPyVal p.2]) l

def jRes (r : Except Err PyVal) : Json :=
  match r with
  | .ok v => Json.mkObj [("v", jPyVal v)]
  | .error e => Json.mkObj [("err", .str e.name)]

def jArgs (f : Fmt) (r : Except Err Args) : Json :=
  match r with
  | .error e => jErr e
  | .ok a => jOk (Json.mkObj [
      ("args_set", jPairs (a.arguments f false)),
      ("args_all", jPairs (a.arguments f true)),
      ("opts_set", jPairs (a.options f false)),
      ("opts_all", jPairs (a.options f true)),
      ("option_long", jList (fun (o : Opt) => Json.arr #[jStr o.long, jRes (a.option f o.long)]) f.opts),
      ("option_short", jList (fun (o : Opt) => match o.short with
          | some s => Json.arr #[jStr s, jRes (a.option f s)]
          | none => .null) f.opts),
      ("argument_name", jList (fun (x : Arg) => Json.arr #[jStr x.name, jRes (a.argument f x.name)]) f.args),
      ("argument_index", jList (fun (i : Nat) => jRes (a.argumentAt f i)) (List.range f.args.length))])

def reqOf (j : Json) : R (Conv × Fmt × Bool × List Str) := do
  let f ← fmtOf (← field j "fmt")
  let toks ← (← fArr j "tokens").toList.mapM asChars
  let len ← fBool j "lenient"
  let cv ← convOf j
  return (cv, f, len, toks)

def handle (m : String) (j : Json) : Option (R Json) :=
  match m with
  | "c01.parse" => some do
      let (cv, f, len, toks) ← reqOf j
      return jArgs f (parse cv f len toks)
  | "c01.sem" => some do
      -- the token-free meaning of a list of items (Model/Sem.lean), then `parse()`'s second half
      let f ← fmtOf (← field j "fmt")
      let len ← fBool j "lenient"
      let cv ← convOf j
      let items ← (← fArr j "sems").toList.mapM fun (e : Json) => do
        match fOpt e "pos" with
        | some (.str v) => pure (Sem.pos v.toList)
        | some _ => throw "pos: string expected"
        | none =>
          let long ← fChars e "opt"
          let v ← fOptChars e "v"
          match f.opts.find? (fun o => o.long == long) with
          | some o => pure (Sem.opt o v)
          | none => throw s!"unknown option in sems"
      return jArgs f (parseSem cv f len items)
  | "c01.wf" => some do
      -- do the hypotheses of the re-alignment theorems (Props/C01) hold for this format?
      let f ← fmtOf (← field j "fmt")
      return Json.mkObj [("multi_last", Json.bool (multiLastB f.fargs)), ("nodup", Json.bool (nodupKeysB f.fargs))]
  | "c05.history" => some do
      let reqs ← (← fArr j "requests").toList.mapM reqOf
      let rec go (prev : St) : List (Conv × Fmt × Bool × List Str) → List Json
        | [] => []
        | (cv, f, len, toks) :: r =>
          let (res, st) := parseFrom prev cv f len toks
          jArgs f res :: go st r
      return Json.arr (go St.empty reqs).toArray
  | _ => none

end Clikit.Drv.C01
