import Clikit.Drv.Util
import Clikit.Model.Wrap
import Clikit.Model.Table
import Clikit.Model.TableFmt
namespace Clikit.Drv.C14
open Lean Clikit.Drv Clikit.Table

def strList (j : Json) : R (List Str) :=
  match j with
  | .arr a => a.toList.mapM asChars
  | _ => .error "array of strings expected"

def natList (j : Json) : R (List Nat) :=
  match j with
  | .arr a => a.toList.mapM asNat
  | _ => .error "array of naturals expected"

/-- the style named by the request; `header_format: [pre, post]` overrides the header cell format -/
def styleOf (j : Json) : R Clikit.Gen.C14.TableStyle := do
  let name ← fStr j "style"
  match Clikit.Gen.C14.styles.lookup name with
  | none => .error s!"unknown style {name}"
  | some st =>
    match fOpt j "header_format" with
    | none => pure st
    | some (.arr #[.str a, .str b]) => pure { st with header_cell_format := (a.toList, b.toList) }
    | some _ => .error "header_format: [pre, post] expected"

/-- every `textwrap.wrap(text, width)` call `_wrap_column` makes, in call order, with the model's answer -/
def wrapTrace (cols : List Column) (outs : List ColOut) : List Json :=
  (cols.zip outs).flatMap fun (col, o) =>
    match o.assigned with
    | none => []
    | some w => (col.filter (fun c => c.len > w)).map fun c =>
        Json.arr #[jStr c.text, jNat w, jStrs (Clikit.Wrap.wrap w c.text)]

/-- the answer of `c14.render` / `c14.render_fmt` for the table `t` of VISIBLE cells -/
def renderAnswer (st : Clikit.Gen.C14.TableStyle) (given : List Nat) (t : Table) (width indent : Nat) : Json :=
  let res : Except Err Json := do
    let outs ← if t.rows.isEmpty then pure [] else layout floatShare st t width indent
    let lines ← render floatShare st given t width indent
    pure (Json.mkObj [("lines", jStrs lines), ("column_lengths", jList jNat (outs.map (·.width))),
                      ("wraps", .arr (wrapTrace (initRows t.n t.allRows) outs).toArray)])
  let wf := Json.mkObj [("feasible", .bool (feasibleB st t width indent)),
                        ("aligns", .bool (decide (given.length ≤ t.n))),
                        ("style_ok", .bool (styleOkB st t.header.isSome)),
                        ("n_pos", .bool (decide (1 ≤ t.n))),
                        ("right_solid", .bool (rightSolidB st)),
                        ("all", .bool (wfB st given t width indent))]
  (jExcept id res).setObjVal! "wf" wf

/-- the table, alignments, width and indentation of a rendering request -/
def tableOf (j : Json) : R (Table × List Nat × Nat × Nat) := do
  let header ← match fOpt j "header" with
    | none => pure none
    | some h => (strList h).map some
  let rows ← (← fArr j "rows").toList.mapM strList
  let n ← fNat j "n"
  let given ← natList (← field j "alignments")
  let width ← fNat j "width"
  let indent ← fNat j "indent"
  if rows.any (fun r => r.length != n) || (header.map (fun h => h.length != n)).getD false then
    .error "rows must have n cells"
  else
    return ({ header := header, rows := rows, n := n }, given, width, indent)

/--
* `c14.wrap {text, width}` -> the lines of the `textwrap.wrap` model (or `ValueError`);
* `c14.render {style, header_format?, header: [..]|null, rows: [[..]], n, alignments: [..],
  width, indent}` -> `{lines, column_lengths, wraps}` (or the exception name), plus the field `wf`:
  the hypotheses of the rendering theorems of Props/C14 decided for this style, table, alignment list
  and width (`Props.C14.wf_decides`);
* `c14.render_fmt {.. as c14.render, cells with their style tags .., styles: [tag, ..]}` -> the same for the
  table as a formatter knowing exactly these tags shows it, plus `visible` (the visible cells);
* `c14.share {l, a, w}` -> `int(round(l / a * w))` as the executable model computes it.
-/
def handle (m : String) (j : Json) : Option (R Json) :=
  match m with
  | "c14.wrap" => some do
      let t ← fChars j "text"
      let w ← fNat j "width"
      return jExcept jStrs (Clikit.Wrap.wrapE w t)
  | "c14.share" => some do
      let l ← fNat j "l"
      let a ← fNat j "a"
      let w ← fNat j "w"
      if a = 0 then .error "a = 0" else return jNat (floatShare l a w)
  | "c14.render" => some do
      let st ← styleOf j
      let (t, given, width, indent) ← tableOf j
      return renderAnswer st given t width indent
  | "c14.render_fmt" => some do
      -- cells WITH their style tags and the tags the formatter of the I/O knows at the time of this rendering
      -- (`styles`: lowered names of its style set + the inline specifications that are styles): the model removes
      -- the format itself (Model/TableFmt.lean, through the formatter model of C11) and renders the visible table
      let st ← styleOf j
      let (t, given, width, indent) ← tableOf j
      let known ← strList (← field j "styles")
      match visibleTable (knownResolver known) t with
      | .error e => return (jErr e).setObjVal! "wf" .null
      | .ok v =>
        return (renderAnswer st given v width indent).setObjVal! "visible"
          (jList jStrs v.allRows)
  | _ => none

end Clikit.Drv.C14
