import Clikit.Drv.Util
import Clikit.Model.Output
import Clikit.Model.SectionScopes
import Clikit.Model.StyleSets
/-!
Driver entries of the C11 models:
`c11.sgr` (a style through one of the three ways of supplying it - route `ctag`: passed for a single call while
ANOTHER style is registered under its tag; field `spec`: the codes the
specification demands), `c11.render` (a message on a formatter), `c11.write` (one writing method),
`c11.scopes` (a program of indentation scopes), `c11.secprog` (a program of indentation scopes over SEVERAL
section outputs, `Model/SectionScopes.lean`).  `c11.render` / `c11.write` with `"wf": true` also
answer the deciders of the hypotheses of the message theorems (field `wf`).
-/
namespace Clikit.Drv.C11
open Lean Clikit.Drv Clikit.Style Clikit.Markup Clikit.Output

def styleOf (j : Json) : R Style := do
  let attrs ← (← fArr j "attrs").toList.mapM asStr
  for a in attrs do
    if !(["bold", "italic", "dark", "underlined", "blinking", "inverse", "hidden"].contains a) then
      throw s!"unknown attribute {a}"
  return { tag := ← fOptChars j "tag", fg := ← fOptChars j "fg", bg := ← fOptChars j "bg",
           bold := attrs.contains "bold", italic := attrs.contains "italic", dark := attrs.contains "dark",
           underlined := attrs.contains "underlined", blinking := attrs.contains "blinking",
           inverse := attrs.contains "inverse", hidden := attrs.contains "hidden" }

def optStyleOf (j : Json) (k : String) : R (Option Style) :=
  match fOpt j k with
  | none => .ok none
  | some v => do return some (← styleOf v)

/-- field `styles` of `c11.render`: absent / null = the formatter was built without a style set (`None`: the default
one); `{base: "empty" | "default", remove: [tag, …], add: [style with tag, …]}` = it was built with the StyleSet object
obtained from an empty `StyleSet()` / a `DefaultStyleSet()` by these `remove` and `add` calls -/
def styleSetArg (j : Json) : R (Option (List Style)) :=
  match fOpt j "styles" with
  | none => .ok none
  | some v => do
    let base ← (match (← fStr v "base") with
      | "empty" => pure []
      | "default" => pure defaultStyleList
      | b => throw s!"unknown style set base {b}" : R (List Style))
    let removed ← (← fArr v "remove").toList.mapM asChars
    let added ← (← fArr v "add").toList.mapM styleOf
    return some (styleSetOf base removed added)

/-- field `emptied` of the answers of `c11.render` for a request with `styles`: the decider of the hypothesis of
`Props.C11.style_set_emptied` (`emptiesB`, `empties_decides`) on the base and the `remove` calls of the request - compared
with whether the real `StyleSet` object holds no style after the same calls -/
def emptiedArg (j : Json) : R (Option Bool) :=
  match fOpt j "styles" with
  | none => .ok none
  | some v => do
    let base ← (match (← fStr v "base") with
      | "empty" => pure []
      | "default" => pure defaultStyleList
      | b => throw s!"unknown style set base {b}" : R (List Style))
    let removed ← (← fArr v "remove").toList.mapM asChars
    return some (emptiesB base removed)

def withEmptied (e : Option Bool) (ans : Json) : Json :=
  match e with
  | some b => ans.setObjVal! "emptied" (.bool b)
  | none => ans

/-- `{fg: code|null, bg: code|null, opts: [[code, name], …]}` -/
def pastelOf (j : Json) : R PastelStyle := do
  let opts ← (← fArr j "opts").toList.mapM (fun p => do
    match p with
    | .arr #[c, n] => return (← asNat c, ← asChars n)
    | _ => throw "option entry: [code, name] expected")
  return { fg := ← fOptNat j "fg", bg := ← fOptNat j "bg", opts := opts }

def resOf (j : Json) : R Res :=
  match j with
  | .null => .ok .unknown
  | .str "invalid" => .ok .invalid
  | .obj _ => do return .style (← pastelOf j)
  | _ => .error "resolver entry: null, \"invalid\" or a style expected"

/-- the resolver table `[[tag, tag.lower(), entry], …]`: `entry` is what a pastel instance without
clikit's styles answers for the lowered tag; registered names are resolved by the model's registry -/
def tableOf (j : Json) : R (List (Str × Str × Res)) := do
  (← fArr j "table").toList.mapM (fun p => do
    match p with
    | .arr #[t, l, e] => return (← asChars t, ← asChars l, ← resOf e)
    | _ => throw "table entry: [tag, lowered, entry] expected")

def tagName : Tok → Option Str
  | .open t => some t
  | .close t => some t
  | _ => none

/-- every tag the model's scanner finds must be in the table -/
def covered (tab : List (Str × Str × Res)) (msg : Str) : Bool :=
  (lex msg).all (fun t => match tagName t with
    | some n => dictHas n tab
    | none => true)

def resolverOf (reg : Registry) (tab : List (Str × Str × Res)) : Resolver := fun t =>
  match dictGet? t tab with
  | some (low, e) =>
    match dictGet? (some low) reg with
    | some p => .style p
    | none => e
  | none => .unknown

/-- the stack left by earlier `<name>` tags (registered names, in the order they were pushed) -/
def stackOf (reg : Registry) (j : Json) : R Stack :=
  match fOpt j "stack" with
  | none => .ok []
  | some (.arr a) => do
    let l ← a.toList.mapM (fun n => do
      match dictGet? (some (← asChars n)) reg with
      | some p => return p
      | none => throw "stack entry is not a registered style")
    return l.reverse
  | some _ => .error "field stack: array expected"

def fmtOf (s : String) : R Fmt :=
  match s with
  | "ansi" => .ok (.ansi true)
  | "ansi_unforced" => .ok (.ansi false)
  | "plain" => .ok .plain
  | "null" => .ok .null
  | _ => .error s!"unknown formatter {s}"

def methodOf (s : String) : R Method :=
  match s with
  | "write" => .ok .write
  | "write_line" => .ok .writeLine
  | "write_raw" => .ok .writeRaw
  | "write_line_raw" => .ok .writeLineRaw
  | "error" => .ok .error
  | "error_line" => .ok .errorLine
  | "error_raw" => .ok .errorRaw
  | "error_line_raw" => .ok .errorLineRaw
  | "overwrite" => .ok .overwrite
  | _ => .error s!"unknown method {s}"

def targetOf (s : String) : R Target :=
  match s with
  | "io" => .ok .io
  | "out" => .ok .out
  | "err" => .ok .err
  | _ => .error s!"unknown scope target {s}"

mutual
partial def stmtOf (j : Json) : R Prog := do
  match fOpt j "w" with
  | some (.str s) => return .line (← fBool j "err") s.toList
  | some _ => throw "field w: string expected"
  | none =>
  match fOpt j "scope" with
  | some (.str t) => return .scope (← targetOf t) (← fBool j "inc") (← fNat j "n") (← progOf (← fArr j "body").toList)
  | some _ => throw "field scope: string expected"
  | none =>
  match fOpt j "try" with
  | some (.arr a) => return .attempt (← progOf a.toList)
  | some _ => throw "field try: array expected"
  | none =>
  match fOpt j "raise" with
  | some _ => return .raise
  | none => throw s!"unknown statement {j.compress}"

partial def progOf (l : List Json) : R Prog :=
  match l with
  | [] => .ok .skip
  | s :: r => do return .seq (← stmtOf s) (← progOf r)
end

/-! ### programs of indentation scopes over several sections (`c11.secprog`) -/

def secLines (j : Json) : R (List Str) := do
  let ls ← (← fArr j "lines").toList.mapM asChars
  if ls.isEmpty then throw "lines: at least one line expected"
  if ls.any (·.contains '\n') then throw "lines: a line contains a newline"
  return ls

mutual
partial def sstmtOf (j : Json) : R SecScopes.SProg := do
  match fOpt j "create" with
  | some _ => return .create
  | none =>
  match fOpt j "op" with
  | some (.str "write") => return .act (.write (← fNat j "sec") (← secLines j))
  | some (.str "overwrite") => return .act (.overwrite (← fNat j "sec") (← secLines j))
  | some (.str "clear") => return .act (.clear (← fNat j "sec"))
  | some (.str "clearN") => return .act (.clearN (← fNat j "sec") (← fNat j "n"))
  | some _ => throw "field op: write / overwrite / clear / clearN expected"
  | none =>
  match fOpt j "scope" with
  | some (.str "out") => return .scope .out (← fBool j "inc") (← fNat j "n") (← sprogOf (← fArr j "body").toList)
  | some (.str "sec") =>
    return .scope (.sec (← fNat j "i")) (← fBool j "inc") (← fNat j "n") (← sprogOf (← fArr j "body").toList)
  | some _ => throw "field scope: out / sec expected"
  | none =>
  match fOpt j "try" with
  | some (.arr a) => return .attempt (← sprogOf a.toList)
  | some _ => throw "field try: array expected"
  | none =>
  match fOpt j "raise" with
  | some _ => return .raise
  | none => throw s!"unknown statement {j.compress}"

partial def sprogOf (l : List Json) : R SecScopes.SProg :=
  match l with
  | [] => .ok .skip
  | s :: r => do return .seq (← sstmtOf s) (← sprogOf r)
end

/-- the steps of the statements that do something (a scope entry / exit writes nothing) -/
def secSteps : List Section.IOp → List (List Term.Cmd × List Section.Sec) → List (List Term.Cmd × List Section.Sec)
  | .indent _ _ :: r, _ :: t => secSteps r t
  | _ :: r, x :: t => x :: secSteps r t
  | _, _ => []

/-- the hypotheses of the message theorems of Props/C11 (`message_ok_decides`), decided for this
message and this resolver -/
def jWf (rv : Resolver) (msg : Str) : Json :=
  Json.mkObj [("clean", .bool (cleanB msg)), ("balanced", .bool (balancedB rv (pieces msg)))]

/-- add the field `wf` to an answer when the request asks for it (`"wf": true`) -/
def withWf (req : Json) (rv : Resolver) (msg : Str) (ans : Json) : Json :=
  match fOpt req "wf" with
  | some (.bool true) => ans.setObjVal! "wf" (jWf rv msg)
  | _ => ans

/-- add the field `spec`: the codes the specification of `sgr_exact` demands for this style
(`Props.C11.spec_codes_decides`), `null` when a colour is outside the table -/
def withSpec (st : Style) (ans : Json) : Json :=
  ans.setObjVal! "spec" (jOpt (jList jNat) (specCodes st))

def jRender (r : Except Err (Str × Stack)) : Json :=
  match r with
  | .ok (o, st) => jOk (Json.mkObj [("out", jStr o), ("depth", jNat st.length)])
  | .error e => jErr e

def handle (m : String) (j : Json) : Option (R Json) :=
  match m with
  | "c11.sgr" => some do
      let st ← styleOf j
      let text ← fChars j "text"
      let route ← fStr j "route"
      match route with
      | "convert" =>
        return withSpec st (jExcept (fun (p : PastelStyle) => Json.mkObj
          [("codes", jList jNat (codes p)), ("applied", jStr (Style.apply p text))]) (convert st))
      | "call" =>
        match defaultRegistry with
        | .error e => return withSpec st (jErr e)
        | .ok reg => return withSpec st (jRender (ansiFormat (registryResolver reg) [] text (some st)))
      | "tag" | "add" =>
        let tag ← fChars j "tag"
        let base := if route == "tag" then pastelRegistry else defaultRegistry
        match base with
        | .error e => return withSpec st (jErr e)
        | .ok reg =>
          match register reg st with
          | .error e => return withSpec st (jErr e)
          | .ok reg' =>
            let msg := '<' :: (tag ++ '>' :: (text ++ '<' :: '/' :: (tag ++ ['>'])))
            return withSpec st (jRender (ansiFormat (registryResolver reg') [] msg none))
      | "ctag" =>
        -- a style passed for a single call that carries a tag; `reg`: the style registered under that tag
        -- (another one, or none); `base`: what the formatter was built with
        let base ← fStr j "base"
        let regSt ← optStyleOf j "reg"
        let baseReg ← (match base with
          | "pastel" => pure pastelRegistry
          | "default" => pure defaultRegistry
          | _ => throw s!"unknown base {base}" : R (Except Err Registry))
        match baseReg with
        | .error e => return withSpec st (jErr e)
        | .ok reg =>
          let reg2 : Except Err Registry := match regSt with
            | none => .ok reg
            | some r => register reg r
          match reg2 with
          | .error e => return withSpec st (jErr e)
          | .ok reg' => return withSpec st (jRender (ansiFormat (registryResolver reg') [] text (some st)))
      | _ => throw s!"unknown route {route}"
  | "c11.render" => some do
      let msg ← fChars j "msg"
      let tab ← tableOf j
      let style ← optStyleOf j "style"
      let mode ← fStr j "mode"
      let em ← emptiedArg j
      match formatterRegistry (← styleSetArg j) with
      | .error e => return withEmptied em (jErr e)
      | .ok reg =>
        let st ← stackOf reg j
        if !covered tab msg then return Json.mkObj [("err", .str "UnresolvedTag")]
        let rv := resolverOf reg tab
        match mode with
        | "ansi" => return withEmptied em (withWf j rv msg (jRender (ansiFormat rv st msg style)))
        | "plain" => return withEmptied em (withWf j rv msg (jRender (plainFormat rv st msg)))
        | _ => throw s!"unknown mode {mode}"
  | "c11.write" => some do
      let text ← fChars j "text"
      let tab ← tableOf j
      if !covered tab text then return Json.mkObj [("err", .str "UnresolvedTag")]
      let fmt ← fmtOf (← fStr j "fmt")
      let meth ← methodOf (← fStr j "method")
      let kind ← fStr j "kind"
      let flags ← fOptNat j "flags"
      match defaultRegistry, formatOutput (← fBool j "stream_ansi") fmt with
      | .error e, _ => return jErr e
      | _, .error e => return jErr e
      | .ok reg, .ok fo =>
        let rv := resolverOf reg tab
        let o : Out := { fmt := fmt, formatOutput := fo, quiet := ← fBool j "quiet",
                         verbosity := ← fNat j "verbosity", indent := ← fNat j "indent" }
        let one (r : Except Err (Str × Out)) : Json :=
          withWf j rv text (match r with
          | .ok (b, _) => jOk (Json.mkObj [("out", jStr b), ("err", jStr [])])
          | .error e => jErr e)
        match kind with
        | "output" => return one (o.call rv meth text flags)
        | "section" => return one (o.sectionCall rv meth text flags)
        | "io" =>
          match ({ out := o, err := o } : IOm).call rv meth text flags with
          | .ok (b, e, _) => return withWf j rv text (jOk (Json.mkObj [("out", jStr b), ("err", jStr e)]))
          | .error e => return withWf j rv text (jErr e)
        | _ => throw s!"unknown kind {kind}"
  | "c11.scopes" => some do
      let prog ← progOf (← fArr j "prog").toList
      let i : Ind := { out := ← fNat j "out", err := ← fNat j "err" }
      let (w, i', r) := exec prog i
      let cat (e : Bool) : Str := (w.filter (·.1 == e)).foldr (fun p acc => p.2 ++ acc) []
      return Json.mkObj [("out", jStr (cat false)), ("err", jStr (cat true)),
                         ("order", jList (fun (p : Written) => Json.bool p.1) w),
                         ("indent", jList jNat [i'.out, i'.err]), ("raised", .bool r)]
  | "c11.secprog" => some do
      -- {width, ansi, out, prog}: per executed create / operation the bytes and every section (creation order);
      -- the indentations afterwards; whether the exception propagates; `lexical`: whether the base model on the
      -- lexical reading of the program gives the same sections and the same stream (`section_scopes_lexical`)
      let w ← fNat j "width"
      if w = 0 then throw "width: must be at least 1"
      let ansi ← fBool j "ansi"
      let prog ← sprogOf (← fArr j "prog").toList
      let e0 : SecScopes.Env := { out := ← fNat j "out", ind := [] }
      if !(SecScopes.validP prog 0).1 then throw "prog: a section that does not exist"
      let (h, e', r) := SecScopes.compile prog e0
      let st0 : Section.IState := { secs := [], ind := [] }
      let tr := secSteps h (Section.traceI ansi w st0 h)
      let fin := Section.runI ansi w st0 h
      let lx := Section.run ansi w [] (SecScopes.lexical prog e0).1
      let jSec (s : Section.Sec) : Json := Json.mkObj [("content", jStrs s.content), ("rows", jNat s.rows)]
      return Json.mkObj [
        ("steps", jList (fun (p : List Term.Cmd × List Section.Sec) =>
            Json.mkObj [("bytes", jStr (Term.emit p.1)), ("secs", jList jSec p.2.reverse)]) tr),
        ("indent", jList jNat (e'.out :: e'.ind)), ("raised", .bool r),
        ("lexical", .bool (lx.1 == fin.1.secs && lx.2 == fin.2))]
  | _ => none

end Clikit.Drv.C11
