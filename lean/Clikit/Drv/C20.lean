import Clikit.Drv.Util
import Clikit.Model.Trace
/-!
Driver entries of the trace model (C20):

* `c20.snippet {lines | src+keywords+builtins, line, before, after, utf8}` - numbered window of highlighted lines
* `c20.split {keywords, builtins, srcs:[stream…]}` - token streams → highlighted lines
* `c20.frames {ignoreSet, debug, frames:[{ignored}]}` - which frames survive the ignore filter
* `c20.render {keywords, builtins, simple, utf8, verbosity, ignoreSet, name, msg, sources, frames}` -
  the strings handed to the formatter (the formatter itself is pastel: applied by the harness)
* `c20.wf {sources, frames, ignoreSet, debug}` - the deciders of the hypotheses of `render_fails_iff` on the real
  frames (`frames_ok`) and the collections the port of crashtest's `compact` makes of the surviving frames
(`c20.split` also answers `contract`: the status of each stream w.r.t. the hypothesis of `lines_verbatim`)

A token stream is `{lines:[text…], toks:[[kind, text, srow, scol, erow, ecol, lineIndex]…]}`
(the `line` attribute of the tokens is interned in `lines`); a failed tokenization is
`{error: "<PyType>"}`.
-/
namespace Clikit.Drv.C20
open Lean Clikit Clikit.Drv Clikit.Trace

def kindOf (s : String) : Kind :=
  match s with
  | "STRING" => .str
  | "NUMBER" => .num
  | "COMMENT" => .comment
  | "OP" => .op
  | "NEWLINE" => .newline
  | "ENDMARKER" => .endmarker
  | _ => .other

def tokOf (lines : Array Str) (j : Json) : R Tok :=
  match j with
  | .arr a =>
    if a.size != 7 then .error "token: 7 fields expected" else do
      let kind ← asStr a[0]!
      let text ← asChars a[1]!
      let sr ← asNat a[2]!
      let sc ← asNat a[3]!
      let er ← asNat a[4]!
      let ec ← asNat a[5]!
      let li ← asNat a[6]!
      match lines[li]? with
      | none => .error "token: line index out of range"
      | some l => return { kind := kindOf kind, text := text, srow := sr, scol := sc, erow := er, ecol := ec, line := l }
  | _ => .error "token: array expected"

/-- a token stream or the tokenizer's failure -/
def streamOf (j : Json) : R (Except Err (List Tok)) :=
  match fOpt j "error" with
  | some (.str e) => .ok (.error (.other e))
  | some _ => .error "stream: error must be a string"
  | none => do
    let lines ← (← fArr j "lines").mapM asChars
    let toks ← (← fArr j "toks").toList.mapM (tokOf lines)
    return .ok toks

def envOf (j : Json) : R Env := do
  let kw ← (← fArr j "keywords").toList.mapM asChars
  let bi ← (← fArr j "builtins").toList.mapM asChars
  return { keywords := kw, builtins := bi }

def frameOf (sources : Array (Except Err (List Tok))) (j : Json) : R Frame := do
  let si ← fNat j "src"
  let li ← fNat j "line"
  match sources[si]?, sources[li]? with
  | some fs, some ls =>
    return { file := ← fChars j "file", ignored := ← fBool j "ignored", lineno := ← fNat j "lineno",
             func := ← fChars j "func", fileToks := fs, lineText := ← fChars j "lineText", lineToks := ls }
  | _, _ => .error "frame: source index out of range"

def handle (m : String) (j : Json) : Option (R Json) :=
  match m with
  | "c20.snippet" => some do
      -- either already highlighted `lines`, or a token stream `src` (+ keywords / builtins)
      let lines ← match fOpt j "src" with
        | some sj => do
          let env ← envOf j
          match ← streamOf sj with
          | .error _ => pure none
          | .ok toks => pure (some (highlightedLines env toks))
        | none => do
          let ls ← (← fArr j "lines").toList.mapM asChars
          pure (some ls)
      let line ← fNat j "line"
      let b ← fNat j "before"
      let a ← fNat j "after"
      let utf8 ← fBool j "utf8"
      match lines with
      | none => return Json.mkObj [("err", .str "tokenizer")]
      | some lines =>
        let sn := codeSnippet lines line b a
        return Json.mkObj [("rendered", jStrs (renderSnippetLines utf8 lines line b a)),
                           ("numbers", jList jNat (sn.map (·.number))),
                           ("marked", jList Json.bool (sn.map (·.marked))),
                           ("bodies", jStrs (sn.map (·.body))),
                           ("offset", jNat (snippetOffset line b)),
                           ("width", jNat (numberWidth lines.length))]
  | "c20.split" => some do
      let env ← envOf j
      let srcs ← (← fArr j "srcs").toList.mapM streamOf
      let one (s : Except Err (List Tok)) : Json :=
        match s with
        | .error e => jErr e
        | .ok toks =>
          let hl := splitToLines env toks
          -- `contract`: does the stream satisfy the hypothesis `WF` of `Props.C20.lines_verbatim`?
          jOk (Json.mkObj [("lines", jStrs (hl.map renderHL)), ("plain", jStrs (hl.map plainHL)),
                           ("contract", .str (contractStatus env toks))])
      return Json.mkObj [("results", jList one srcs)]
  | "c20.frames" => some do
      let ig ← fBool j "ignoreSet"
      let dbg ← fBool j "debug"
      let flags ← (← fArr j "frames").toList.mapM (fun f => fBool f "ignored")
      let frames : List Frame := flags.map fun b =>
        { file := [], ignored := b, lineno := 0, func := [], fileToks := .ok [], lineText := [], lineToks := .ok [] }
      return Json.mkObj [("kept", jList Json.bool (frames.map (keepFrame ig dbg))),
                         ("count", jNat (filterFrames ig dbg frames).length)]
  | "c20.render" => some do
      let env ← envOf j
      let sources ← (← fArr j "sources").mapM streamOf
      let frames ← (← fArr j "frames").toList.mapM (frameOf sources)
      let r := renderMarkup env compact (← fBool j "simple") (← fBool j "utf8") (← fNat j "verbosity")
        (← fBool j "ignoreSet") (← fChars j "name") (← fChars j "msg") frames
      return jExcept jStrs r
  | "c20.wf" => some do
      -- the hypotheses of `Props.C20.render_fails_iff` on the real frames: the tokenizer's outcomes
      -- (`frames_ok`), and the collections of the port of crashtest's `compact` on the frames that
      -- survive the ignore filter (compared with the real engine's; `port_compact_sound`)
      let sources ← (← fArr j "sources").mapM streamOf
      let frames ← (← fArr j "frames").toList.mapM (frameOf sources)
      let stack := filterFrames (← fBool j "ignoreSet") (← fBool j "debug") frames
      let jFrame (f : Frame) : Json := Json.arr #[jStr f.file, jNat f.lineno, jStr f.func]
      return Json.mkObj [("frames_ok", .bool (framesOkB frames)),
                         ("compact", jList (fun (c : Coll) => Json.arr #[jList jFrame c.frames, jNat c.count])
                                       (compact stack))]
  | _ => none

end Clikit.Drv.C20
