import Clikit.Drv.C01
import Clikit.Model.ParserWF
/-!
Driver entry of C02: `c02.wf` - do the hypotheses about the FORMAT of the C02 theorems
(`FmtWF`, `LongOK` for every option, `MultiLast`, distinct argument keys) hold for this flattened
format read from the real builder?  (`Props/C02.wf_decides`; the parse itself is `c01.parse`.)
-/
namespace Clikit.Drv.C02
open Lean Clikit.Drv Clikit.Parser

def handle (m : String) (j : Json) : Option (R Json) :=
  match m with
  | "c02.wf" => some do
      let f ← C01.fmtOf (← field j "fmt")
      let cv ← C01.convOf j
      return Json.mkObj [("fmt_wf", Json.bool (fmtWFB cv f)), ("long_ok", Json.bool (allLongOKB f)),
                         ("short_ok", Json.bool (allShortOKB f)),
                         ("multi_last", Json.bool (multiLastB f.fargs)), ("nodup_keys", Json.bool (nodupKeysB f.fargs))]
  | _ => none

end Clikit.Drv.C02
