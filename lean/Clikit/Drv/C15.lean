import Clikit.Drv.Util
import Clikit.Model.Section
namespace Clikit.Drv.C15
open Lean Clikit.Drv Clikit.Term Clikit.Section

def lineOk (l : Str) : Bool := !(l.contains '\n')

def parseLines (j : Json) : R (List Str) := do
  let a ← fArr j "lines"
  let ls ← a.toList.mapM asChars
  if ls.isEmpty then throw "lines: at least one line expected"
  if !(ls.all lineOk) then throw "lines: a line contains a newline"
  return ls

def parseOp (j : Json) : R Op := do
  match (← fStr j "op") with
  | "create" => return .create
  | "write" => return .write (← fNat j "i") (← parseLines j)
  | "overwrite" => return .overwrite (← fNat j "i") (← parseLines j)
  | "clear" => return .clear (← fNat j "i")
  | "clearN" => return .clearN (← fNat j "i") (← fNat j "n")
  | o => throw s!"unknown op {o}"

def jSec (s : Sec) : Json :=
  Json.mkObj [("content", jStrs s.content), ("rows", jNat s.rows)]

def jScreen (s : Screen) : Json :=
  Json.mkObj [("rows", jStrs s.rows), ("cur", jNat s.cur)]

/-- `c15.run {width, ansi, pre:[lines], ops:[…]}` -> per op the emitted bytes and every
section (creation order) after the op; the screen after interpreting everything with the
line-level terminal, starting below the `pre` lines; whether lexing the whole byte stream gives
the command list back; `wf` / `anchored`: the deciders of the hypotheses of the theorems
(`Props.C15.wf_decides`) on this history and on the screen the `pre` lines leave behind.
`c15.term {width, bytes}` -> the byte stream lexed and interpreted on an empty screen. -/
def handle (m : String) (j : Json) : Option (R Json) :=
  match m with
  | "c15.run" => some do
      let w ← fNat j "width"
      if w = 0 then throw "width: must be at least 1"
      let ansi ← fBool j "ansi"
      let pre ← (← fArr j "pre").toList.mapM asChars
      if !(pre.all lineOk) then throw "pre: a line contains a newline"
      let ops ← (← fArr j "ops").toList.mapM parseOp
      if !(validOps 0 ops) then throw "ops: index of a section that does not exist"
      let tr := trace ansi w [] ops
      let cmds := tr.flatMap (·.1)
      let scr0 := execs w { rows := [], cur := 0 } (pre.map .print)
      let scr := execs w scr0 cmds
      let fin := run ansi w [] ops
      return Json.mkObj [
        ("steps", jList (fun (p : List Cmd × List Sec) =>
            Json.mkObj [("bytes", jStr (emit p.1)), ("secs", jList jSec p.2.reverse)]) tr),
        ("screen", jScreen scr),
        ("lex", .bool (lex (emit cmds) == some cmds)),
        ("run_agrees", .bool (fin.2 == cmds && some fin.1 == (tr.getLast?.map (·.2)).orElse (fun _ => some []))),
        ("wf", .bool (wfB w ops)),
        ("anchored", .bool (anchoredB scr0)),
        ("stream", jStr (emit fin.2))]
  | "c15.term" => some do
      let w ← fNat j "width"
      if w = 0 then throw "width: must be at least 1"
      let bytes ← fChars j "bytes"
      match lex bytes with
      | none => return Json.mkObj [("lexed", .null)]
      | some cmds =>
        return Json.mkObj [("lexed", jNat cmds.length),
                           ("screen", jScreen (execs w { rows := [], cur := 0 } cmds)),
                           ("bytes", jStr (emit cmds))]
  | _ => none

end Clikit.Drv.C15
