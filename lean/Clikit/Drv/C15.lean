import Clikit.Drv.Util
import Clikit.Model.Section
import Clikit.Model.SectionIndent
import Clikit.Model.SectionGate
namespace Clikit.Drv.C15
open Lean Clikit.Drv Clikit.Term Clikit.Section

def lineOk (l : Str) : Bool := !(l.contains '\n')

def parseLines (j : Json) : R (List Str) := do
  let a ← fArr j "lines"
  let ls ← a.toList.mapM asChars
  if ls.isEmpty then throw "lines: at least one line expected"
  if !(ls.all lineOk) then throw "lines: a line contains a newline"
  return ls

def parseOp (j : Json) : R Op := do
  match (← fStr j "op") with
  | "create" => return .create
  | "write" => return .write (← fNat j "i") (← parseLines j)
  | "overwrite" => return .overwrite (← fNat j "i") (← parseLines j)
  | "clear" => return .clear (← fNat j "i")
  | "clearN" => return .clearN (← fNat j "i") (← fNat j "n")
  | o => throw s!"unknown op {o}"

/-- an operation of a history with indentation: `create` may carry `indent` (what the section inherits),
`{"op": "indent", "i", "n"}` changes the indentation of section `i` -/
def parseIOp (j : Json) : R IOp := do
  match (← fStr j "op") with
  | "create" =>
    match fOpt j "indent" with
    | none => return .create 0
    | some _ => return .create (← fNat j "indent")
  | "indent" => return .indent (← fNat j "i") (← fNat j "n")
  | _ => return .op (← parseOp j)

/-- an operation of a history with the gate (`Model/SectionGate.lean`): `create` may carry `quiet` /
`verbosity` (what the section inherits from its output), `write` may carry `flags` (a flag word or null),
`{"op": "verbosity", "i", "v"}` / `{"op": "quiet", "i", "q"}` are the section's own setters -/
def parseGOp (j : Json) : R GOp := do
  match (← fStr j "op") with
  | "create" =>
    let n ← match fOpt j "indent" with
      | none => pure 0
      | some _ => fNat j "indent"
    let q ← match fOpt j "quiet" with
      | none => pure false
      | some _ => fBool j "quiet"
    let v ← match fOpt j "verbosity" with
      | none => pure 0
      | some _ => fNat j "verbosity"
    return .create n q v
  | "indent" => return .indent (← fNat j "i") (← fNat j "n")
  | "verbosity" => return .verbosity (← fNat j "i") (← fNat j "v")
  | "quiet" => return .quiet (← fNat j "i") (← fBool j "q")
  | "write" =>
    match fOpt j "flags" with
    | none => return .op (← parseOp j)
    | some _ => return .write (← fNat j "i") (← parseLines j) (← fOptNat j "flags")
  | _ =>
    match (← parseOp j) with
    | .create => throw "create: not an operation on a section"
    | o => return .op o

/-- every setter and every write names a section created before -/
def validG : Nat → List GOp → Bool
  | _, [] => true
  | k, .create _ _ _ :: r => validG (k + 1) r
  | k, .indent i _ :: r => decide (i < k) && validG k r
  | k, .verbosity i _ :: r => decide (i < k) && validG k r
  | k, .quiet i _ :: r => decide (i < k) && validG k r
  | k, .write i _ _ :: r => decide (i < k) && validG k r
  | k, .op o :: r => decide (target o < k) && validG k r

/-- every `indent` names a section created before -/
def validIndents : Nat → List IOp → Bool
  | _, [] => true
  | k, .create _ :: r => validIndents (k + 1) r
  | k, .indent i _ :: r => decide (i < k) && validIndents k r
  | k, .op _ :: r => validIndents k r

def jSec (s : Sec) : Json :=
  Json.mkObj [("content", jStrs s.content), ("rows", jNat s.rows)]

def jScreen (s : Screen) : Json :=
  Json.mkObj [("rows", jStrs s.rows), ("cur", jNat s.cur)]

/-- `c15.run {width, ansi, pre:[lines], ops:[…]}` -> per op the emitted bytes and every
section (creation order) after the op; the screen after interpreting everything with the
line-level terminal, starting below the `pre` lines; whether lexing the whole byte stream gives
the command list back; `wf` / `anchored`: the deciders of the hypotheses of the theorems
(`Props.C15.wf_decides`) on this history and on the screen the `pre` lines leave behind.
Operations may carry indentation (`parseIOp`, model `SectionIndent`): `sim_state` / `sim_stream` whether the base model on the indented history
(`flat`) gives the same sections / the same stream (`indent_simulates`).
Operations may carry the gate (`parseGOp`, model `SectionGate`): `gate_state` / `gate_stream` whether the indented
history without the suppressed calls (`gflat`) gives the same sections / the same stream (`gate_simulates`);
`sim_*` and `wf` speak about that indented history.
`c15.term {width, bytes}` -> the byte stream lexed and interpreted on an empty screen. -/
def handle (m : String) (j : Json) : Option (R Json) :=
  match m with
  | "c15.run" => some do
      let w ← fNat j "width"
      if w = 0 then throw "width: must be at least 1"
      let ansi ← fBool j "ansi"
      let pre ← (← fArr j "pre").toList.mapM asChars
      if !(pre.all lineOk) then throw "pre: a line contains a newline"
      let gops ← (← fArr j "ops").toList.mapM parseGOp
      if !(validG 0 gops) then throw "ops: index of a section that does not exist"
      -- the indented history the gated one amounts to (`Props.C15.gate_simulates`); without flags, quiet: itself
      let iops := gflat [] gops
      -- the base history the indented one simulates (`Props.C15.indent_simulates`); without indentation: itself
      let ops := flat [] iops
      if !(validOps 0 ops && validIndents 0 iops) then throw "ops: index of a section that does not exist"
      let st0 : IState := { secs := [], ind := [] }
      let g0 : GState := { st := st0, cfg := [] }
      let tr := traceG ansi w g0 gops
      let finG := runG ansi w g0 gops
      let cmds := tr.flatMap (·.1)
      let scr0 := execs w { rows := [], cur := 0 } (pre.map .print)
      let scr := execs w scr0 cmds
      let finI := runI ansi w st0 iops
      let fin := (finG.1.st.secs, finG.2)
      let base := run ansi w [] ops
      return Json.mkObj [
        ("steps", jList (fun (p : List Cmd × List Sec) =>
            Json.mkObj [("bytes", jStr (emit p.1)), ("secs", jList jSec p.2.reverse)]) tr),
        ("screen", jScreen scr),
        ("lex", .bool (lex (emit cmds) == some cmds)),
        ("run_agrees", .bool (fin.2 == cmds && some fin.1 == (tr.getLast?.map (·.2)).orElse (fun _ => some []))),
        ("wf", .bool (wfB w ops)),
        ("sim_state", .bool (base.1 == finI.1.secs)),
        ("sim_stream", .bool (base.2 == finI.2)),
        ("gate_state", .bool (finG.1.st == finI.1)),
        ("gate_stream", .bool (finG.2 == finI.2)),
        ("anchored", .bool (anchoredB scr0)),
        ("stream", jStr (emit fin.2))]
  | "c15.term" => some do
      let w ← fNat j "width"
      if w = 0 then throw "width: must be at least 1"
      let bytes ← fChars j "bytes"
      match lex bytes with
      | none => return Json.mkObj [("lexed", .null)]
      | some cmds =>
        return Json.mkObj [("lexed", jNat cmds.length),
                           ("screen", jScreen (execs w { rows := [], cur := 0 } cmds)),
                           ("bytes", jStr (emit cmds))]
  | _ => none

end Clikit.Drv.C15
