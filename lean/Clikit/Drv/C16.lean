import Clikit.Drv.Util
import Clikit.Model.Progress
namespace Clikit.Drv.C16
open Lean Clikit.Drv Clikit.Progress

def fOptInt (j : Json) (k : String) : R (Option Int) :=
  match fOpt j k with
  | none => .ok none
  | some v => match v.getInt? with
    | .ok n => .ok (some n)
    | .error _ => .error s!"field {k}: integer or null expected"

def parseKind (s : String) : R Kind :=
  match s with
  | "ansi" => .ok .ansi
  | "plain" => .ok .plain
  | "section" => .ok .section
  | "plain_section" => .ok .plainSection
  | _ => .error s!"unknown output kind {s}"

def parseOp (j : Json) : R (Op × Nat) := do
  let name ← fStr j "op"
  let t ← fNat j "t"
  match name with
  | "start" => return (.start (← fOptInt j "arg"), t)
  | "advance" => return (.advance (← fInt j "arg"), t)
  | "set_progress" => return (.setProgress (← fInt j "arg"), t)
  | "display" => return (.display, t)
  | "clear" => return (.clear, t)
  | "finish" => return (.finish, t)
  | "set_message" => return (.setMessage (← fChars j "arg"), t)
  | _ => .error s!"unknown op {name}"

/-- an operation or a setter called in the middle of the run: `set_min` / `set_max_interval` (ticks),
`set_redraw`, `set_bar_width` (naturals), `set_bar_char` / `set_empty_char` / `set_progress_char` /
`set_format` (texts) -/
def parseCall (j : Json) : R (Call × Nat) := do
  let name ← fStr j "op"
  let t ← fNat j "t"
  match name with
  | "set_min" => return (.set (.minInterval (← fNat j "arg")), t)
  | "set_max_interval" => return (.set (.maxInterval (← fNat j "arg")), t)
  | "set_redraw" => return (.set (.redrawFreq (← fNat j "arg")), t)
  | "set_bar_width" => return (.set (.barWidth (← fNat j "arg")), t)
  | "set_bar_char" => return (.set (.barChar (← fChars j "arg")), t)
  | "set_empty_char" => return (.set (.emptyChar (← fChars j "arg")), t)
  | "set_progress_char" => return (.set (.progressChar (← fChars j "arg")), t)
  | "set_format" => return (.set (.format (← fChars j "arg")), t)
  | _ => do
    let (o, t) ← parseOp j
    return (.op o, t)

/-- `bar_hyp`: the hypotheses of `Props.C16.bar_width_current_config` decided on the configuration in
force when the call was made (`barHypB`, `Props.C16.bar_hyp_decides`): [single characters, width bound] -/
def jCEvent (e : CEvent) : Json :=
  Json.mkObj [("w", jStrs e.res.writes),
              ("progress", jNat e.res.st.step),
              ("max", jNat e.res.st.max),
              ("err", match e.res.err with | none => .null | some x => .str x.name),
              ("bar_hyp", .arr #[.bool (singleCharsB e.cfg), .bool (barWidthOkB e.cfg)])]

def jEvent (e : Event) : Json :=
  Json.mkObj [("w", jStrs e.res.writes),
              ("progress", jNat e.res.st.step),
              ("max", jNat e.res.st.max),
              ("err", match e.res.err with | none => .null | some x => .str x.name)]

/-- `c16.run {kind, quiet, verbosity, columns, max, min_ticks, max_ticks|null, redraw|null,
bar_width|null, bar_char|null, empty_char|null, progress_char|null, format|null, message|null,
t0, ops:[{op, arg, t}]}` (operations and mid-run setters, see `parseCall`) -> per call the stream writes, the getters and the exception class; `hyp`: the
deciders of the hypotheses of the theorems on this configuration and history; `screen` (ANSI, not quiet; else null):
the rows of the terminal after the history, whether every frame fits its format (`framesFitB`), the lines of the latest write;
`hyp.ml_clean`: the inputs are clean in the multi-line sense (`mlCleanCfgB`, `mlCleanCallsB`: format without CR / ESC, bar characters
and messages without line break / CR / ESC, setter arguments included) - by `Props.C16.frames_fit_clean_dec` this implies `fits`.
`c16.roundq {a, b}` -> the correctly rounded quotient (self-test of the float model). -/
def handle (m : String) (j : Json) : Option (R Json) :=
  match m with
  | "c16.run" => some do
      let kind ← parseKind (← fStr j "kind")
      let quiet ← fBool j "quiet"
      let verbosity ← fNat j "verbosity"
      let columns ← fNat j "columns"
      if columns = 0 then throw "columns must be positive"
      let mx ← fInt j "max"
      let minTicks ← fNat j "min_ticks"
      let maxTicks ← fOptNat j "max_ticks"
      let redraw ← fOptNat j "redraw"
      let barWidth ← fOptNat j "bar_width"
      let barChar ← fOptChars j "bar_char"
      let emptyChar ← fOptChars j "empty_char"
      let progressChar ← fOptChars j "progress_char"
      let format ← fOptChars j "format"
      let message ← fOptChars j "message"
      let t0 ← fNat j "t0"
      let calls ← (← fArr j "ops").toList.mapM parseCall
      let c := mkConfig kind quiet verbosity columns minTicks maxTicks redraw barWidth barChar
        emptyChar progressChar format
      let s0 := init mx t0
      let s0 := match message with
        | none => s0
        | some msg => { s0 with messages := dictSet messageKey msg s0.messages }
      -- the hypotheses of the theorems (Props.C16.hyps_decide); the message set before the first call
      -- counts as a `set_message` call (Props.C16.run_with_message)
      let calls' := match message with
        | none => calls
        | some msg => (Call.op (Op.setMessage msg), t0) :: calls
      -- `runC`: the history may contain setters; without any it is `run` (Props.C16.run_is_runC)
      let evs := runC c s0 calls
      -- the terminal with rows after the whole history (`screenC`, started on an empty terminal as the harness's
      -- emulator is), the decider of the hypothesis of Props.C16.ansi_screen_final_dec and the lines it promises
      let screen : Json := if kind == .ansi && !quiet then
          Json.mkObj [("rows", jStrs (screenC (Scr.fresh 0 []) evs).rows), ("fits", .bool (framesFitB evs)),
                      ("shown", jOpt jStrs (lastLinesFrom none evs))]
        else .null
      return Json.mkObj [("events", jList jCEvent evs), ("screen", screen),
        ("hyp", Json.mkObj [("single", .bool (singleCharsB c)), ("bar_width_ok", .bool (barWidthOkB c)),
                            ("clean_cfg", .bool (cleanCfgB c)), ("clean_ops", .bool (cleanCallsB calls')),
                            -- the hypotheses of Props.C16.frames_fit_clean_dec (multi-line formats): they imply `fits`
                            ("ml_clean", .bool (mlCleanCfgB c && mlCleanCallsB calls')),
                            ("no_err", .bool (noErrCB evs))])]
  | "c16.roundq" => some do
      let a ← fNat j "a"
      let b ← fNat j "b"
      let r := roundQ a b
      return Json.mkObj [("num", jNat r.num), ("den", jNat r.den)]
  | _ => none

end Clikit.Drv.C16
