import Clikit.Drv.C01
import Clikit.Model.CommandParse
/-!
Driver entry `c05.command_history`: parse requests issued through `Command.parse(args, lenient=None)` of commands
whose configs share ONE parser object.  Every request carries the optional explicit mode (`explicit`: `null` = the
parameter was omitted) and what the command's config answers at that moment (`configured`); the mode handed to the
parser is `Gen.C05.commandMode` (read from the current source of `Command.parse`).
-/
namespace Clikit.Drv.C05
open Lean Clikit.Drv Clikit.Parser

def creqOf (j : Json) : R CReq := do
  let f ← C01.fmtOf (← field j "fmt")
  let toks ← (← fArr j "tokens").toList.mapM asChars
  let cfg ← fBool j "configured"
  let ex ← match fOpt j "explicit" with
    | none => pure none
    | some (.bool b) => pure (some b)
    | some _ => throw "field explicit: true, false or null expected"
  let cv ← C01.convOf j
  return { cv := cv, fmt := f, explicit := ex, configured := cfg, tokens := toks }

def handle (m : String) (j : Json) : Option (R Json) :=
  match m with
  | "c05.command_history" => some do
      let reqs ← (← fArr j "requests").toList.mapM creqOf
      let res := commandHistory St.empty reqs
      return Json.arr ((reqs.zip res).map (fun (p : CReq × Except Err Args) => C01.jArgs p.1.fmt p.2)).toArray
  | _ => none

end Clikit.Drv.C05
