import Clikit.Drv.Util
import Clikit.Model.Question
namespace Clikit.Drv.C18
open Lean Clikit.Drv Clikit.Question

def jAnswer : Answer → Json
  | .one v => jStr v
  | .many vs => jStrs vs

def jResult : Result → Json
  | .value a => Json.mkObj [("value", jAnswer a)]
  | .default d => Json.mkObj [("default", jOpt jStr d)]
  | .error e => Json.mkObj [("err", .str e.name)]
  | .pending => Json.mkObj [("pending", .bool true)]

def jCResult : CResult → Json
  | .answer b => Json.mkObj [("value", .bool b)]
  | .error e => Json.mkObj [("err", .str e.name)]
  | .pending => Json.mkObj [("pending", .bool true)]

def strs (j : Json) (k : String) : R (List Str) := do
  (← fArr j k).toList.mapM asChars

/-- code points of `[lo, hi)` (scalar values only) satisfying `p` -/
def sweep (p : Char → Bool) (lo hi : Nat) : List Nat :=
  (List.range (hi - lo)).filterMap fun k =>
    let n := lo + k
    if n.isValidChar && p (Char.ofNat n) then some n else none

/-- a question of a session: `{type: "choice", choices, multi, default|null, limit|null}` or
`{type: "confirm", ci, prefixes, default}` -/
def sq (j : Json) : R SQ := do
  match (← fStr j "type") with
  | "choice" =>
    return .choice (← strs j "choices") (← fBool j "multi") (← fOptChars j "default") (← fOptNat j "limit")
  | "confirm" => return .confirm (← fBool j "ci") (← strs j "prefixes") (← fBool j "default")
  | _ => throw "question: unknown type"

/-- a step of a session: `{op: "append"|"set", lines}`, `{op: "clear"}`, `{op: "ask", q}` -/
def sstep (j : Json) : R SStep := do
  match (← fStr j "op") with
  | "append" => return .append (← strs j "lines")
  | "set" => return .set (← strs j "lines")
  | "clear" => return .clear
  | "ask" => return .ask (← sq (← field j "q"))
  | _ => throw "step: unknown op"

def jSOut : SOut → Json
  | .choice o => Json.mkObj [("result", jResult o.result), ("reads", jNat o.reads),
                             ("errors", jNat o.errors), ("prompts", jNat o.prompts)]
  | .confirm o => Json.mkObj [("result", jCResult o.result), ("reads", jNat o.reads),
                              ("prompts", jNat o.prompts)]

/--
* `c18.session {initial, steps, eof, interactive}` -> `{asks: [...]}`: the outcomes of the questions
  of a session on one input (`Question.session pyInt`), see `sstep`
* `c18.ask {choices, multi, default|null, limit|null, script, eof, interactive}`
  -> `{result, reads, errors, prompts}` of `Question.ask pyInt …`, `prompt_ok` = `promptOkB`
* `c18.interchange_hyp {choices, multi, i}` -> `{hyp, text}`: `interchangeHypB`, `str(i)`
* `c18.ask_old {choices, multi, default|null, limit|null, script, eof, fuel}` -> the same for the
  loop before the repair D22 (`askFuelOld`); `OutOfFuel`-style result `{"err": "outOfFuel"}`
* `c18.confirm {prefixes, ci, default, interactive, script, eof}` -> `{result, reads, prompts}`
* `c18.validate {choices, multi, answer|null}` -> `{ok: value}` | `{err: class}`
* `c18.int {s}` -> `{int: n|null}`  (`pyInt`)
* `c18.spaces {lo, hi}` -> the code points of `[lo, hi)` in each white-space class
* `c18.ci {p, lo, hi}` -> the code points of `[lo, hi)` the pattern character `p` matches
  with and without `(?i)`
-/
def handle (m : String) (j : Json) : Option (R Json) :=
  match m with
  | "c18.ask" => some do
      let choices ← strs j "choices"
      let multi ← fBool j "multi"
      let default ← fOptChars j "default"
      let limit ← fOptNat j "limit"
      let script ← strs j "script"
      let eof ← fBool j "eof"
      let interactive ← fBool j "interactive"
      let o := ask pyInt choices multi default limit interactive script eof
      return Json.mkObj [("result", jResult o.result), ("reads", jNat o.reads),
                         ("errors", jNat o.errors), ("prompts", jNat o.prompts),
                         ("prompt_ok", .bool (promptOkB pyInt choices multi default))]
  | "c18.session" => some do
      let initial ← strs j "initial"
      let steps ← (← fArr j "steps").toList.mapM sstep
      let eof ← fBool j "eof"
      let interactive ← fBool j "interactive"
      return Json.mkObj [("asks", jList jSOut (session pyInt interactive eof steps initial))]
  | "c18.interchange_hyp" => some do
      -- the side condition of the interchangeability theorems (Props.C18.hyps_decide, interchange_dec)
      -- and the index text `str(i)` they are stated for
      let choices ← strs j "choices"
      let multi ← fBool j "multi"
      let i ← fNat j "i"
      return Json.mkObj [("hyp", .bool (interchangeHypB choices multi i)), ("text", jStr (Nat.toDigits 10 i))]
  | "c18.ask_old" => some do
      -- the loop as it was before the repair D22, with `fuel` passes allowed (used for mutation trials)
      let choices ← strs j "choices"
      let multi ← fBool j "multi"
      let default ← fOptChars j "default"
      let limit ← fOptNat j "limit"
      let script ← strs j "script"
      let eof ← fBool j "eof"
      let fuel ← fNat j "fuel"
      let o := askFuelOld pyInt choices multi default eof fuel script limit none
      return Json.mkObj [("result", jResult o.result), ("reads", jNat o.reads),
                         ("errors", jNat o.errors), ("prompts", jNat o.prompts)]
  | "c18.confirm" => some do
      let prefixes ← strs j "prefixes"
      let ci ← fBool j "ci"
      let default ← fBool j "default"
      let interactive ← fBool j "interactive"
      let script ← strs j "script"
      let eof ← fBool j "eof"
      let o := confirm (matchPrefix ci prefixes) default interactive script eof
      return Json.mkObj [("result", jCResult o.result), ("reads", jNat o.reads),
                         ("prompts", jNat o.prompts)]
  | "c18.validate" => some do
      let choices ← strs j "choices"
      let multi ← fBool j "multi"
      let answer ← fOptChars j "answer"
      return jExcept jAnswer (validate pyInt choices multi answer)
  | "c18.int" => some do
      let s ← fChars j "s"
      return Json.mkObj [("int", jOpt jInt (pyInt s))]
  | "c18.spaces" => some do
      let lo ← fNat j "lo"
      let hi ← fNat j "hi"
      return Json.mkObj [("py", jList jNat (sweep isPySpace lo hi)),
                         ("int", jList jNat (sweep isIntSpace lo hi)),
                         ("bytes", jList jNat (sweep isByteSpace lo hi)),
                         ("digits", jList (fun n => jList jNat [n, ((digitVal (Char.ofNat n)).getD 0)])
                            (sweep (fun c => (digitVal c).isSome) lo hi))]
  | "c18.ci" => some do
      let p ← fChars j "p"
      let lo ← fNat j "lo"
      let hi ← fNat j "hi"
      match p with
      | [pc] => return Json.mkObj [("ci", jList jNat (sweep (charEq true pc) lo hi)),
                                   ("cs", jList jNat (sweep (charEq false pc) lo hi))]
      | _ => throw "field p: one character expected"
  | _ => none

end Clikit.Drv.C18
