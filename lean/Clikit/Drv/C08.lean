import Clikit.Drv.Util
import Clikit.Model.Tokenizer
namespace Clikit.Drv.C08
open Lean Clikit.Drv Clikit.Tokenizer

/-- Strings in answers are arrays of code points: the harness splits the driver's output into
lines, and U+0085 / U+2028 / U+2029 (whitespace the tokenizer must handle) are emitted raw by
`Json.compress`. -/
def jCodes (s : Str) : Json := .arr (s.map (fun c => jNat c.toNat)).toArray
def jCodess (l : List Str) : Json := .arr (l.map jCodes).toArray

def jRaw (a : Raw) : Json :=
  Json.mkObj [("script_name", jOpt jCodes a.scriptName), ("tokens", jCodess a.tokens),
              ("option_tokens", jCodess a.optionTokens)]

def asStyle (j : Json) : R Style := do
  match (← asStr j) with
  | "single" => .ok .single
  | "double" => .ok .double
  | "bare" => .ok .bare
  | s => .error s!"unknown style {s}"

def asPiece (j : Json) : R Piece := do
  return { sep := ← fChars j "sep", style := ← asStyle (← field j "style"), tok := ← fChars j "tok" }

/--
* `c08.tokenize {s}`    -> `{"ok": {tokens, option_tokens, script_name}}` | `{"err": name}`; plus
                           `unquoted`, `runs` (the maximal non-whitespace runs of `s`)
* `c08.argv {argv}`     -> the same for `ArgvArgs(argv)`
* `c08.roundtrip {pieces: [{sep, style, tok}], trail}` -> the rendered command string, whether the
                           hypotheses of `quote_roundtrip` hold (`wf`), and what it tokenises to
* `c08.expressible {t}` -> `{"expressible": bool, "escaped": escq t}`
* `c08.spaces {lo, n}`  -> the code points `lo ≤ k < lo + n` that the model's `isSpace` table calls whitespace

Every string in an answer is an array of code points (`jCodes`).
-/
def handle (m : String) (j : Json) : Option (R Json) :=
  match m with
  | "c08.tokenize" => some do
      let s ← fChars j "s"
      return Json.mkObj [("raw", jExcept jRaw (stringArgs s)),
                         ("unquoted", .bool (unquoted s)),
                         ("runs", jCodess (runs s))]
  | "c08.argv" => some do
      let argv ← (← fArr j "argv").toList.mapM asChars
      return Json.mkObj [("raw", jExcept jRaw (argvArgs argv))]
  | "c08.roundtrip" => some do
      let ps ← (← fArr j "pieces").toList.mapM asPiece
      let trail ← fChars j "trail"
      let s := render ps ++ trail
      return Json.mkObj [("string", jCodes s),
                         ("wf", .bool (wfPieces true ps && trail.all Clikit.Gen.C08.isSpace)),
                         ("raw", jExcept jRaw (stringArgs s))]
  | "c08.spaces" => some do
      -- the whitespace table of the model on a whole range of code points
      let lo ← fNat j "lo"
      let n ← fNat j "n"
      return Json.mkObj [("spaces", jList jNat (spacesIn lo n))]
  | "c08.expressible" => some do
      let t ← fChars j "t"
      return Json.mkObj [("expressible", .bool (expressible t)), ("escaped", jCodes (escq t))]
  | _ => none

end Clikit.Drv.C08
