import Clikit.Drv.Util
import Clikit.Drv.C01
import Clikit.Model.Tokenizer
import Clikit.Model.Lines
namespace Clikit.Drv.C08
open Lean Clikit.Drv Clikit.Tokenizer

/-- Strings in answers are arrays of code points: the harness splits the driver's output into
lines, and U+0085 / U+2028 / U+2029 (whitespace the tokenizer must handle) are emitted raw by
`Json.compress`. -/
def jCodes (s : Str) : Json := .arr (s.map (fun c => jNat c.toNat)).toArray
def jCodess (l : List Str) : Json := .arr (l.map jCodes).toArray

def jRaw (a : Raw) : Json :=
  Json.mkObj [("script_name", jOpt jCodes a.scriptName), ("tokens", jCodess a.tokens),
              ("option_tokens", jCodess a.optionTokens)]

def asStyle (j : Json) : R Style := do
  match (← asStr j) with
  | "single" => .ok .single
  | "double" => .ok .double
  | "bare" => .ok .bare
  | s => .error s!"unknown style {s}"

def asPiece (j : Json) : R Piece := do
  return { sep := ← fChars j "sep", style := ← asStyle (← field j "style"), tok := ← fChars j "tok" }

/-- one line of `c08.line_history`: `{form: "string", pieces, trail, lenient}` (the command string is the rendered
pieces) or `{form: "argv", argv, lenient}` -/
def asLReq (cv : Clikit.Parser.Conv) (f : Clikit.Parser.Fmt) (j : Json) : R Clikit.Lines.LReq := do
  let len ← fBool j "lenient"
  match (← fStr j "form") with
  | "string" =>
    let ps ← (← fArr j "pieces").toList.mapM asPiece
    let trail ← fChars j "trail"
    return { cv := cv, fmt := f, lenient := len, line := .str (render ps ++ trail) }
  | "argv" =>
    let argv ← (← fArr j "argv").toList.mapM asChars
    return { cv := cv, fmt := f, lenient := len, line := .argv argv }
  | s => .error s!"unknown form {s}"

/--
* `c08.line_history {fmt, ints, floats, lines}` -> per line `{"raw": ..., "parse": ... | null}`: the lines (command
                           strings or argv lists) issued to ONE parser object (`Lines.lineHistory`: tokenizer model
                           composed with the parser model, the object's scratch state threaded)
* `c08.tokenize {s}`    -> `{"ok": {tokens, option_tokens, script_name}}` | `{"err": name}`; plus
                           `unquoted`, `runs` (the maximal non-whitespace runs of `s`)
* `c08.argv {argv}`     -> the same for `ArgvArgs(argv)`
* `c08.roundtrip {pieces: [{sep, style, tok}], trail}` -> the rendered command string, whether the
                           hypotheses of `quote_roundtrip` hold (`wf`), and what it tokenises to
* `c08.expressible {t}` -> `{"expressible": bool, "escaped": escq t}`
* `c08.spaces {lo, n}`  -> the code points `lo ≤ k < lo + n` that the model's `isSpace` table calls whitespace

Every string in an answer is an array of code points (`jCodes`).
-/
def handle (m : String) (j : Json) : Option (R Json) :=
  match m with
  | "c08.tokenize" => some do
      let s ← fChars j "s"
      return Json.mkObj [("raw", jExcept jRaw (stringArgs s)),
                         ("unquoted", .bool (unquoted s)),
                         ("runs", jCodess (runs s))]
  | "c08.argv" => some do
      let argv ← (← fArr j "argv").toList.mapM asChars
      return Json.mkObj [("raw", jExcept jRaw (argvArgs argv))]
  | "c08.roundtrip" => some do
      let ps ← (← fArr j "pieces").toList.mapM asPiece
      let trail ← fChars j "trail"
      let s := render ps ++ trail
      return Json.mkObj [("string", jCodes s),
                         ("wf", .bool (wfPieces true ps && trail.all Clikit.Gen.C08.isSpace)),
                         ("raw", jExcept jRaw (stringArgs s))]
  | "c08.line_history" => some do
      let f ← C01.fmtOf (← field j "fmt")
      let cv ← C01.convOf j
      let reqs ← (← fArr j "lines").toList.mapM (asLReq cv f)
      let outs := Clikit.Lines.lineHistory Clikit.Parser.St.empty reqs
      return Json.arr (outs.map (fun (o : Clikit.Lines.LOut) =>
        Json.mkObj [("raw", jExcept jRaw o.1),
                    ("parse", match o.2 with
                      | none => Json.null
                      | some r => C01.jArgs f r)])).toArray
  | "c08.spaces" => some do
      -- the whitespace table of the model on a whole range of code points
      let lo ← fNat j "lo"
      let n ← fNat j "n"
      return Json.mkObj [("spaces", jList jNat (spacesIn lo n))]
  | "c08.expressible" => some do
      let t ← fChars j "t"
      return Json.mkObj [("expressible", .bool (expressible t)), ("escaped", jCodes (escq t))]
  | _ => none

end Clikit.Drv.C08
