import Lean.Data.Json
import Clikit.Base
/-!
JSON plumbing of the model driver (no Mathlib anywhere in the driver's import closure,
so it links as a native executable).
-/
namespace Clikit.Drv
open Lean

abbrev R := Except String

def field (j : Json) (k : String) : R Json :=
  match j.getObjVal? k with
  | .ok v => .ok v
  | .error _ => .error s!"missing field {k}"

def fStr (j : Json) (k : String) : R String := do
  match (← field j k) with
  | .str s => .ok s
  | _ => .error s!"field {k}: string expected"

def fChars (j : Json) (k : String) : R Str := do return (← fStr j k).toList

def fNat (j : Json) (k : String) : R Nat := do
  match (← field j k).getNat? with
  | .ok n => .ok n
  | .error _ => .error s!"field {k}: natural number expected"

def fInt (j : Json) (k : String) : R Int := do
  match (← field j k).getInt? with
  | .ok n => .ok n
  | .error _ => .error s!"field {k}: integer expected"

def fBool (j : Json) (k : String) : R Bool := do
  match (← field j k) with
  | .bool b => .ok b
  | _ => .error s!"field {k}: boolean expected"

def fArr (j : Json) (k : String) : R (Array Json) := do
  match (← field j k) with
  | .arr a => .ok a
  | _ => .error s!"field {k}: array expected"

/-- optional field: absent or `null` is `none` -/
def fOpt (j : Json) (k : String) : Option Json :=
  match j.getObjVal? k with
  | .ok .null => none
  | .ok v => some v
  | .error _ => none

def fOptNat (j : Json) (k : String) : R (Option Nat) :=
  match fOpt j k with
  | none => .ok none
  | some v => match v.getNat? with
    | .ok n => .ok (some n)
    | .error _ => .error s!"field {k}: natural number or null expected"

def fOptChars (j : Json) (k : String) : R (Option Str) :=
  match fOpt j k with
  | none => .ok none
  | some (.str s) => .ok (some s.toList)
  | some _ => .error s!"field {k}: string or null expected"

def asStr (j : Json) : R String :=
  match j with
  | .str s => .ok s
  | _ => .error "string expected"

def asChars (j : Json) : R Str := do return (← asStr j).toList

def asNat (j : Json) : R Nat :=
  match j.getNat? with
  | .ok n => .ok n
  | .error _ => .error "natural number expected"

def jStr (s : Str) : Json := .str (String.ofList s)
def jStrs (l : List Str) : Json := .arr (l.map jStr).toArray
def jNat (n : Nat) : Json := .num (JsonNumber.fromNat n)
def jInt (n : Int) : Json := .num (JsonNumber.fromInt n)
def jOpt {α} (f : α → Json) : Option α → Json
  | none => .null
  | some a => f a
def jList {α} (f : α → Json) (l : List α) : Json := .arr (l.map f).toArray

def jOk (v : Json) : Json := Json.mkObj [("ok", v)]
def jErr (e : Err) : Json := Json.mkObj [("err", .str e.name)]
def jExcept {α} (f : α → Json) : Except Err α → Json
  | .ok a => jOk (f a)
  | .error e => jErr e

end Clikit.Drv
