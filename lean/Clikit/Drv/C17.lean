import Clikit.Drv.Util
import Clikit.Drv.C09
import Clikit.Model.History
import Clikit.Model.AppState
import Clikit.Model.IndentShared
import Clikit.Model.RunIO
/-! Driver entries for C17: `c17.help_protocol`, `c17.styles`, `c17.styles_wf`, `c17.app_hist`: a history of
runs of the stateful composed application model (`AppState.runAppS`) on ONE application object, and
`c17.render_hist`: a history of renderings and indentation scopes on ONE I/O whose two outputs are two objects or
one (`Model/IndentShared.lean`). -/
namespace Clikit.Drv.C17
open Lean Clikit.Drv Clikit.History

def optBoolOf (j : Json) (k : String) : R (Option Bool) :=
  match fOpt j k with
  | none => .ok none
  | some (.bool b) => .ok (some b)
  | some _ => .error s!"field {k}: boolean or null expected"

def opOf (j : Json) : R StyleOp :=
  match fOpt j "make" with
  | some k => do return .make (← asNat k)
  | none => do
    let a ← fArr j "custom"
    match a.toList with
    | [r, i, .str v] => return .custom (← asNat r) (← asNat i) v
    | _ => .error "custom: [ref, field, value] expected"

def asArr (j : Json) : R (Array Json) :=
  match j with
  | .arr a => .ok a
  | _ => .error "array expected"

/-- `[name path, null | true | false]` -/
def rawOf (j : Json) : R (List Str × Option Bool) := do
  match (← asArr j).toList with
  | [p, .null] => return ((← (← asArr p).toList.mapM asChars), none)
  | [p, .bool b] => return ((← (← asArr p).toList.mapM asChars), some b)
  | _ => .error "raw: [path, null | boolean] expected"

/-- `[name path, parser object number]` -/
def parserOfJ (j : Json) : R (List Str × Nat) := do
  match (← asArr j).toList with
  | [p, k] => return ((← (← asArr p).toList.mapM asChars), (← asNat k))
  | _ => .error "parsers: [path, number] expected"

/-! ### the I/O of a run (`Model/RunIO.lean`) -/
section RunIOJ
open Clikit.RunIO

def stylesOf (j : Json) : R Styles := do
  (← asArr j).toList.mapM fun p => do
    match (← asArr p).toList with
    | [t, l] => return ((← asChars t), (← asChars l))
    | _ => .error "style: [tag, look] expected"

def chanOf (j : Json) (k : String) : R Chan := do
  match ← fStr j k with
  | "out" => return .out
  | "err" => return .err
  | x => .error s!"channel out / err expected, got {x}"

def optChanOf (j : Json) (k : String) : R (Option Chan) :=
  match fOpt j k with
  | none | some .null => .ok none
  | some _ => do return some (← chanOf j k)

/-- a formatter a handler constructs: `AnsiFormatter(ss, forced)` / `PlainFormatter(ss)` -/
def newFmtOf (pastel : Styles) (j : Json) : R Formatter := do
  return mkFormatter pastel (← stylesOf (← (fOpt j "ss").elim (.error "field ss expected") .ok)) (← fBool j "ansi") (← fBool j "forced")

def hopOf (pastel : Styles) (j : Json) : R HOp := do
  match ← fStr j "op" with
  | "add_style" => return .addStyle (← chanOf j "on") (← asChars (.str (← fStr j "tag"))) (← asChars (.str (← fStr j "look")))
  | "set_formatter" =>
    let a ← (fOpt j "if_plain").elim (.error "field if_plain expected") .ok
    let b ← (fOpt j "if_ansi").elim (.error "field if_ansi expected") .ok
    return .setFormatter (← newFmtOf pastel a) (← newFmtOf pastel b)
  | "set_verbosity" => return .setVerbosity (← fNat j "n")
  | "set_quiet" => return .setQuiet (← optChanOf j "on") (← fBool j "b")
  | "set_interactive" => return .setInteractive (← fBool j "b")
  | "indent" => return .indent (← optChanOf j "on") (← fBool j "inc") (← fNat j "n")
  | "write" => return .write (← chanOf j "on") (← asChars (.str (← fStr j "tag"))) (← fNat j "need")
  | x => .error s!"unknown I/O operation {x}"

def jStyles (l : Styles) : Json := jList (fun (p : Str × Look) => Json.arr #[jStr p.1, jStr p.2]) l

def jChan : Chan → Json
  | .out => .str "out"
  | .err => .str "err"

def jOutput (s : IOState) (o : Output) : Json :=
  let f := s.fmts[o.fmt]?
  Json.mkObj [("ansi", jOpt (fun (f : Formatter) => Json.bool f.ansi) f),
              ("forced", jOpt (fun (f : Formatter) => Json.bool f.forced) f),
              ("styles", jOpt (fun (f : Formatter) => jStyles f.styles) f),
              ("format_output", .bool o.formatOutput), ("verbosity", jNat o.verbosity), ("quiet", .bool o.quiet),
              ("indent", jNat o.indent)]

def jIOState (s : IOState) : Json :=
  Json.mkObj [("out", jOutput s s.out), ("err", jOutput s s.err), ("same_formatter", .bool (s.out.fmt == s.err.fmt)),
              ("interactive", .bool s.interactive)]

def jShown (x : Shown) : Json :=
  let (how, look) : String × Json := match x.text with
    | none => ("", .null)
    | some (_, .literal) => ("literal", .null)
    | some (_, .stripped l) => ("stripped", jStr l)
    | some (_, .ansi l) => ("ansi", jStr l)
  Json.mkObj [("on", jChan x.chan), ("tag", jStr x.tag), ("need", jNat x.need), ("written", .bool x.text.isSome),
              ("indent", jOpt (fun (p : Nat × How) => jNat p.1) x.text), ("how", .str how), ("look", look)]

/-- the handlers of the harness: the handler of `tweakPath` runs, for every value of its argument `what` (as the MODEL
parsed it), the setter calls the table lists under that name, then every recording handler writes the probe lines -/
def hioOf (tweakPath : List Str) (tweaks : List (Str × List HOp)) (probe : List HOp) : IOHandlers := fun path a =>
  let whats : List Str := match dictGet? "what".toList a.args with
    | some (.list l) => l.filterMap fun v => match v with | .str t => some t | _ => none
    | some (.scalar (.str t)) => [t]
    | _ => []
  let pre := if path == tweakPath then whats.flatMap fun t => (dictGet? t tweaks).getD [] else []
  execOps (pre ++ probe)

end RunIOJ

open Clikit.AppState Clikit.RunIO in
/-- the runs of a history on one application object, each answered from the state the previous ones left:
status, what happened, the command and args selected, the abstract handlers invoked with their args, the
leniency setting of every listed command AFTER the run; and the I/O of the run (`RunIO.runAppIO` = `runAppIOP` with
`fp = .perRun`, the code as it is; `.cachedPerConfig` on request only: the seeded protocol): per handler call the
I/O state it found and the probe lines as shown, and the configuration's style set after the run -/
def histRuns (fp : FmtProto) (env : Clikit.App.Env) (e : IOEnv) (cv : Clikit.Parser.Conv) (app : List Clikit.Resolver.Cmd)
    (hs : Clikit.App.Handlers) (hio : IOHandlers)
    (paths : List (List Str)) : Clikit.AppState.AppState × World → List (List Str) → List Json
  | _, [] => []
  | sw, l :: rest =>
    let s := sw.1
    let rr := runAppIOP Proto.source fp env e cv app hs hio sw l
    let r : Clikit.App.Result × Clikit.AppState.AppState := (rr.1.1, rr.2.1)
    Json.mkObj [
      ("status", jOpt jNat r.1.status),
      -- the I/O configuration `create_io` builds for THIS run (what every handler of the run finds on entry)
      ("io", C09.jIO r.1.io),
      ("what", C09.jWhat r.1.what),
      ("selected", jExcept C09.jSel (resolveCommandS cv s app l).1),
      ("invoked", jList C09.jSel r.1.invoked),
      ("io_calls", jList (fun (c : IOState × List Shown) =>
          Json.mkObj [("found", jIOState c.1), ("shown", jList jShown c.2)]) rr.1.2),
      ("style_set", jStyles rr.2.2.styleSet),
      ("len", jList (fun (p : List Str) =>
          Json.arr #[jStrs p, jOpt (fun (b : Bool) => Json.bool b) (lenEntry r.2 p).current]) paths),
      ("restored", .bool (paths.all fun p => (lenEntry r.2 p).current == (lenEntry r.2 p).configured))]
      :: histRuns fp env e cv app hs hio paths rr.2 rest


section RenderHist
open Clikit.IndentShared

def rTargetOf (s : String) : R Target :=
  match s with
  | "io" => .ok .io
  | "out" => .ok .out
  | "err" => .ok .err
  | _ => .error s!"unknown scope target {s}"

mutual
partial def rStmtOf (j : Json) : R Prog := do
  match fOpt j "render" with
  | some c => return .render (← asNat c)
  | none =>
  match fOpt j "scope" with
  | some (.str t) => return .scope (← rTargetOf t) (← fBool j "inc") (← fNat j "n") (← rProgOf (← fArr j "body").toList)
  | some _ => throw "field scope: string expected"
  | none =>
  match fOpt j "try" with
  | some (.arr a) => return .attempt (← rProgOf a.toList)
  | some _ => throw "field try: array expected"
  | none =>
  match fOpt j "raise" with
  | some _ => return .raise
  | none => throw s!"unknown statement {j.compress}"

partial def rProgOf (l : List Json) : R Prog :=
  match l with
  | [] => .ok .skip
  | s :: r => do return .seq (← rStmtOf s) (← rProgOf r)
end

end RenderHist

def handle (m : String) (j : Json) : Option (R Json) :=
  match m with
  | "c17.render_hist" => some do
      -- `out`, `err`: the numbers (0 / 1) of the Output OBJECTS behind the two channels of the I/O (equal: one
      -- object), `base`: the indentation the objects 0 and 1 have at the beginning
      let io : Clikit.IndentShared.IORefs := { out := ← fNat j "out", err := ← fNat j "err" }
      if io.out > 1 || io.err > 1 then throw "out / err: object number 0 or 1 expected"
      let base ← (← fArr j "base").toList.mapM asNat
      let h ← match base with
        | [a, b] => pure (Clikit.IndentShared.heapOf a b)
        | _ => throw "base: [indentation of object 0, of object 1] expected"
      let prog ← rProgOf (← fArr j "steps").toList
      let (w, h', r) := Clikit.IndentShared.exec io prog h
      return Json.mkObj [("seen", jList (fun (x : Clikit.IndentShared.Seen) => jList jNat [x.1, x.2.1, x.2.2]) w),
                         ("indent", jList jNat [h' io.out, h' io.err]), ("raised", .bool r)]
  | "c17.app_hist" => some do
      -- the command tree, the leniency settings (`raw`) and the installed parser objects (`parsers`) read from the
      -- REAL application as configured; every abstract handler returns 0; the error report renders
      let app ← (← fArr j "commands").toList.mapM C03.cmdOf
      let lines ← (← fArr j "lines").toList.mapM (fun l => do (← asArr l).toList.mapM asChars)
      let cv ← C01.convOf j
      let raw ← (← fArr j "raw").toList.mapM rawOf
      let parsers ← (← fArr j "parsers").toList.mapM parserOfJ
      let hs : Clikit.App.Handlers := fun _ _ => .ret Clikit.App.ret0
      let env : Clikit.App.Env := { debug := false, render := fun _ => true }
      -- the I/O side: pastel's own styles, the configuration's style set, `supports_ansi()` of the two streams, the
      -- table of what the `tweak` handler does per value of its argument, the probe lines of every recording handler
      let ioj ← (fOpt j "io").elim (.error "field io expected") .ok
      let pastel ← stylesOf (← (fOpt ioj "pastel").elim (.error "field pastel expected") .ok)
      let ss ← stylesOf (← (fOpt ioj "style_set").elim (.error "field style_set expected") .ok)
      let streams ← match (← fArr ioj "streams").toList with
        | [.bool a, .bool b] => pure (a, b)
        | _ => throw "streams: [bool, bool] expected"
      let tweaks ← (← fArr ioj "tweaks").toList.mapM fun t => do
        match (← asArr t).toList with
        | [n, ops] => return ((← asChars n), (← (← asArr ops).toList.mapM (hopOf pastel)))
        | _ => .error "tweaks: [name, ops] expected"
      let probe ← (← fArr ioj "probe").toList.mapM (hopOf pastel)
      let tweakPath ← (← fArr ioj "tweak_path").toList.mapM asChars
      let e : Clikit.RunIO.IOEnv := { pastel := pastel, streams := streams }
      -- `fmt_proto` absent: the code as it is; "cached": the protocol of the seeded change C17-8 (mutation trials only)
      let fp : Clikit.RunIO.FmtProto ← match fOpt ioj "fmt_proto" with
        | none | some (.str "per_run") => pure .perRun
        | some (.str "cached") => pure .cachedPerConfig
        | some _ => throw "fmt_proto: per_run / cached expected"
      return Json.arr (histRuns fp env e cv app hs (hioOf tweakPath tweaks probe) (raw.map (·.1))
        (Clikit.AppState.initState raw parsers, Clikit.RunIO.World.fresh ss) lines).toArray
  | "c17.help_protocol" => some do
      let cur ← optBoolOf j "cur"
      let ok ← fBool j "inner_ok"
      return jOpt (fun b => Json.bool b) (helpCreate cur ok)
  | "c17.styles" => some do
      let ops ← (← fArr j "ops").toList.mapM opOf
      let h := runOps Gen.C17.tableStyles initialHeap ops
      return jList (fun (b : Border) => jList (fun (s : String) => Json.str s) b) h
  | "c17.styles_wf" => some do
      -- the facts `Props.C17.style_noninterference` takes about the real factories (styles_wf_decides,
      -- refs_fresh_source): every factory copies; the border-style reference of every created style
      let ops ← (← fArr j "ops").toList.mapM opOf
      return Json.mkObj [("copies", .bool (copiesB Gen.C17.tableStyles)),
                         ("refs", jList jNat (refsOf Gen.C17.tableStyles initialHeap ops))]
  | _ => none

end Clikit.Drv.C17
