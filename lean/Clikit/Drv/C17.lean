import Clikit.Drv.Util
import Clikit.Model.History
/-! Driver entries for C17: `c17.help_protocol`, `c17.styles`, `c17.styles_wf`. -/
namespace Clikit.Drv.C17
open Lean Clikit.Drv Clikit.History

def optBoolOf (j : Json) (k : String) : R (Option Bool) :=
  match fOpt j k with
  | none => .ok none
  | some (.bool b) => .ok (some b)
  | some _ => .error s!"field {k}: boolean or null expected"

def opOf (j : Json) : R StyleOp :=
  match fOpt j "make" with
  | some k => do return .make (← asNat k)
  | none => do
    let a ← fArr j "custom"
    match a.toList with
    | [r, i, .str v] => return .custom (← asNat r) (← asNat i) v
    | _ => .error "custom: [ref, field, value] expected"

def handle (m : String) (j : Json) : Option (R Json) :=
  match m with
  | "c17.help_protocol" => some do
      let cur ← optBoolOf j "cur"
      let ok ← fBool j "inner_ok"
      return jOpt (fun b => Json.bool b) (helpCreate cur ok)
  | "c17.styles" => some do
      let ops ← (← fArr j "ops").toList.mapM opOf
      let h := runOps Gen.C17.tableStyles initialHeap ops
      return jList (fun (b : Border) => jList (fun (s : String) => Json.str s) b) h
  | "c17.styles_wf" => some do
      -- the facts `Props.C17.style_noninterference` takes about the real factories (styles_wf_decides,
      -- refs_fresh_source): every factory copies; the border-style reference of every created style
      let ops ← (← fArr j "ops").toList.mapM opOf
      return Json.mkObj [("copies", .bool (copiesB Gen.C17.tableStyles)),
                         ("refs", jList jNat (refsOf Gen.C17.tableStyles initialHeap ops))]
  | _ => none

end Clikit.Drv.C17
