import Clikit.Drv.Util
import Clikit.Drv.C09
import Clikit.Model.History
import Clikit.Model.AppState
import Clikit.Model.IndentShared
/-! Driver entries for C17: `c17.help_protocol`, `c17.styles`, `c17.styles_wf`, `c17.app_hist`: a history of
runs of the stateful composed application model (`AppState.runAppS`) on ONE application object, and
`c17.render_hist`: a history of renderings and indentation scopes on ONE I/O whose two outputs are two objects or
one (`Model/IndentShared.lean`). -/
namespace Clikit.Drv.C17
open Lean Clikit.Drv Clikit.History

def optBoolOf (j : Json) (k : String) : R (Option Bool) :=
  match fOpt j k with
  | none => .ok none
  | some (.bool b) => .ok (some b)
  | some _ => .error s!"field {k}: boolean or null expected"

def opOf (j : Json) : R StyleOp :=
  match fOpt j "make" with
  | some k => do return .make (← asNat k)
  | none => do
    let a ← fArr j "custom"
    match a.toList with
    | [r, i, .str v] => return .custom (← asNat r) (← asNat i) v
    | _ => .error "custom: [ref, field, value] expected"

def asArr (j : Json) : R (Array Json) :=
  match j with
  | .arr a => .ok a
  | _ => .error "array expected"

/-- `[name path, null | true | false]` -/
def rawOf (j : Json) : R (List Str × Option Bool) := do
  match (← asArr j).toList with
  | [p, .null] => return ((← (← asArr p).toList.mapM asChars), none)
  | [p, .bool b] => return ((← (← asArr p).toList.mapM asChars), some b)
  | _ => .error "raw: [path, null | boolean] expected"

/-- `[name path, parser object number]` -/
def parserOfJ (j : Json) : R (List Str × Nat) := do
  match (← asArr j).toList with
  | [p, k] => return ((← (← asArr p).toList.mapM asChars), (← asNat k))
  | _ => .error "parsers: [path, number] expected"

open Clikit.AppState in
/-- the runs of a history on one application object, each answered from the state the previous ones left:
status, what happened, the command and args selected, the abstract handlers invoked with their args, and the
leniency setting of every listed command AFTER the run -/
def histRuns (env : Clikit.App.Env) (cv : Clikit.Parser.Conv) (app : List Clikit.Resolver.Cmd) (hs : Clikit.App.Handlers)
    (paths : List (List Str)) : Clikit.AppState.AppState → List (List Str) → List Json
  | _, [] => []
  | s, l :: rest =>
    let r := runAppS env cv app hs s l
    Json.mkObj [
      ("status", jOpt jNat r.1.status),
      -- the I/O configuration `create_io` builds for THIS run (what every handler of the run finds on entry)
      ("io", C09.jIO r.1.io),
      ("what", C09.jWhat r.1.what),
      ("selected", jExcept C09.jSel (resolveCommandS cv s app l).1),
      ("invoked", jList C09.jSel r.1.invoked),
      ("len", jList (fun (p : List Str) =>
          Json.arr #[jStrs p, jOpt (fun (b : Bool) => Json.bool b) (lenEntry r.2 p).current]) paths),
      ("restored", .bool (paths.all fun p => (lenEntry r.2 p).current == (lenEntry r.2 p).configured))]
      :: histRuns env cv app hs paths r.2 rest


section RenderHist
open Clikit.IndentShared

def rTargetOf (s : String) : R Target :=
  match s with
  | "io" => .ok .io
  | "out" => .ok .out
  | "err" => .ok .err
  | _ => .error s!"unknown scope target {s}"

mutual
partial def rStmtOf (j : Json) : R Prog := do
  match fOpt j "render" with
  | some c => return .render (← asNat c)
  | none =>
  match fOpt j "scope" with
  | some (.str t) => return .scope (← rTargetOf t) (← fBool j "inc") (← fNat j "n") (← rProgOf (← fArr j "body").toList)
  | some _ => throw "field scope: string expected"
  | none =>
  match fOpt j "try" with
  | some (.arr a) => return .attempt (← rProgOf a.toList)
  | some _ => throw "field try: array expected"
  | none =>
  match fOpt j "raise" with
  | some _ => return .raise
  | none => throw s!"unknown statement {j.compress}"

partial def rProgOf (l : List Json) : R Prog :=
  match l with
  | [] => .ok .skip
  | s :: r => do return .seq (← rStmtOf s) (← rProgOf r)
end

end RenderHist

def handle (m : String) (j : Json) : Option (R Json) :=
  match m with
  | "c17.render_hist" => some do
      -- `out`, `err`: the numbers (0 / 1) of the Output OBJECTS behind the two channels of the I/O (equal: one
      -- object), `base`: the indentation the objects 0 and 1 have at the beginning
      let io : Clikit.IndentShared.IORefs := { out := ← fNat j "out", err := ← fNat j "err" }
      if io.out > 1 || io.err > 1 then throw "out / err: object number 0 or 1 expected"
      let base ← (← fArr j "base").toList.mapM asNat
      let h ← match base with
        | [a, b] => pure (Clikit.IndentShared.heapOf a b)
        | _ => throw "base: [indentation of object 0, of object 1] expected"
      let prog ← rProgOf (← fArr j "steps").toList
      let (w, h', r) := Clikit.IndentShared.exec io prog h
      return Json.mkObj [("seen", jList (fun (x : Clikit.IndentShared.Seen) => jList jNat [x.1, x.2.1, x.2.2]) w),
                         ("indent", jList jNat [h' io.out, h' io.err]), ("raised", .bool r)]
  | "c17.app_hist" => some do
      -- the command tree, the leniency settings (`raw`) and the installed parser objects (`parsers`) read from the
      -- REAL application as configured; every abstract handler returns 0; the error report renders
      let app ← (← fArr j "commands").toList.mapM C03.cmdOf
      let lines ← (← fArr j "lines").toList.mapM (fun l => do (← asArr l).toList.mapM asChars)
      let cv ← C01.convOf j
      let raw ← (← fArr j "raw").toList.mapM rawOf
      let parsers ← (← fArr j "parsers").toList.mapM parserOfJ
      let hs : Clikit.App.Handlers := fun _ _ => .ret Clikit.App.ret0
      let env : Clikit.App.Env := { debug := false, render := fun _ => true }
      return Json.arr (histRuns env cv app hs (raw.map (·.1)) (Clikit.AppState.initState raw parsers) lines).toArray
  | "c17.help_protocol" => some do
      let cur ← optBoolOf j "cur"
      let ok ← fBool j "inner_ok"
      return jOpt (fun b => Json.bool b) (helpCreate cur ok)
  | "c17.styles" => some do
      let ops ← (← fArr j "ops").toList.mapM opOf
      let h := runOps Gen.C17.tableStyles initialHeap ops
      return jList (fun (b : Border) => jList (fun (s : String) => Json.str s) b) h
  | "c17.styles_wf" => some do
      -- the facts `Props.C17.style_noninterference` takes about the real factories (styles_wf_decides,
      -- refs_fresh_source): every factory copies; the border-style reference of every created style
      let ops ← (← fArr j "ops").toList.mapM opOf
      return Json.mkObj [("copies", .bool (copiesB Gen.C17.tableStyles)),
                         ("refs", jList jNat (refsOf Gen.C17.tableStyles initialHeap ops))]
  | _ => none

end Clikit.Drv.C17
