import Clikit.Drv.C01
import Clikit.Model.Help
import Clikit.Model.HelpWrap
import Clikit.Model.HelpWired
import Clikit.Model.AppHelp
/-! Driver entries of the help-page model: `c13.app_help`, `c13.command_help`, `c13.target`,
`c13.wrap`, `c13.all` (all of a case in one request), `c13.wired` (do the structural hypotheses of
`Props/C13.help_same_page_default` hold for the tree?).  Pages are rendered with `wrapH`. -/
namespace Clikit.Drv.C13
open Lean Clikit.Drv Clikit.Parser Clikit.Help

/-- `null` | `{"json": text, "len": n | null}` -/
def dfltOf (j : Json) (k : String) : R Dflt :=
  match fOpt j k with
  | none => .ok .absent
  | some d => do
    let js ← fChars d "json"
    match ← fOptNat d "len" with
    | none => return .scalar js
    | some n => return .list n js

def argOf (j : Json) : R HArg := do
  return { name := ← fChars j "name", required := ← fBool j "required", multi := ← fBool j "multi",
           descr := ← fOptChars j "descr", dflt := ← dfltOf j "dflt" }

def optOf (j : Json) : R HOpt := do
  return { long := ← fChars j "long", short := ← fOptChars j "short", preferLong := ← fBool j "prefer_long",
           acceptsValue := ← fBool j "accepts", valueRequired := ← fBool j "required",
           valueOptional := ← fBool j "optional", multi := ← fBool j "multi",
           valueName := ← fChars j "value_name", descr := ← fOptChars j "descr", dflt := ← dfltOf j "dflt" }

partial def cmdOf (j : Json) : R HCmd := do
  let name ← fChars j "name"
  let al ← (← fArr j "aliases").toList.mapM asChars
  let d ← fBool j "default"
  let an ← fBool j "anonymous"
  let hid ← fBool j "hidden"
  let en ← fBool j "enabled"
  let descr ← fChars j "descr"
  let help ← fOptChars j "help"
  let args ← (← fArr j "args").toList.mapM argOf
  let opts ← (← fArr j "opts").toList.mapM optOf
  let f ← C01.fmtOf (← field j "fmt")
  let len ← fBool j "lenient"
  let subs ← (← fArr j "subs").toList.mapM cmdOf
  return HCmd.mk name al d an hid en descr help args opts f len subs

def appOf (j : Json) : R HApp := do
  return { name := ← fOptChars j "name", displayName := ← fOptChars j "display_name",
           version := ← fOptChars j "version", help := ← fOptChars j "help",
           opts := ← (← fArr j "opts").toList.mapM optOf,
           cmds := ← (← fArr j "cmds").toList.mapM cmdOf }

def jPage (w k : Nat) (p : Page) (r : Except Err Str) : Json :=
  Json.mkObj [("page", jExcept jStr r), ("width_ok", .bool (widthOKAt w k p)), ("min_width", jNat (minWidthAt k p)),
              ("labels", jStrs (p.filterMap fun ie => match ie.2 with
                | .labeled l _ _ _ => some l
                | _ => none)),
              ("wraps", jList (fun (c : Int × Str) => Json.arr #[jInt c.1, jStr c.2,
                  if c.1 ≤ 0 then .null else jStrs (wrapH c.1.toNat c.2)]) (wrapCallsAt w k p))]

/-- the application page rendered at the outer indentation `k` (`render(io, k)`; 0 = `render(io)`) -/
def appPage (app : HApp) (w : Nat) (k : Nat := 0) : Json :=
  jPage w k (applicationHelp app) (renderApplicationHelpAt wrapH w k app)

def cmdPage (app : HApp) (w : Nat) (k : Nat) (path : List Str) : Json :=
  match findPath app.ctx app.cmds path with
  | none => Json.mkObj [("page", jErr (.other "NoSuchCommandException"))]
  | some (x, c) => jPage w k (commandHelp app x c) (renderCommandHelpAt wrapH w k app x c)

def jTarget : Target → Json
  | .app => .str "app"
  | .cmd p => Json.mkObj [("cmd", jStrs p)]

/-- the `textwrap.wrap` calls of the page a help request prints (the handler renders it at indentation 0) -/
def targetWraps (app : HApp) (w : Nat) : Target → List (Int × Str)
  | .app => wrapCalls w (applicationHelp app)
  | .cmd path =>
    match findPath app.ctx app.cmds path with
    | none => []
    | some (x, c) => wrapCalls w (commandHelp app x c)

/-- the environment / handlers of the composed run model (`Model/AppHelp.lean`): a help run invokes no handler and
reports no error, so these are never consulted for the lines of this property -/
def env0 : App.Env := { debug := false, render := fun _ => true }
def hs0 : App.Handlers := fun _ _ => .ret App.ret0

/-- what the composed model `App.helpRun` says of the run: is the outcome a help page, the status, the number of
handlers invoked, and the text printed (`null`: the outcome is no help page) -/
def jHelpRun (r : App.Result × Option (Except Err Str)) : Json :=
  Json.mkObj [("help_page", .bool (match r.1.what with | .helpPage _ => true | _ => false)),
              ("status", match r.1.status with | some n => jNat n | none => .null),
              ("invoked", jNat r.1.invoked.length),
              ("text", match r.2 with | some x => jExcept jStr x | none => .null)]

/-- target of a line and the text it prints; `withWraps`: also the (width, text) pairs handed to
`textwrap.wrap` (asked for when the direct renderings of the case use another indentation, so that
their wrap calls say nothing about the page the run prints) -/
def targetOf (cv : Conv) (app : HApp) (w : Nat) (withWraps : Bool) (toks : List Str) : Json :=
  match helpTarget cv (toCmd.toCmds app.cmds) toks with
  | .error e => jErr e
  | .ok none => jOk .null
  | .ok (some t) =>
    jOk (Json.mkObj ([("target", jTarget t), ("page", jExcept jStr (renderTarget wrapH w app t)),
                      ("run", jHelpRun (App.helpRun wrapH w env0 cv app hs0 toks))] ++
      (if withWraps then
        [("wraps", jList (fun (c : Int × Str) => Json.arr #[jInt c.1, jStr c.2]) (targetWraps app w t))]
       else [])))

def handle (m : String) (j : Json) : Option (R Json) :=
  match m with
  | "c13.app_help" => some do
      let app ← appOf (← field j "app")
      return appPage app (← fNat j "width") ((← fOptNat j "indent").getD 0)
  | "c13.command_help" => some do
      let app ← appOf (← field j "app")
      let path ← (← fArr j "path").toList.mapM asChars
      return cmdPage app (← fNat j "width") ((← fOptNat j "indent").getD 0) path
  | "c13.target" => some do
      let app ← appOf (← field j "app")
      let toks ← (← fArr j "tokens").toList.mapM asChars
      return targetOf (← C01.convOf j) app (← fNat j "width") false toks
  | "c13.all" => some do
      let app ← appOf (← field j "app")
      let w ← fNat j "width"
      let paths ← (← fArr j "paths").toList.mapM fun p => do
        match p with
        | .arr a => a.toList.mapM asChars
        | _ => .error "paths: array of arrays expected"
      let lines ← (← fArr j "lines").toList.mapM fun p => do
        match p with
        | .arr a => a.toList.mapM asChars
        | _ => .error "lines: array of arrays expected"
      let cv ← C01.convOf j
      -- the outer indentation the pages are rendered at (`render(io, indent)`); the runs of `help ...` never pass one
      let k := (← fOptNat j "indent").getD 0
      return Json.mkObj [("app", appPage app w k), ("cmds", jList (cmdPage app w k) paths),
                         ("targets", jList (targetOf cv app w (k != 0)) lines)]
  | "c13.wired" => some do
      -- the hypotheses of `help_same_page_default`, decided on the tree the resolver works on
      let app ← appOf (← field j "app")
      let tree := toCmd.toCmds app.cmds
      return Json.mkObj [("-h", Json.bool (wiredB tree (S "-h"))), ("--help", Json.bool (wiredB tree (S "--help")))]
  | "c13.wrap" => some do
      let w ← fNat j "width"
      let t ← fChars j "text"
      return Json.mkObj [("hyphen", jExcept jStrs (wrapHE w t)), ("plain", jExcept jStrs (Clikit.Wrap.wrapE w t))]
  | _ => none

end Clikit.Drv.C13
