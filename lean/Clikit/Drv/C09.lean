import Clikit.Drv.Util
import Clikit.Model.Switches
/-! Driver entry of the switches model: `c09.create_io` (the decisions, and the option tokens they are read from). -/
namespace Clikit.Drv.C09
open Lean Clikit.Drv Clikit.Switches

def handle (m : String) (j : Json) : Option (R Json) :=
  match m with
  | "c09.create_io" => some do
      let toks ← (← fArr j "tokens").toList.mapM asChars
      let debug ← fBool j "debug"
      let c := createIO toks debug
      let ansi := match c.ansi with | .off => "off" | .forced => "forced" | .auto => "auto"
      return Json.mkObj [("ansi", .str ansi), ("verbosity", jNat c.verbosity), ("quiet", .bool c.quiet),
                         ("interactive", .bool c.interactive), ("help", .bool (helpSwitch toks)),
                         -- what `hasTok` tests membership in: `RawArgs.option_tokens` of the real args (code points)
                         ("option_tokens", jList (fun (t : Str) => jList (fun (ch : Char) => jNat ch.toNat) t)
                            (Clikit.Tokenizer.optionTokens toks))]
  | _ => none

end Clikit.Drv.C09
