import Clikit.Drv.Util
import Clikit.Drv.C03
import Clikit.Model.Switches
import Clikit.Model.App
/-! Driver entries of the switches model: `c09.create_io` (the decisions, and the option tokens they
are read from) and of the composed model of a whole run: `c09.app_run` (`App.runApp` on the command
tree read from the REAL default application). -/
namespace Clikit.Drv.C09
open Lean Clikit.Drv Clikit.Switches

def jIO (c : IOCfg) : Json :=
  let ansi := match c.ansi with | .off => "off" | .forced => "forced" | .auto => "auto"
  Json.mkObj [("ansi", .str ansi), ("verbosity", jNat c.verbosity), ("quiet", .bool c.quiet),
              ("interactive", .bool c.interactive)]

/-- a selected command and the args it got: name path, set arguments, set options
(`Args.arguments(False)` / `Args.options(False)` in the canonical encoding of C01) -/
def jSel (p : List Str × Clikit.Parser.Args) : Json :=
  Json.mkObj [("path", jStrs p.1), ("args_set", C01.jPairs p.2.args), ("opts_set", C01.jPairs p.2.opts)]

def jWhat : Clikit.App.What → Json
  | .helpPage .app => Json.mkObj [("kind", .str "help"), ("target", .str "app")]
  | .helpPage (.cmd p) => Json.mkObj [("kind", .str "help"), ("target", Json.mkObj [("cmd", jStrs p)])]
  | .version => Json.mkObj [("kind", .str "version")]
  | .ran p _ _ => Json.mkObj [("kind", .str "ran"), ("path", jStrs p)]
  | .error e => Json.mkObj [("kind", .str "error"), ("err", .str e.name)]

def handle (m : String) (j : Json) : Option (R Json) :=
  match m with
  | "c09.create_io" => some do
      let toks ← (← fArr j "tokens").toList.mapM asChars
      let debug ← fBool j "debug"
      let c := createIO toks debug
      let ansi := match c.ansi with | .off => "off" | .forced => "forced" | .auto => "auto"
      return Json.mkObj [("ansi", .str ansi), ("verbosity", jNat c.verbosity), ("quiet", .bool c.quiet),
                         ("interactive", .bool c.interactive), ("help", .bool (helpSwitch toks)),
                         -- what `hasTok` tests membership in: `RawArgs.option_tokens` of the real args (code points)
                         ("option_tokens", jList (fun (t : Str) => jList (fun (ch : Char) => jNat ch.toNat) t)
                            (Clikit.Tokenizer.optionTokens toks))]
  | "c09.app_run" => some do
      -- the composed model of `ConsoleApplication.run` on the tree read from the real application;
      -- every abstract handler returns 0 or (`raises`) raises an `Exception`; the error report renders
      let app ← (← fArr j "commands").toList.mapM C03.cmdOf
      let toks ← (← fArr j "tokens").toList.mapM asChars
      let cv ← C01.convOf j
      let debug ← fBool j "debug"
      let raises ← fBool j "raises"
      let hs : Clikit.App.Handlers := fun _ _ =>
        if raises then .raise { keyboardInterrupt := false, clikit := false, tag := 99 } else .ret Clikit.App.ret0
      let env : Clikit.App.Env := { debug := debug, render := fun _ => true }
      let r := Clikit.App.runApp env cv app hs toks
      return Json.mkObj [
        ("io", jIO r.io),
        ("selected", jExcept jSel (Clikit.App.resolveCommand cv app toks)),
        ("what", jWhat r.what),
        ("status", jOpt jNat r.status),
        ("escaped", .bool r.escaped.isSome),
        ("reported", .bool r.reported),
        ("invoked", jList jSel r.invoked),
        -- the hypotheses about the tree the end-to-end theorems take, decided on the real tree
        ("help_named", .bool (Clikit.App.helpNamedB app)),
        ("wired", Json.mkObj [("-h", .bool (Clikit.Help.wiredB app (Clikit.Help.S "-h"))),
                              ("--help", .bool (Clikit.Help.wiredB app (Clikit.Help.S "--help")))])]
  | _ => none

end Clikit.Drv.C09
