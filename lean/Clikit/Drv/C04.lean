import Clikit.Drv.Util
import Clikit.Model.Run
import Clikit.Model.RunListeners
import Clikit.Model.Wiring
import Clikit.Model.CommandTree
/-! Driver entries of the run model: `c04.run` (listeners given in calling order) and `c04.run_regs`
(listeners given as a registration history with priorities and event names; ordered through the
dispatcher model, `RunListeners.runWithDispatcher`).  Both take the optional field `sel`
(`{"tree": sub-command configs of the top-level command as nested arrays, "path": positions}`): the command
the line selects is the one at `path` of the tree `Command.__init__` builds (`Model/CommandTree.lean`), and
the listeners of the run are the ones THAT command consults. -/
namespace Clikit.Drv.C04
open Lean Clikit.Drv Clikit.Run

def excOf (j : Json) : R Exc := do
  return { keyboardInterrupt := ← fBool j "ki", clikit := ← fBool j "clikit", tag := ← fNat j "tag" }

def retOf (j : Json) : R RetVal := do
  let falsy ← fBool j "falsy"
  let ti ← field j "toint"
  match ti.getInt? with
  | .ok n => return { falsy := falsy, toInt := .ok n }
  | .error _ => return { falsy := falsy, toInt := .error (← excOf ti) }

def listenerOf (j : Json) : R Listener := do
  match ← fStr j "kind" with
  | "pass" => return .pass
  | "stop" => return .stopOnly
  | "handled" => return .handled (← retOf (← field j "code")) (← fBool j "stop")
  | "fail" => return .fail (← excOf (← field j "exc"))
  | k => .error s!"unknown listener kind {k}"

def outcomeOf (j : Json) : R Outcome :=
  match fOpt j "ret" with
  | some r => do return .ret (← retOf r)
  | none => do return .raise (← excOf (← field j "raise"))

/-- the object the handler lookup reaches: with the configured handler method (calling it does `h`) or without -/
def targetOf (j : Json) (h : Outcome) : R Target := do
  if ← fBool j "has_method" then return .handler h
  else return .broken (← excOf (← field j "exc"))

/-- the optional field `wiring` of a request: what `set_handler` stored (absent: the handler object itself) -/
def storedOf (j : Json) (h : Outcome) : R (Option Stored) :=
  match fOpt j "wiring" with
  | none => pure none
  | some w => do
    match ← fStr w "stored" with
    | "unset" => return some (.unset (← excOf (← field w "exc")))
    | "factory" =>
      match fOpt w "raises" with
      | some e => return some (.factory (.error (← excOf e)))
      | none => return some (.factory (.ok (← targetOf w h)))
    | "object" => return some (.object (← targetOf w h))
    | k => .error s!"unknown stored kind {k}"

/-- one `add_event_listener(event, listener, priority)`; event names arrive as numbers
(`RunListeners.preHandle` = 1 is PRE_HANDLE) -/
def regOf (j : Json) : R RunListeners.Registration := do
  return { ev := ← fNat j "event", prio := ← fInt j "prio", l := ← listenerOf (← field j "listener") }

/-- the sub-command configs of a command config, as nested arrays (`[]`: no sub-commands) -/
def cfgOf : Nat → Json → R CommandTree.Cfg
  | 0, _ => .error "sel.tree: nested too deeply"
  | n + 1, .arr a => do return .node (← a.toList.mapM (cfgOf n))
  | _, _ => .error "sel.tree: array expected"

/-- the application object of the run: its identity and the identity of its dispatcher -/
def theApp : CommandTree.App := ⟨0, 1⟩

/-- what the SELECTED command consults of `xs` (the listeners / registrations on the application's dispatcher);
without the field `sel` the top-level command of a tree without sub-commands is selected -/
def consultedOf {α : Type} (j : Json) (xs : List α) : R (List α) :=
  match fOpt j "sel" with
  | none => pure xs
  | some s => do
    let tree ← cfgOf 16 (← field s "tree")
    let path ← (← fArr s "path").toList.mapM (fun (x : Json) => match x.getNat? with
      | .ok n => pure n
      | .error _ => Except.error "sel.path: natural numbers expected")
    match CommandTree.consultedAt theApp tree path xs with
    | some l => pure l
    | none => .error "sel: the path names no command of the tree"

def jExc (e : Exc) : Json :=
  Json.mkObj [("ki", .bool e.keyboardInterrupt), ("clikit", .bool e.clikit), ("tag", jNat e.tag)]

def handle (m : String) (j : Json) : Option (R Json) :=
  match m with
  | "c04.run" => some do
      let debug ← fBool j "debug"
      let resolved : Except Exc Unit ← match fOpt j "resolve_error" with
        | none => pure (.ok ())
        | some e => do pure (.error (← excOf e))
      let ls ← consultedOf j (← (← fArr j "listeners").toList.mapM listenerOf)
      let h ← outcomeOf (← field j "handler")
      let renderOk ← fBool j "render_ok"
      let r := match ← storedOf j h with
        | none => run debug resolved ls h (fun _ => renderOk)
        | some s => runWired debug resolved ls s (fun _ => renderOk)
      return Json.mkObj [("status", jOpt jNat r.status), ("escaped", jOpt jExc r.escaped),
                         ("reported", .bool r.reported), ("calls", jNat r.handlerCalls)]
  | "c04.run_regs" => some do
      let debug ← fBool j "debug"
      let resolved : Except Exc Unit ← match fOpt j "resolve_error" with
        | none => pure (.ok ())
        | some e => do pure (.error (← excOf e))
      let regs ← consultedOf j (← (← fArr j "regs").toList.mapM regOf)
      let h ← outcomeOf (← field j "handler")
      let renderOk ← fBool j "render_ok"
      let r := match ← storedOf j h with
        | none => RunListeners.runWithDispatcher debug resolved regs h (fun _ => renderOk)
        | some s => wiredResult s (RunListeners.runWithDispatcher debug resolved regs s.call.1 (fun _ => renderOk))
      return Json.mkObj [("status", jOpt jNat r.status), ("escaped", jOpt jExc r.escaped),
                         ("reported", .bool r.reported), ("calls", jNat r.handlerCalls),
                         ("listener_calls", .arr ((RunListeners.listenerCalls resolved regs).map jNat).toArray),
                         ("pre_handle", jNat RunListeners.preHandle)]
  | _ => none

end Clikit.Drv.C04
