import Clikit.Drv.Util
import Clikit.Model.Run
/-! Driver entry of the run model: `c04.run`. -/
namespace Clikit.Drv.C04
open Lean Clikit.Drv Clikit.Run

def excOf (j : Json) : R Exc := do
  return { keyboardInterrupt := ← fBool j "ki", clikit := ← fBool j "clikit", tag := ← fNat j "tag" }

def retOf (j : Json) : R RetVal := do
  let falsy ← fBool j "falsy"
  let ti ← field j "toint"
  match ti.getInt? with
  | .ok n => return { falsy := falsy, toInt := .ok n }
  | .error _ => return { falsy := falsy, toInt := .error (← excOf ti) }

def listenerOf (j : Json) : R Listener := do
  match ← fStr j "kind" with
  | "pass" => return .pass
  | "stop" => return .stopOnly
  | "handled" => return .handled (← retOf (← field j "code")) (← fBool j "stop")
  | "fail" => return .fail (← excOf (← field j "exc"))
  | k => .error s!"unknown listener kind {k}"

def outcomeOf (j : Json) : R Outcome :=
  match fOpt j "ret" with
  | some r => do return .ret (← retOf r)
  | none => do return .raise (← excOf (← field j "raise"))

def jExc (e : Exc) : Json :=
  Json.mkObj [("ki", .bool e.keyboardInterrupt), ("clikit", .bool e.clikit), ("tag", jNat e.tag)]

def handle (m : String) (j : Json) : Option (R Json) :=
  match m with
  | "c04.run" => some do
      let debug ← fBool j "debug"
      let resolved : Except Exc Unit ← match fOpt j "resolve_error" with
        | none => pure (.ok ())
        | some e => do pure (.error (← excOf e))
      let ls ← (← fArr j "listeners").toList.mapM listenerOf
      let h ← outcomeOf (← field j "handler")
      let renderOk ← fBool j "render_ok"
      let r := run debug resolved ls h (fun _ => renderOk)
      return Json.mkObj [("status", jOpt jNat r.status), ("escaped", jOpt jExc r.escaped),
                         ("reported", .bool r.reported), ("calls", jNat r.handlerCalls)]
  | _ => none

end Clikit.Drv.C04
