import Clikit.Drv.Util
import Clikit.Model.Flags
namespace Clikit.Drv.C07
open Lean Clikit.Drv Clikit.Flags Clikit.Gen

/-- The driver's instance of `str.isalpha`: the ASCII letters.  `Props.C07.ctor_alpha_irrelevant`
shows that the constructors' outcome is the same for every `alpha` that agrees with this one on
`[a-zA-Z0-9-]`, which the harness checks of CPython's `str.isalpha` on every run. -/
def alpha : Char → Bool := isAsciiLetter

/-- name parameter: `null` = None, string = that string, anything else = a non-string object -/
def fName (j : Json) (k : String) : R NameArg := do
  match (← field j k) with
  | .null => .ok .none
  | .str s => .ok (.str s.toList)
  | _ => .ok .nonStr

def fDef (j : Json) (k : String) : R DefVal := do
  match (← fStr j k) with
  | "none" => .ok .none
  | "scalar" => .ok .scalar
  | "list" => .ok .list
  | s => .error s!"field {k}: unknown default kind {s}"

def jDef : DefVal → Json
  | .none => "none"
  | .scalar => "scalar"
  | .list => "list"

def jOption (o : OptionObj) : Json :=
  Json.mkObj [("long", jStr o.longName), ("short", jOpt jStr o.shortName), ("flags", jNat o.flags),
    ("default", jDef o.default),
    ("accepts_value", .bool (optAcceptsValue o.flags)),
    ("is_value_required", .bool (optIsValueRequired o.flags)),
    ("is_value_optional", .bool (optIsValueOptional o.flags)),
    ("is_multi_valued", .bool (optIsMultiValued o.flags)),
    ("is_long_name_preferred", .bool (optIsLongPreferred o.flags)),
    ("is_short_name_preferred", .bool (optIsShortPreferred o.flags))]

def jArgument (a : ArgumentObj) : Json :=
  Json.mkObj [("name", jStr a.name), ("flags", jNat a.flags), ("default", jDef a.default),
    ("is_required", .bool (argIsRequired a.flags)),
    ("is_optional", .bool (argIsOptional a.flags)),
    ("is_multi_valued", .bool (argIsMultiValued a.flags))]

def jCmdOpt (o : CommandOptionObj) : Json :=
  Json.mkObj [("long", jStr o.longName), ("short", jOpt jStr o.shortName), ("flags", jNat o.flags),
    ("long_aliases", jStrs o.longAliases), ("short_aliases", jStrs o.shortAliases),
    ("is_long_name_preferred", .bool (optIsLongPreferred o.flags)),
    ("is_short_name_preferred", .bool (optIsShortPreferred o.flags))]

/-- value: `null` None, `true/false` bool, number int, string str, `{"float": token}` float -/
def asVal (j : Json) : R PyVal :=
  match j with
  | .null => .ok .none
  | .bool b => .ok (.bool b)
  | .str s => .ok (.str s.toList)
  | .num _ => match j.getInt? with
    | .ok n => .ok (.int n)
    | .error _ => .error "value: integer expected"
  | .obj _ => match j.getObjVal? "float" with
    | .ok (.str t) => .ok (.float ⟨t.toList⟩)
    | _ => .error "value: {\"float\": token} expected"
  | _ => .error "value: unsupported"

/-- floats are never compared through the model: only that the result *is* a float -/
def jVal : PyVal → Json
  | .none => .null
  | .bool b => .bool b
  | .int n => jInt n
  | .str s => jStr s
  | .float _ => Json.mkObj [("float", .bool true)]

def asErrName (s : String) : Err := if s == "ValueError" then .valueError else .other s

/-- The float engine for one request: the harness supplies what CPython answered
(`eng = {"of_str": bool, "of_int": null | "<ExcName>", "to_int": {"ok": n} | {"err": "<ExcName>"},
"repr": text}`).  Tokens are opaque. -/
def fEng (j : Json) : R FloatEng := do
  let e ← field j "eng"
  let ofStr ← fBool e "of_str"
  let ofIntErr : Option String ← (match fOpt e "of_int" with
    | none => .ok none
    | some (.str s) => .ok (some s)
    | some _ => .error "eng.of_int: null or exception name expected")
  let ti ← field e "to_int"
  let toInt : Except Err Int ← (match ti.getObjVal? "ok", ti.getObjVal? "err" with
    | .ok n, _ => match n.getInt? with
      | .ok n => .ok (.ok n)
      | .error _ => .error "eng.to_int.ok: integer expected"
    | _, .ok (.str s) => .ok (.error (asErrName s))
    | _, _ => .error "eng.to_int: {ok} or {err} expected")
  let rp ← fChars e "repr"
  return { ofStr := fun s => if ofStr then some ⟨s⟩ else none,
           ofInt := fun n => match ofIntErr with
             | none => .ok ⟨intRepr n⟩
             | some s => .error (asErrName s),
           toInt := fun _ => toInt,
           repr := fun _ => rp }

def fConv (j : Json) (k : String) : R Conv := do
  match (← fStr j k) with
  | "string" => .ok .string
  | "boolean" => .ok .boolean
  | "int" => .ok .int
  | "float" => .ok .float
  | s => .error s!"field {k}: unknown conversion {s}"

def nameAccepted (kind : String) (t : Str) : R Bool :=
  let ab : NameArg := .str ['a', 'b']
  match kind with
  | "long" => .ok (mkOption alpha (.str t) .none 0 .none).isOk
  | "short" => .ok (mkOption alpha ab (.str t) 0 .none).isOk
  | "argument" => .ok (mkArgument alpha (.str t) 0 .none .none).isOk
  | "alias" => .ok (mkCommandOption alpha ab .none [t] 0).isOk
  | "cmd_long" => .ok (mkCommandOption alpha (.str t) .none [] 0).isOk
  | "cmd_short" => .ok (mkCommandOption alpha ab (.str t) [] 0).isOk
  | s => .error s!"unknown name kind {s}"

def handle (m : String) (j : Json) : Option (R Json) :=
  match m with
  | "c07.option" => some do
      let long ← fName j "long"
      let short ← fName j "short"
      let f ← fNat j "flags"
      let d ← fDef j "default"
      return jExcept jOption (mkOption alpha long short f d)
  | "c07.argument" => some do
      let name ← fName j "name"
      let f ← fNat j "flags"
      let desc ← fName j "desc"
      let d ← fDef j "default"
      return jExcept jArgument (mkArgument alpha name f desc d)
  | "c07.cmdopt" => some do
      let long ← fName j "long"
      let short ← fName j "short"
      let al ← fArr j "aliases"
      let al ← al.toList.mapM asChars
      let f ← fNat j "flags"
      return jExcept jCmdOpt (mkCommandOption alpha long short al f)
  | "c07.name" => some do
      let kind ← fStr j "kind"
      let t ← fChars j "text"
      return Json.mkObj [("accepted", .bool (← nameAccepted kind t))]
  | "c07.conv" => some do
      let c ← fConv j "type"
      let nullable ← fBool j "nullable"
      let v ← asVal (← field j "value")
      let eng ← fEng j
      return jExcept jVal (parseAs eng c nullable v)
  | "c07.parse" => some do
      let via ← fStr j "via"
      let f ← fNat j "flags"
      let v ← asVal (← field j "value")
      let eng ← fEng j
      match via with
      | "option" => return jExcept jVal (optParse eng f v)
      | "argument" => return jExcept jVal (argParse eng f v)
      | s => .error s!"unknown via {s}"
  | "c07.alpha_ok" => some do
      -- the hypothesis `AlphaOK` of the constructor theorems, decided on the table of what CPython's
      -- `str.isalpha` answered (theorem `Props.C07.alpha_table_decides`)
      let rows ← fArr j "table"
      let tbl ← rows.toList.mapM fun r => do
        match r with
        | .arr #[c, .bool b] => match c.getNat? with
          | .ok n => pure (Char.ofNat n, b)
          | .error _ => throw "table: [code point, bool] expected"
        | _ => throw "table: [code point, bool] expected"
      return Json.mkObj [("alpha_ok", .bool (alphaTableOK tbl)), ("rows", jNat tbl.length)]
  | "c07.float_rt" => some do
      -- the hypotheses of `parse_float_repr` for one float, decided on what CPython answered: `x` and `back`
      -- are exact tokens of the float and of `float(repr(x))` (`null` = ValueError), `repr` is `repr(x)`
      let x ← fChars j "x"
      let rp ← fChars j "repr"
      let back ← fOptChars j "back"
      let eng : FloatEng :=
        { ofStr := fun s => if s == rp then back.map (fun t => ⟨t⟩) else none,
          ofInt := fun _ => .error (.other "model: not asked"),
          toInt := fun _ => .error (.other "model: not asked"),
          repr := fun y => if y.tok == x then rp else [] }
      return Json.mkObj [("rt_ok", .bool (floatRtB eng ⟨x⟩))]
  | "c07.repr" => some do
      let n ← fInt j "n"
      return jStr (intRepr n)
  | _ => none

end Clikit.Drv.C07
