import Clikit.Drv.All
/-! `driver`: one JSON request per line on stdin, one JSON response per line on stdout. -/

partial def loop (inp out : IO.FS.Stream) : IO Unit := do
  let line ← inp.getLine
  if line.isEmpty then
    out.flush
    return ()
  let l := line.trimAscii.toString
  if l.isEmpty then
    loop inp out
  else
    out.putStrLn (Clikit.Drv.answer l)
    loop inp out

def main : IO Unit := do
  let inp ← IO.getStdin
  let out ← IO.getStdout
  loop inp out
